"""Entry point of ./check: proof step, correspondence run, verdict, evidence."""
import argparse
import importlib
import json
import os
import re
import subprocess
import sys
import time
import traceback

from harness import common
from harness.common import VERIF, COQ_DIR

FORBIDDEN = re.compile(
    r"\b(Admitted|admit|Axiom|Axioms|Parameter|Parameters|Conjecture|Conjectures|"
    r"Admit Obligations|Unset Guard Checking|Unset Positivity Checking|"
    r"Unset Universe Checking|bypass_check|type-in-type|impredicative-set)\b")
# Axioms of the standard library that may appear (named in DESIGN.md section 6).
ALLOWED_AXIOMS = {
    "ClassicalDedekindReals.sig_not_dec", "ClassicalDedekindReals.sig_forall_dec",
    "FunctionalExtensionality.functional_extensionality_dep",
    "Classical_Prop.classic",
}


def strip_comments(text):
    out = []
    depth = 0
    i = 0
    while i < len(text):
        if text.startswith("(*", i):
            depth += 1
            i += 2
        elif text.startswith("*)", i) and depth:
            depth -= 1
            i += 2
        else:
            if not depth:
                out.append(text[i])
            i += 1
    return "".join(out)


def proof_step(pid, thorough=False):
    """Build the Coq development (no-op when up to date) and inspect the
    property file.  Returns a dict; 'ok' False means a broken obligation."""
    res = {"ok": True, "theorems": [], "assumptions": {}, "problems": []}
    t0 = time.time()
    r = subprocess.run(["make", "-s", "-C", VERIF, f"prop-{pid}"], stdout=subprocess.PIPE,
                       stderr=subprocess.STDOUT, timeout=3000)
    res["make_s"] = round(time.time() - t0, 2)
    if r.returncode != 0:
        res["ok"] = False
        res["problems"].append("build failed: " + r.stdout.decode()[-1500:])
        return res
    vfile = os.path.join(COQ_DIR, "Properties", f"{pid}.v")
    ofile = os.path.join(COQ_DIR, "Properties", f"{pid}.out")
    src = strip_comments(open(vfile).read())
    res["theorems"] = re.findall(r"^\s*Theorem\s+(\w+)", src, re.M)
    # forbidden constructs anywhere in the development
    for root, _, files in os.walk(COQ_DIR):
        for fn in files:
            if fn.endswith(".v"):
                body = strip_comments(open(os.path.join(root, fn)).read())
                m = FORBIDDEN.search(body)
                if m:
                    res["ok"] = False
                    res["problems"].append(f"forbidden construct {m.group(0)!r} in {fn}")
    # Print Assumptions output
    out = open(ofile).read() if os.path.exists(ofile) else ""
    blocks = re.split(r"\n(?=Closed under the global context|Axioms:)", "\n" + out)
    closed = out.count("Closed under the global context")
    axioms = set()
    for blk in blocks:
        if blk.startswith("Axioms:"):
            for line in blk.splitlines()[1:]:
                # an axiom's name starts a line; its type may follow on the same or on the next lines
                if line and not line[0].isspace():
                    axioms.add(line.split()[0].rstrip(":"))
    res["closed"] = closed
    res["axioms"] = sorted(axioms)
    bad = [a for a in axioms if a not in ALLOWED_AXIOMS]
    if bad:
        res["ok"] = False
        res["problems"].append(f"unexpected axioms: {bad}")
    n_print = len(re.findall(r"Print Assumptions", src))
    if n_print < len(res["theorems"]) or not res["theorems"]:
        res["ok"] = False
        res["problems"].append("a theorem lacks its Print Assumptions")
    if thorough:
        r = subprocess.run(["make", "-s", "-C", VERIF, f"chk-{pid}"], stdout=subprocess.PIPE,
                           stderr=subprocess.STDOUT, timeout=3000)
        res["coqchk"] = r.stdout.decode()[-1200:]
        if r.returncode != 0:
            res["ok"] = False
            res["problems"].append("coqchk failed")
    return res


def main():
    ap = argparse.ArgumentParser()
    ap.add_argument("pid")
    ap.add_argument("--tier", default=os.environ.get("VERIF_TIER", "quick"),
                    choices=["quick", "thorough"])
    ap.add_argument("--replay")
    ap.add_argument("--no-proof", action="store_true", help="skip the proof step (debugging)")
    a = ap.parse_args()
    pid = a.pid.upper()
    seed = int(os.environ.get("VERIF_SEED", "0") or 0)
    common.force_repo_path()
    mod = importlib.import_module(f"harness.props.{pid.lower()}")

    if a.replay:
        with open(a.replay) as f:
            payload = json.load(f)
        R = common.Run(pid, a.tier, seed)
        try:
            still = mod.replay(R, payload)
        finally:
            R.cleanup()
        if still:
            print(f"VIOLATION property={pid} replay={a.replay}")
            sys.exit(1)
        print(f"replay of {a.replay}: the recorded failure is not observed on the current tree")
        sys.exit(0)

    R = common.Run(pid, a.tier, seed)
    proof = {"ok": True, "theorems": [], "problems": [], "axioms": [], "closed": 0}
    crashed = None
    try:
        if not a.no_proof:
            proof = proof_step(pid, thorough=(a.tier == "thorough"))
        mod.run(R)
        if a.tier == "thorough" and not a.no_proof:
            n, bad = common.kernel_crosscheck(R.model, os.path.join(R.tmp, "xcheck"))
            R.extra["in_kernel_crosscheck"] = {"requests_reevaluated_by_vm_compute": n, "mismatches": bad}
            for b in bad:
                R.disagree("extracted binary vs in-kernel evaluation (vm_compute)", b, b.get("binary_reply"),
                           "differs")
    except Exception:  # noqa: BLE001
        crashed = traceback.format_exc()
    finally:
        R.cleanup()

    rc = 0
    lines = []
    listed = {f["id"]: f for f in R.findings if f.get("status", "open") == "open"}
    for fid, n in sorted(R.known_hits.items()):
        if fid in listed:
            lines.append(f"KNOWN-FINDING: property={pid} {fid}: {listed[fid]['what_fails']} "
                         f"({n} case(s) this run)")
    if crashed:
        path = common.write_replay(pid, {"kind": "harness-crash", "traceback": crashed})
        lines.append(f"VIOLATION property={pid} replay={path} no-failing-input-found")
        sys.stderr.write(crashed)
        rc = 1
    elif R.violations:
        v = R.violations[0]
        path = common.write_replay(pid, {"kind": "property-violation", "property": pid,
                                         "seed": seed, "tier": a.tier, **v,
                                         "others": len(R.violations) - 1,
                                         "replay_cmd": f"./check {pid} --replay <this file>"})
        lines.append(f"VIOLATION property={pid} replay={path}")
        rc = 1
    elif R.disagreements or not proof["ok"]:
        payload = {"kind": "broken-correspondence-or-proof", "property": pid, "seed": seed,
                   "tier": a.tier,
                   "no_longer_checks": (["proof step: " + "; ".join(proof["problems"])]
                                        if not proof["ok"] else []) +
                   [f"correspondence {d['what']}" for d in R.disagreements[:5]],
                   "disagreements": R.disagreements[:5],
                   "searched": R.extra.get("search_note", "neighbourhood of the disagreeing cases; "
                                           "the oracle accepted every implementation output"),
                   "replay_cmd": f"./check {pid} --replay <this file>"}
        path = common.write_replay(pid, payload)
        lines.append(f"VIOLATION property={pid} replay={path} no-failing-input-found")
        rc = 1

    n_thm = len(proof["theorems"])
    ev = {
        "property_id": pid, "tier": a.tier, "seed": seed, "level": "proof",
        "coverage": {
            "obligations": n_thm,
            "discharged": n_thm if proof["ok"] else 0,
            "checker_cmd": f"make -C /verif prop-{pid}  (coqc, full .vo build of the closure of "
                           f"coq/Properties/{pid}.v; Print Assumptions captured in {pid}.out)",
            "trusted_base": [
                "Coq 8.16.1 kernel (vm_compute used; native_compute not used)",
                "hand-written Gallina model coq/theories/** tied to /repo by this run's correspondence",
                "extraction (ExtrOcamlBasic) + ocaml/driver.ml + OCaml 4.13.1 + zarith (number I/O only)",
                "Python harness (generators, canonicalisation, classification)",
            ] + [f"axiom: {x}" for x in proof.get("axioms", [])],
            "theorems": proof["theorems"],
            "closed_under_global_context": proof.get("closed", 0),
            "proof_problems": proof["problems"],
            "evaluations": R.evaluations,
            "distinct_nontrivial": len(R.nontrivial),
            "rule": R.rule,
            "samples": R.samples[:8] or [{"note": "no case generated"}],
            "traces_validated_against_impl": R.traces or R.evaluations,
            "model_calls": R.model.calls,
            "distribution": R.dist,
            "exhaustive": R.exhaustive,
            "known_findings_reproduced": R.known_hits,
            "disagreements": len(R.disagreements),
            **R.extra,
        },
        "assumptions": R.notes,
        "wall_s": round(time.time() - R.t0, 2),
        "violations": len(R.violations) + (1 if (R.disagreements or not proof["ok"] or crashed) else 0),
    }
    # debugging runs without the proof step (and runs against another tree) never overwrite the evidence
    evdir = os.path.join(VERIF, "evidence")
    if a.no_proof or os.environ.get("VERIF_REPO"):
        evdir = os.path.join(VERIF, "evidence", ".scratch")
    os.makedirs(evdir, exist_ok=True)
    with open(os.path.join(evdir, f"{pid}.json"), "w") as f:
        json.dump(ev, f, indent=1, default=common._jd, sort_keys=True)
    for ln in lines:
        print(ln)
    print(f"{pid} {a.tier}: {R.evaluations} cases, {len(R.nontrivial)} distinct non-trivial, "
          f"{n_thm} theorems, {len(R.violations)} violations, {len(R.disagreements)} disagreements, "
          f"{ev['wall_s']} s")
    sys.exit(rc)


if __name__ == "__main__":
    main()
