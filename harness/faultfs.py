"""Fault and crash injection for the storage accessors, from outside.

Wraps builtins.open / io.open (this also covers gzip.open and
pathlib.Path.open), os.makedirs, pathlib.Path.is_file / exists / mkdir /
unlink and os.unlink / os.remove while active.  Calls that concern paths under ``root`` are numbered as the
primitive calls of the Coq model (StFS.call):

    ("isfile", path) ("exists", path) ("makedirs", path) ("unlink", path)
    ("open", path, mode)  ("write", path)  ("read", path)  ("close", path)

All writes (resp. reads) on one handle form ONE event, numbered at the first
underlying call; ``fault=(k, errno, sub)`` makes the sub-th underlying write
(0-based) of write event k fail instead of the first one, and
``record_writes=True`` keeps (path, bytes) of every underlying write in
``ffs.writes``.  With ``fault=(k, errno)`` event k raises OSError(errno)
instead of happening; with ``cut=k`` event k raises SimCrash (a BaseException,
so no ``except OSError``/``except Exception`` swallows it) and every later
primitive is inert.
"""
import builtins
import errno as _errno
import gc
import io
import os
import pathlib


class SimCrash(BaseException):
    pass


class _Proxy:
    """File object proxy: numbers the write / read phases and the close."""

    def __init__(self, ffs, real, path):
        self.__dict__["_ffs"] = ffs
        self.__dict__["_real"] = real
        self.__dict__["_path"] = path
        self.__dict__["_wrote"] = False
        self.__dict__["_read"] = False

    def __getattr__(self, name):
        return getattr(self._real, name)

    def __enter__(self):
        return self

    def __exit__(self, *a):
        self.close()
        return False

    def __iter__(self):
        return iter(self._real)

    def write(self, data):
        if self._ffs.dead:
            return len(data)              # after the simulated crash nothing reaches the file
        if not self._wrote:
            self.__dict__["_wrote"] = True
            self.__dict__["_wev"] = len(self._ffs.events)
            self.__dict__["_wcount"] = 0
            self._ffs.event(("write", self._path))
        else:
            self.__dict__["_wcount"] = self._wcount + 1
            self._ffs.subwrite(self._wev, self._wcount, self._path)
        if self._ffs.writes is not None:
            self._ffs.writes.append((self._path, bytes(data)))
        return self._real.write(data)

    def _note_read(self):
        if not self._read:
            self.__dict__["_read"] = True
            self._ffs.event(("read", self._path))

    def read(self, *a):
        self._note_read()
        return self._real.read(*a)

    def readinto(self, b):
        self._note_read()
        return self._real.readinto(b)

    def read1(self, *a):
        self._note_read()
        return self._real.read1(*a)

    def close(self):
        if self._real.closed:
            return
        if self._ffs.dead:
            self._real.close()
            return
        try:
            self._ffs.event(("close", self._path))
        finally:
            self._real.close()


class FaultFS:
    def __init__(self, root, fault=None, cut=None, record_writes=False):
        self.root = os.path.realpath(root)
        self.fault = fault
        self.writes = [] if record_writes else None
        self.cut = cut
        self.events = []
        self.dead = False
        self.fired = False
        self._depth = 0

    # -- bookkeeping
    def inside(self, path):
        try:
            p = os.path.abspath(os.fspath(path))
        except TypeError:
            return False
        return p == self.root or p.startswith(self.root + "/")

    def event(self, ev):
        if self.dead:
            raise SimCrash()
        k = len(self.events)
        self.events.append(ev)
        if self.cut is not None and k == self.cut:
            self.dead = True
            self.fired = True
            raise SimCrash()
        if self.fault is not None and k == self.fault[0] and (len(self.fault) < 3 or self.fault[2] == 0
                                                              or ev[0] != "write"):
            self.fired = True
            code = getattr(_errno, self.fault[1])
            raise OSError(code, os.strerror(code), ev[1])

    def subwrite(self, wev, count, path):
        """The count-th (>= 1) underlying write of write event wev."""
        if self.dead:
            raise SimCrash()
        if self.fault is not None and len(self.fault) >= 3 and self.fault[0] == wev and self.fault[2] == count:
            self.fired = True
            code = getattr(_errno, self.fault[1])
            raise OSError(code, os.strerror(code), path)

    # -- patches
    def __enter__(self):
        ffs = self
        self._saved = (builtins.open, io.open, os.makedirs, pathlib.Path.is_file, pathlib.Path.exists,
                       pathlib.Path.mkdir, pathlib.Path.unlink, os.unlink, os.remove)
        (real_open, _, real_makedirs, real_is_file, real_exists, real_mkdir, real_punlink, real_unlink,
         real_remove) = self._saved

        def f_open(file, mode="r", *a, **k):
            if isinstance(file, int) or not ffs.inside(file):
                return real_open(file, mode, *a, **k)
            path = os.path.abspath(os.fspath(file))
            m = "xb" if "x" in mode else "wb" if "w" in mode else "ab" if "a" in mode else "rb"
            ffs.event(("open", path, m))
            return _Proxy(ffs, real_open(file, mode, *a, **k), path)

        def f_makedirs(name, *a, **k):
            # os.makedirs recurses through the module attribute: count the outermost call only
            if not ffs.inside(name) or ffs._depth:
                return real_makedirs(name, *a, **k)
            ffs.event(("makedirs", os.path.abspath(os.fspath(name))))
            ffs._depth += 1
            try:
                return real_makedirs(name, *a, **k)
            finally:
                ffs._depth -= 1

        def f_is_file(self_):
            if not ffs.inside(self_):
                return real_is_file(self_)
            ffs.event(("isfile", os.path.abspath(str(self_))))
            return real_is_file(self_)

        def f_exists(self_, **k):
            if not ffs.inside(self_) or ffs._depth:
                return real_exists(self_, **k)
            ffs.event(("exists", os.path.abspath(str(self_))))
            return real_exists(self_, **k)

        def f_mkdir(self_, *a, **k):
            if not ffs.inside(self_) or ffs._depth:
                return real_mkdir(self_, *a, **k)
            ffs.event(("makedirs", os.path.abspath(str(self_))))
            ffs._depth += 1
            try:
                return real_mkdir(self_, *a, **k)
            finally:
                ffs._depth -= 1

        def f_punlink(self_, *a, **k):
            # pathlib.Path.unlink calls os.unlink: count the outermost call only
            if not ffs.inside(self_) or ffs._depth:
                return real_punlink(self_, *a, **k)
            ffs.event(("unlink", os.path.abspath(str(self_))))
            ffs._depth += 1
            try:
                return real_punlink(self_, *a, **k)
            finally:
                ffs._depth -= 1

        def make_unlink(real):
            def f_unlink(path, *a, **k):
                if isinstance(path, int) or not ffs.inside(path) or ffs._depth:
                    return real(path, *a, **k)
                ffs.event(("unlink", os.path.abspath(os.fspath(path))))
                return real(path, *a, **k)
            return f_unlink

        pathlib.Path.unlink = f_punlink
        os.unlink = make_unlink(real_unlink)
        os.remove = make_unlink(real_remove)
        builtins.open = f_open
        io.open = f_open
        os.makedirs = f_makedirs
        pathlib.Path.is_file = f_is_file
        pathlib.Path.exists = f_exists
        pathlib.Path.mkdir = f_mkdir
        return self

    def __exit__(self, *a):
        (builtins.open, io.open, os.makedirs, pathlib.Path.is_file, pathlib.Path.exists,
         pathlib.Path.mkdir, pathlib.Path.unlink, os.unlink, os.remove) = self._saved
        self.dead = True          # handles still alive are closed quietly by the collector
        gc.collect()
        return False
