"""C03 — writing then reading a chunk; off-grid positions rejected.

Correspondence: PrecomputedIO.validate_chunk_coords / get_encoder /
write_chunk / read_chunk vs coq/theories/Pio/PioModel.v.  Oracle: an
independent Python restatement of "on the chunk grid" and a Python dict of
the last array written to each (scale, position).
"""
import itertools
import json
import os

import numpy as np

from harness.common import outcome_of, model_outcome, Atom

RULE = ("random infos (5 dtypes x C 1..4 x sizes 1..40 x chunk sizes x raw/cseg/jpeg x accessor kinds); "
        "coordinates from a mutation grammar (valid, shifted, negative, swapped, off by one, beyond, zero "
        "extent); write/read interleavings over two scales; fresh-handle re-read. "
        "non-trivial = sequence with >= 2 writes to >= 2 positions, or a coordinate tuple that is not valid")

DT = ["uint8", "uint16", "uint32", "uint64", "float32"]
ENC = ["raw", "compressed_segmentation", "jpeg"]


def on_grid_ref(size, chunk_sizes, c):
    xmin, xmax, ymin, ymax, zmin, zmax = c
    for cs in chunk_sizes:
        ok = True
        for mn, mx, k, s in ((xmin, xmax, cs[0], size[0]), (ymin, ymax, cs[1], size[1]), (zmin, zmax, cs[2], size[2])):
            if not (0 <= mn < s and mn % k == 0 and mx == min(mn + k, s)):
                ok = False
        if ok:
            return True
    return False


def mutate_coords(rng, size, cs):
    g = [-(-s // c) for s, c in zip(size, cs)]
    idx = [rng.randrange(n) for n in g]
    c = []
    for i, s, k in zip(idx, size, cs):
        c += [i * k, min((i + 1) * k, s)]
    kind = rng.choice(["valid", "valid", "shift", "neg", "beyond", "zero", "swap", "offby1", "fullsize", "axes"])
    a = rng.randrange(3)
    if kind == "shift":
        d = rng.choice([-1, 1])
        c[2 * a] += d
        c[2 * a + 1] += d
    elif kind == "neg":
        c[2 * a], c[2 * a + 1] = -cs[a], min(0, size[a])
    elif kind == "beyond":
        m = g[a] * cs[a] + rng.choice([0, cs[a]])
        c[2 * a], c[2 * a + 1] = m, min(m + cs[a], size[a])
    elif kind == "zero":
        c[2 * a], c[2 * a + 1] = size[a], size[a]
    elif kind == "swap":
        c[2 * a], c[2 * a + 1] = c[2 * a + 1], c[2 * a]
    elif kind == "offby1":
        c[2 * a + 1] += rng.choice([-1, 1])
    elif kind == "fullsize":
        c[2 * a + 1] = c[2 * a] + cs[a]
    elif kind == "axes":
        c = c[2:4] + c[0:2] + c[4:6]
    return tuple(c), kind


class MemAccessor:
    can_read = True
    can_write = True

    def __init__(self):
        self.d = {}

    def fetch_chunk(self, key, chunk_coords):
        from neuroglancer_scripts.accessor import DataAccessError
        try:
            return self.d[(key, tuple(chunk_coords))]
        except KeyError:
            raise DataAccessError("missing") from None

    def store_chunk(self, buf, key, chunk_coords, mime_type=None, overwrite=True):
        self.d[(key, tuple(chunk_coords))] = bytes(buf)

    def fetch_file(self, p):
        from neuroglancer_scripts.accessor import DataAccessError
        try:
            return self.d[p]
        except KeyError:
            raise DataAccessError("missing") from None

    def store_file(self, p, buf, mime_type=None, overwrite=False):
        from neuroglancer_scripts.accessor import DataAccessError
        if p in self.d and not overwrite:
            raise DataAccessError("file exists")
        self.d[p] = bytes(buf)

    def file_exists(self, p):
        return p in self.d


def sc_val(s):
    vo = s.get("voxel_offset")
    return [s["key"].encode(), s["size"], [list(c) for c in s["chunk_sizes"]],
            Atom("none") if vo is None else vo]


def run(R):
    from neuroglancer_scripts import chunk_encoding, precomputed_io, accessor
    R.rule = RULE
    rng = R.rng
    quick = R.tier == "quick"

    # ------------------------------------------------------------ validate_chunk_coords
    reqs, metas = [], []
    for _ in range(4000 if quick else 150000):
        size = [rng.choice([1, 2, 3, 7, 8, 9, 40, 64, 100, rng.randrange(1, 41)]) for _ in range(3)]
        css = [[rng.choice([1, 2, 3, 4, 8, 64]) for _ in range(3)] for _ in range(rng.choice([1, 1, 1, 2]))]
        sc = {"key": "k", "size": size, "chunk_sizes": css, "voxel_offset": [0, 0, 0]}
        r = rng.random()
        if r < 0.02:
            sc["voxel_offset"] = [0, 1, 0]
        elif r < 0.04:
            del sc["voxel_offset"]
        c, kind = mutate_coords(rng, size, rng.choice(css))
        reqs.append(("validate", [sc_val(sc), list(c)]))
        metas.append((sc, c, kind))
    replies = R.model.batch(reqs)
    mem = MemAccessor()
    for (sc, c, kind), rep in zip(metas, replies):
        info = {"type": "image", "data_type": "uint8", "num_channels": 1,
                "scales": [dict(sc, encoding="raw", resolution=[1, 1, 1])]}
        pio = precomputed_io.PrecomputedIO(info, mem)
        impl = outcome_of(lambda: bool(pio.validate_chunk_coords("k", c)))
        mod = model_outcome(rep)
        if mod[0] == "ok":
            mod = ["ok", mod[1] == "true"]
        case = {"size": sc["size"], "chunk_sizes": sc["chunk_sizes"], "coords": list(c),
                "voxel_offset": sc.get("voxel_offset", "absent")}
        R.case(case, nontrivial=kind != "valid")
        R.count(f"validate:{kind}:{impl[1] if impl[0] == 'ok' else impl[-1]}")
        if impl != mod:
            R.disagree("validate_chunk_coords vs model", case, impl, mod)
        if sc.get("voxel_offset") == [0, 0, 0]:
            want = on_grid_ref(sc["size"], sc["chunk_sizes"], c)
            if impl != ["ok", want]:
                R.violation("validate_chunk_coords " + ("rejects a grid position" if want else
                                                        "accepts a position that is not on the chunk grid"),
                            case, {"impl": impl, "on_grid": want})

    # ------------------------------------------------------------ get_encoder
    dts = DT + ["int8", "float64", "uint128"]
    for _ in range(600 if quick else 20000):
        info, sc = {}, {}
        hd, hn, he = rng.random() < 0.96, rng.random() < 0.96, rng.random() < 0.96
        dt = rng.choice(DT + DT + dts)
        nc = rng.choice([1] * 8 + [3] * 5 + [2, 4, 0, -1, 2.0, "3"])
        enc = rng.choice(ENC + ENC + ["png"])
        blk = rng.choice([None, [8, 8, 8], [4, 2, 1]])
        if hd:
            info["data_type"] = dt
        if hn:
            info["num_channels"] = nc
        if he:
            sc["encoding"] = enc
        if blk:
            sc["compressed_segmentation_block_size"] = blk

        def f():
            e = chunk_encoding.get_encoder(info, sc)
            if isinstance(e, chunk_encoding.CompressedSegmentationEncoder):
                return [Atom("cseg")] + list(e.block_size)
            return Atom({"RawChunkEncoder": "raw", "JpegChunkEncoder": "jpeg"}[type(e).__name__])
        impl = outcome_of(f)
        dti = dts.index(dt) if dt in DT else 9
        rep = R.model.call("get_encoder", [hd, hn, he, dti, nc if isinstance(nc, int) else Atom("notint"),
                                           ENC.index(enc) if enc in ENC else 9,
                                           blk if blk else Atom("none")])
        mod = model_outcome(rep)
        case = {"info": info, "scale": sc}
        R.case(case, nontrivial=True)
        R.count("get_encoder:" + (impl[0] if impl[0] != "ok" else
                                  ("cseg" if isinstance(impl[1], list) else str(impl[1]))))
        if impl != mod:
            R.disagree("get_encoder vs model", case, impl, mod)
        if impl[0] not in ("ok", "InfoErr"):
            R.violation("get_encoder raised something other than InvalidInfoError", case, {"impl": impl})

    # ------------------------------------------------------------ write / read sequences
    n_seq = 120 if quick else 4000
    jpeg_err = 0
    for si in range(n_seq):
        enc = rng.choice(["raw", "raw", "compressed_segmentation", "jpeg"])
        if enc == "jpeg":
            dt, nch = "uint8", rng.choice([1, 3])
        elif enc == "compressed_segmentation":
            dt, nch = rng.choice(["uint32", "uint64"]), rng.choice([1, 2])
        else:
            dt, nch = rng.choice(DT), rng.choice([1, 2, 3, 4])
        # stratified: the first sessions of every run mix a lossless and a lossy scale, in both orders
        # (s0 raw + s1 jpeg, s0 jpeg + s1 raw), one and three channels
        forced_mix = si < 8
        if forced_mix:
            enc, dt, nch = ("raw" if si % 2 == 0 else "jpeg"), "uint8", (1 if si % 4 < 2 else 3)
        scales = []
        for k in range(2):
            size = [rng.randrange(1, 14) for _ in range(3)]
            cs = [rng.choice([1, 2, 3, 4, 8]) for _ in range(3)]
            enc_k = enc
            if k == 1 and (rng.random() < 0.5 or forced_mix):
                # another encoding for the second scale (allowed by the format)
                if dt == "uint8" and nch in (1, 3):
                    enc_k = "jpeg" if enc == "raw" else "raw"
                elif dt in ("uint32", "uint64"):
                    enc_k = "raw" if enc == "compressed_segmentation" else "compressed_segmentation"
            sc = {"key": f"s{k}", "size": size, "chunk_sizes": [cs], "encoding": enc_k,
                  "resolution": [1, 1, 1], "voxel_offset": [0, 0, 0]}
            if enc_k == "compressed_segmentation":
                sc["compressed_segmentation_block_size"] = [rng.choice([1, 2, 4, 8]) for _ in range(3)]
            scales.append(sc)
        info = {"type": "image", "data_type": dt, "num_channels": nch, "scales": scales}
        enc_of = {x["key"]: x["encoding"] for x in scales}
        if len(set(enc_of.values())) > 1:
            R.count("seq:mixed-encodings")
        kind = rng.choice(["mem", "file-deep-gz", "file-flat", "file-flat-gz", "file-deep"])
        d = os.path.join(R.tmp, f"seq{si}")
        if kind == "mem":
            acc = MemAccessor()
            reopen = lambda: acc   # noqa: E731
            reopen_same = reopen
        else:
            opts = {"flat": "flat" in kind, "gzip": "gz" in kind}
            acc = accessor.get_accessor_for_url(d, opts)
            other = {"flat": rng.random() < 0.5, "gzip": rng.random() < 0.5}
            reopen = lambda: accessor.get_accessor_for_url(d, other)   # noqa: E731
            # same layout as the writer: a chunk rewritten in another layout would leave the old file behind
            reopen_same = lambda: accessor.get_accessor_for_url(d, opts)   # noqa: E731
        pio = precomputed_io.get_IO_for_new_dataset(info, acc)
        arrays = []          # token -> array (expected read-back)
        retained = []        # (array returned by a read, its copy at that time): must never change later
        given_snap = {}      # token -> copy of the array handed to write_chunk (the call must not modify it)
        given_arrays = {}    # token -> array actually passed to write_chunk
        last = {}            # (key, coords) -> token
        ops, wire = [], []
        for _ in range(rng.randrange(1, 13)):
            sc = rng.choice(scales)
            c, ckind = mutate_coords(rng, sc["size"], sc["chunk_sizes"][0])
            if rng.random() < 0.7 and ckind != "valid":
                c, ckind = mutate_coords(rng, sc["size"], sc["chunk_sizes"][0])
            if rng.random() < 0.6:
                shape = (nch, max(c[5] - c[4], 1), max(c[3] - c[2], 1), max(c[1] - c[0], 1))
                if "jpeg" in (enc, scales[1]["encoding"]):
                    base = np.add.outer(np.add.outer(np.arange(shape[1]), np.arange(shape[2])), np.arange(shape[3]))
                    arr = np.stack([(base * 3 + 40 * ch + rng.randrange(20)) % 200 for ch in range(nch)]).astype(dt)
                elif dt == "float32":
                    arr = np.array([rng.uniform(-1e6, 1e6) for _ in range(int(np.prod(shape)))], dtype=dt).reshape(shape)
                else:
                    hi = np.iinfo(dt).max
                    pool = [0, 1, hi, hi - 1, rng.randrange(hi), rng.randrange(hi), 2 ** 31 % (hi + 1)]
                    arr = np.array([rng.choice(pool) for _ in range(int(np.prod(shape)))], dtype=dt).reshape(shape)
                    if rng.random() < 0.3:
                        # segment-like content: one label, or two labels split along one axis (uniform blocks)
                        arr = np.full(shape, rng.choice(pool), dtype=dt)
                        ax = rng.randrange(1, 4)
                        if shape[ax] > 1 and rng.random() < 0.5:
                            idx = [slice(None)] * 4
                            idx[ax] = slice(shape[ax] // 2, None)
                            arr[tuple(idx)] = rng.choice(pool)
                        R.count("seq:segment-like-array")
                # the array handed to write_chunk may be big-endian or of a narrower type that casts
                # safely; what must come back is its value in the dataset's data type
                # first bytes that look like a compressed or otherwise "recognisable" stream (raw encoding stores
                # the voxels as they are: 1f 8b is gzip's magic, ff d8 JPEG's, 89 50 PNG's)
                if sc["encoding"] == "raw" and rng.random() < 0.15 and arr.size >= 2:
                    magic = rng.choice([b"\x1f\x8b\x08\x00", b"\xff\xd8\xff\xe0", b"\x89PNG", b"\x78\x9c\x01\x00"])
                    flat = arr.reshape(-1)
                    head = np.frombuffer((magic * 2)[:max(arr.dtype.itemsize, 4 // arr.dtype.itemsize * arr.dtype.itemsize)],
                                         dtype=arr.dtype.newbyteorder("<"))
                    flat[:min(len(head), flat.size)] = head[:min(len(head), flat.size)]
                    R.count("seq:chunk-starts-with-magic-bytes")
                want = arr
                given = arr
                r = rng.random()
                if 0.3 <= r < 0.5:
                    # the same values in another memory layout: Fortran order, or a strided view
                    if r < 0.4:
                        given = np.asfortranarray(arr)
                    else:
                        big = np.zeros(tuple(2 * n for n in arr.shape), dtype=arr.dtype)
                        big[::2, ::2, ::2, ::2] = arr
                        given = big[::2, ::2, ::2, ::2]
                    R.count("seq:given-array-layout:" + ("fortran" if r < 0.4 else "strided"))
                if r < 0.2 and arr.dtype.itemsize > 1:
                    given = arr.astype(arr.dtype.newbyteorder(">"))
                elif r < 0.3 and sc["encoding"] == "raw" and dt in ("uint16", "uint32", "uint64", "float32"):
                    small = np.array([rng.randrange(256) for _ in range(arr.size)], dtype="uint8").reshape(arr.shape)
                    given, want = small, small.astype(dt)
                arrays.append(want)
                given_arrays[len(arrays) - 1] = given
                given_snap[len(arrays) - 1] = given.copy()
                ops.append(("w", len(arrays) - 1, sc["key"], c, ckind))
                wire.append([Atom("w"), len(arrays) - 1, sc["key"].encode(), list(c)])
            else:
                ops.append(("r", None, sc["key"], c, ckind))
                wire.append([Atom("r"), sc["key"].encode(), list(c)])
        rep = R.model.call("pio_run", [[sc_val(s) for s in scales], wire])
        positions = set()
        for (o, rep_o) in zip(ops, rep):
            kind_o, tok, key, c, ckind = o
            mod = model_outcome(rep_o)
            valid = on_grid_ref([s for s in scales if s["key"] == key][0]["size"],
                                [s for s in scales if s["key"] == key][0]["chunk_sizes"], c)
            if kind_o == "w":
                before = _listing(acc, d)
                impl = outcome_of(lambda: pio.write_chunk(given_arrays[tok], key, c))
                if impl[0] == "ok":
                    impl = ["ok", "stored"]
                    last[(key, c)] = tok
                    positions.add((key, c))
                elif _listing(acc, d) != before:
                    R.violation("a rejected write changed the stored data", {"info": info, "coords": list(c)}, {})
                if valid and impl[0] != "ok":
                    R.violation("write_chunk failed on a valid position", {"info": info, "coords": list(c)},
                                {"impl": impl})
                if not valid and impl[0] == "ok":
                    R.violation("write_chunk stored a chunk at a position that is not on the grid",
                                {"info": info, "coords": list(c)}, {"impl": impl})
                if impl != (["ok", "stored"] if mod[0] == "ok" else mod):
                    R.disagree("write_chunk vs model", {"info": info, "coords": list(c)}, impl, mod)
            else:
                impl = outcome_of(lambda: pio.read_chunk(key, c))
                want_tok = last.get((key, c))
                if impl[0] == "ok":
                    arr = impl[1]
                    retained.append((arr, arr.copy(), key, c))
                    if want_tok is None:
                        R.violation("read_chunk returned data for a chunk never written",
                                    {"info": info, "coords": list(c)}, {})
                    else:
                        jpeg_err = max(jpeg_err, _compare(R, info, c, arrays[want_tok], arr, enc_of[key]))
                    impl_c = ["ok", want_tok if want_tok is not None else -1]
                else:
                    impl_c = impl
                    if valid and want_tok is not None:
                        R.violation("read_chunk failed on a chunk that was written",
                                    {"info": info, "coords": list(c)}, {"impl": impl})
                    if valid and want_tok is None and impl != ["AccessErr"]:
                        R.violation("reading a never-written chunk is not a data-access error",
                                    {"info": info, "coords": list(c)}, {"impl": impl})
                if impl_c != mod:
                    R.disagree("read_chunk vs model", {"info": info, "coords": list(c)}, impl_c, mod)
        # every written position read once more through the same handle, results kept side by side
        for (key_k, c_k), tok_k in list(last.items()):
            got_k = outcome_of(lambda: pio.read_chunk(key_k, c_k))
            if got_k[0] == "ok":
                retained.append((got_k[1], got_k[1].copy(), key_k, c_k))
        # results handed out earlier stay what they were (no output buffer shared between calls), and the
        # arrays handed in are not modified
        for arr, snap, key_r, c_r in retained:
            if arr.shape != snap.shape or arr.tobytes() != snap.tobytes():
                R.violation("an array returned by read_chunk changed when another chunk was read or written later "
                            "(output buffer shared between calls)", {"info": info, "coords": list(c_r)}, {})
                break
        for tok_g, snap in given_snap.items():
            g = given_arrays[tok_g]
            if g.shape != snap.shape or g.tobytes() != snap.tobytes():
                R.violation("write_chunk modified the array it was given", {"info": info}, {"token": tok_g})
                break
        # second initialisation of the same dataset with a description that decodes differently: either it
        # is refused, or what is written through the returned handle must read back through a fresh handle
        if rng.random() < 0.4:
            info2 = json.loads(json.dumps(info))
            swap = {"uint32": "float32", "float32": "uint32", "uint8": "uint16", "uint16": "uint8",
                    "uint64": "uint32"}
            info2["data_type"] = swap[dt]
            for s2 in info2["scales"]:
                s2["encoding"] = "raw"
                s2.pop("compressed_segmentation_block_size", None)
            ow = rng.random() < 0.25
            got2 = outcome_of(lambda: precomputed_io.get_IO_for_new_dataset(info2, reopen_same(), overwrite_info=ow))
            R.count("reinit:" + ("overwrite" if ow else "no-overwrite") + ":" + got2[0])
            if got2[0] == "ok":
                if ow:
                    last.clear()
                pio_b = got2[1]
                sc2 = info2["scales"][0]
                c2 = tuple(t for s_, k_ in zip(sc2["size"], sc2["chunk_sizes"][0]) for t in (0, min(k_, s_)))
                a2 = np.arange(nch * (c2[5] - c2[4]) * (c2[3] - c2[2]) * (c2[1] - c2[0]), dtype="float64")
                a2 = (a2 * 0.5 + 0.5).astype(info2["data_type"]).reshape(nch, c2[5] - c2[4], c2[3] - c2[2], c2[1] - c2[0])
                # (an overwriting initialisation with another encoding changes the stored form of a chunk,
                #  plain <-> .gz: since /repo 69c193f the file accessor drops the other form, so positions that
                #  hold a chunk of the old dataset are included)
                w2 = outcome_of(lambda: pio_b.write_chunk(a2, sc2["key"], c2))
                if w2[0] == "ok":
                    last.pop((sc2["key"], c2), None)
                    r2 = outcome_of(lambda: precomputed_io.get_IO_for_existing_dataset(reopen()).read_chunk(sc2["key"], c2))
                    rcase = {"first_info": info, "second_info": info2, "overwrite_info": ow, "coords": list(c2)}
                    if r2[0] != "ok":
                        R.violation("chunk written through a re-initialised handle cannot be read by a fresh handle",
                                    rcase, {"impl": r2})
                    elif (r2[1].shape != a2.shape or r2[1].dtype.newbyteorder("=") != a2.dtype
                          or r2[1].tobytes() != a2.tobytes()):
                        R.violation("chunk written through a re-initialised handle reads back differently through a "
                                    "fresh handle (the handle and the stored info disagree)", rcase,
                                    {"written": [str(a2.dtype), list(a2.shape)],
                                     "read": [str(r2[1].dtype), list(r2[1].shape)]})
        # fresh handle (another accessor configuration for file accessors)
        pio2 = precomputed_io.get_IO_for_existing_dataset(reopen())
        for (key, c), tok in last.items():
            impl = outcome_of(lambda: pio2.read_chunk(key, c))
            if impl[0] != "ok":
                R.violation("fresh handle cannot read a written chunk", {"info": info, "coords": list(c)},
                            {"impl": impl})
            else:
                jpeg_err = max(jpeg_err, _compare(R, info, c, arrays[tok], impl[1], enc_of[key]))
        case = {"encoding": enc, "data_type": dt, "num_channels": nch, "accessor": kind,
                "scales": [[s["size"], s["chunk_sizes"][0]] for s in scales],
                "ops": [[o[0], o[2], list(o[3]), o[4]] for o in ops]}
        R.case(case, nontrivial=len(positions) >= 2)
        R.count(f"seq:{enc}:{kind}")
    _handles_stream(R, rng, quick)
    _sharded_stream(R, rng, quick)
    _magic_stream(R, rng, quick)
    _optimised_interpreter_stream(R, rng)
    R.extra["jpeg_max_abs_error_observed"] = int(jpeg_err)
    R.notes.append("JPEG: only shape/dtype and a loose error bound (<= 64 grey levels on smooth data) are "
                   "checked; the bound is a test, not a theorem (libjpeg is outside the model)")


def _handles_stream(R, rng, quick):
    """Several PrecomputedIO objects on one dataset (coq/theories/Pio/PioHandles.v): initialisations
    (refused when an info exists, unless overwriting), objects opened from the stored info, writes and
    reads through any of them.  Model: per-operation outcomes, the stored info and the number of live
    objects.  Oracle: a read through ANY object returns the last array written through ANY object."""
    from neuroglancer_scripts import precomputed_io, accessor
    for si in range(80 if quick else 2500):
        dt = rng.choice(["uint8", "uint16", "uint32", "uint64", "float32"])
        nch = rng.choice([1, 2, 3])
        size = [rng.randrange(1, 10) for _ in range(3)]
        cs = [rng.choice([1, 2, 4]) for _ in range(3)]

        def mk(dtype, enc, nc):
            sc = {"key": "s0", "size": size, "chunk_sizes": [cs], "encoding": enc, "resolution": [1, 1, 1],
                  "voxel_offset": [0, 0, 0]}
            if enc == "compressed_segmentation":
                sc["compressed_segmentation_block_size"] = [2, 2, 2]
            return {"type": "image", "data_type": dtype, "num_channels": nc, "scales": [sc]}
        good = mk(dt, "compressed_segmentation" if dt in ("uint32", "uint64") and rng.random() < 0.4 else "raw", nch)
        other_dt = rng.choice([x for x in DT if x != dt])
        cands = [good, mk(other_dt, "raw", nch), mk(dt, "jpeg" if dt != "uint8" or nch == 2 else "png", nch),
                 mk("uint8", "compressed_segmentation", nch), mk(dt, "raw", 0)]
        infos = [good] + rng.sample(cands[1:], 2)

        def wire_info(idx, inf):
            sc = inf["scales"][0]
            enc = ENC.index(sc["encoding"]) if sc["encoding"] in ENC else 9
            blk = sc.get("compressed_segmentation_block_size") or Atom("none")
            return [idx, DT.index(inf["data_type"]), inf["num_channels"], [[sc_val(sc), enc, blk]]]
        kind = rng.choice(["mem", "file", "file-flat"])
        d = os.path.join(R.tmp, f"hd{si}")
        if kind == "mem":
            mem = MemAccessor()
            get_acc = lambda: mem   # noqa: E731
        else:
            opts = {"flat": kind == "file-flat", "gzip": rng.random() < 0.5}
            get_acc = lambda: accessor.get_accessor_for_url(d, opts)   # noqa: E731
        # ---- history
        n_ops = rng.randrange(3, 14)
        first = rng.choice([0, 0, 0, 0, 1, 2, "open"])
        plan = [("open",) if first == "open" else ("new", first, False)]
        stored = None            # index of the info the dataset carries (as the harness expects it)
        handles = []             # index of the info of each live object
        wire, impl_out, case_ops = [], [], []
        objs, arrays, last = [], [], {}
        valid_info = [precomputed_ok(x) for x in infos]
        ended = False
        follow = None
        for step in range(n_ops):
            if step < len(plan):
                op = plan[step]
            else:
                r = rng.random()
                if r < 0.15:
                    op = ("new", rng.randrange(len(infos)), False)
                elif r < 0.22 and stored is not None:
                    op = ("new", stored, True)                        # overwrite with the SAME description
                elif r < 0.4:
                    op = ("open",)
                elif r < 0.75 and handles:
                    op = ("w", rng.randrange(len(handles)))
                elif handles:
                    op = ("r", rng.randrange(len(handles)))
                else:
                    op = ("open",)
            if step == n_ops - 1 and stored is not None and rng.random() < 0.15:
                op = ("new", rng.randrange(len(infos)), True)         # overwriting with another info: last op only
                ended = True
            if op[0] == "new":
                got = outcome_of(lambda: precomputed_io.get_IO_for_new_dataset(infos[op[1]], get_acc(),
                                                                                 overwrite_info=op[2]))
                wire.append([Atom("new"), op[1], op[2]])
                if got[0] == "ok":
                    objs.append(got[1])
                    handles.append(op[1])
                    impl_out.append(["ok", "stored"])
                else:
                    impl_out.append(got)
                if stored is None or op[2]:
                    stored = op[1]
            elif op[0] == "open":
                got = outcome_of(lambda: precomputed_io.get_IO_for_existing_dataset(get_acc()))
                wire.append([Atom("open")])
                if got[0] == "ok":
                    objs.append(got[1])
                    handles.append(stored)
                    impl_out.append(["ok", "stored"])
                else:
                    impl_out.append(got)
            else:
                h = op[1]
                inf = infos[handles[h]]
                sc = inf["scales"][0]
                c, ckind = mutate_coords(rng, sc["size"], sc["chunk_sizes"][0])
                if ckind != "valid" and rng.random() < 0.7:
                    c, ckind = mutate_coords(rng, sc["size"], sc["chunk_sizes"][0])
                if op[0] == "r" and last and rng.random() < 0.7:
                    c = rng.choice(sorted(last))
                if op[0] == "w":
                    shape = (inf["num_channels"], max(c[5] - c[4], 1), max(c[3] - c[2], 1), max(c[1] - c[0], 1))
                    n_el = int(np.prod(shape))
                    if inf["data_type"] == "float32":
                        arr = np.array([rng.uniform(-9, 9) for _ in range(n_el)], dtype="float32").reshape(shape)
                    else:
                        hi = int(np.iinfo(inf["data_type"]).max)
                        arr = np.array([rng.choice([0, 1, hi, rng.randrange(hi)]) for _ in range(n_el)],
                                       dtype=inf["data_type"]).reshape(shape)
                    arrays.append(arr)
                    tok = len(arrays) - 1
                    got = outcome_of(lambda: objs[h].write_chunk(arr, "s0", c))
                    wire.append([Atom("w"), h, tok, b"s0", list(c)])
                    if got[0] == "ok":
                        last[c] = tok
                        impl_out.append(["ok", "stored"])
                    else:
                        impl_out.append(got)
                else:
                    got = outcome_of(lambda: objs[h].read_chunk("s0", c))
                    wire.append([Atom("r"), h, b"s0", list(c)])
                    if got[0] == "ok":
                        tok = last.get(c)
                        if tok is None or got[1].shape != arrays[tok].shape or \
                                got[1].dtype.newbyteorder("=") != arrays[tok].dtype or \
                                got[1].tobytes() != arrays[tok].tobytes():
                            R.violation("a read through one PrecomputedIO object does not return the last array "
                                        "written (through any object) at that position",
                                        {"infos": infos, "ops": case_ops + [list(op)], "coords": list(c)}, {})
                            impl_out.append(["ok", -1])
                        else:
                            impl_out.append(["ok", tok])
                            follow = (h, c, got[1])
                    else:
                        impl_out.append(got)
            case_ops.append([str(x) for x in op])
            if follow is not None:
                # the SAME position is read again through the same object, after the caller has scribbled over
                # the array it was given (it owns it) and, half of the time, after ANOTHER object on the same
                # dataset has overwritten the chunk: the second read must show what is stored now
                fh, fc, farr = follow
                follow = None
                R.count("handles:reread")
                if farr.flags.writeable:
                    farr[...] = farr + 1 if farr.dtype.kind == "f" else farr ^ 1
                    R.count("handles:reread-after-scribble")
                inf = infos[handles[fh]]
                peers = [j for j in range(len(objs)) if j != fh and handles[j] == handles[fh]]
                if peers and rng.random() < 0.5:
                    h2 = rng.choice(peers)
                    shape = (inf["num_channels"], max(fc[5] - fc[4], 1), max(fc[3] - fc[2], 1), max(fc[1] - fc[0], 1))
                    if inf["data_type"] == "float32":
                        arr2 = np.full(shape, rng.uniform(-9, 9), dtype="float32")
                    else:
                        arr2 = np.full(shape, rng.randrange(int(np.iinfo(inf["data_type"]).max)), dtype=inf["data_type"])
                    arrays.append(arr2)
                    tok2 = len(arrays) - 1
                    got_w = outcome_of(lambda: objs[h2].write_chunk(arr2, "s0", fc))
                    wire.append([Atom("w"), h2, tok2, b"s0", list(fc)])
                    if got_w[0] == "ok":
                        last[fc] = tok2
                        impl_out.append(["ok", "stored"])
                    else:
                        impl_out.append(got_w)
                    case_ops.append(["w", str(h2), "(overwrite by a peer)"])
                    R.count("handles:reread-after-peer-overwrite")
                got_r = outcome_of(lambda: objs[fh].read_chunk("s0", fc))
                wire.append([Atom("r"), fh, b"s0", list(fc)])
                case_ops.append(["r", str(fh), "(same position again)"])
                if got_r[0] == "ok":
                    tokr = last.get(fc)
                    if tokr is None or got_r[1].shape != arrays[tokr].shape or \
                            got_r[1].tobytes() != arrays[tokr].astype(got_r[1].dtype).tobytes():
                        R.violation("a second read of the same position through the same PrecomputedIO object does "
                                    "not return what is stored now (the caller modified the first array, or another "
                                    "object overwrote the chunk in between)",
                                    {"infos": infos, "ops": list(case_ops), "coords": list(fc)}, {})
                        impl_out.append(["ok", -1])
                    else:
                        impl_out.append(["ok", tokr])
                else:
                    impl_out.append(got_r)
            if ended:
                break
        rep = R.model.call("pio_handles", [[wire_info(i, x) for i, x in enumerate(infos)], wire])
        m_outs = [model_outcome(x) for x in rep[0]]
        m_outs = [["ok", "stored"] if (m[0] == "ok" and isinstance(m[1], Atom)) else m for m in m_outs]
        case = {"handles_stream": True, "accessor": kind, "infos": infos, "ops": case_ops}
        R.case(case, nontrivial=len(handles) >= 2 and len(last) >= 1)
        R.count(f"handles:objects={min(len(handles), 3)}:info-valid={valid_info[0]}")
        for o, got in zip(case_ops, impl_out):
            R.count(f"handles:{o[0]}:{got[0] if got[0] != 'Crash' else got[1]}")
        if impl_out != m_outs:
            k = next((j for j, (a, b_) in enumerate(zip(impl_out, m_outs)) if a != b_), -1)
            R.disagree("multi-handle history vs PioHandles model", case,
                       {"op": case_ops[k] if k >= 0 else "?", "impl": impl_out[k] if k >= 0 else impl_out},
                       {"model": m_outs[k] if k >= 0 else m_outs})
        # stored info and number of live objects
        try:
            stored_now = json.loads(get_acc().fetch_file("info"))
        except Exception:  # noqa: BLE001
            stored_now = None
        m_stored = rep[1]
        want_stored = None if isinstance(m_stored, Atom) else infos[int(m_stored)]
        if stored_now != want_stored or int(rep[2]) != len(objs):
            R.disagree("stored info / number of live objects vs PioHandles model", case,
                       {"stored": stored_now, "objects": len(objs)},
                       {"stored": want_stored, "objects": int(rep[2])})


def _sharded_stream(R, rng, quick):
    """The I/O layer over the sharded file accessor (an accessor kind like the others): every chunk of a small
    scale written through write_chunk, the accessor closed, every chunk read back through a fresh handle.
    Index and data encodings vary independently (the format allows them to differ)."""
    import atexit
    from neuroglancer_scripts import accessor, precomputed_io
    for si in range(24 if quick else 600):
        dt = rng.choice(["uint8", "uint16", "uint32", "uint64", "float32"])
        nch = rng.choice([1, 2])
        c = rng.choice([2, 4, 8])
        size = [rng.randrange(1, 3 * c + 1) for _ in range(3)]
        enc = "compressed_segmentation" if dt in ("uint32", "uint64") and rng.random() < 0.4 else "raw"
        ie, de = [("raw", "raw"), ("gzip", "gzip"), ("raw", "gzip"), ("gzip", "raw")][si % 4]
        sc = {"key": "s0", "size": size, "chunk_sizes": [[c, c, c]], "encoding": enc, "resolution": [1, 1, 1],
              "voxel_offset": [0, 0, 0],
              "sharding": {"@type": "neuroglancer_uint64_sharded_v1", "minishard_bits": rng.randrange(0, 3),
                           "shard_bits": rng.randrange(0, 3), "preshift_bits": rng.randrange(0, 2), "hash": "identity",
                           "minishard_index_encoding": ie, "data_encoding": de}}
        if enc == "compressed_segmentation":
            sc["compressed_segmentation_block_size"] = [rng.choice([2, 4, 8]) for _ in range(3)]
        info = {"type": "image", "data_type": dt, "num_channels": nch, "scales": [sc]}
        d = os.path.join(R.tmp, f"sh{si}")
        case = {"sharded_stream": True, "data_type": dt, "num_channels": nch, "size": size, "chunk": c, "encoding": enc,
                "minishard_index_encoding": ie, "data_encoding": de,
                "bits_msp": [sc["sharding"][k] for k in ("minishard_bits", "shard_bits", "preshift_bits")]}
        R.case(case, nontrivial=True)
        R.count(f"sharded:{enc}:index={ie}:data={de}")
        import contextlib
        import io as _io
        try:
            with contextlib.redirect_stdout(_io.StringIO()):
                acc = accessor.get_accessor_for_url(d, {"sharding": True})
                pio = precomputed_io.get_IO_for_new_dataset(info, acc)
                grid = [(x, min(x + c, size[0]), y, min(y + c, size[1]), z, min(z + c, size[2]))
                        for x in range(0, size[0], c) for y in range(0, size[1], c) for z in range(0, size[2], c)]
                rng.shuffle(grid)
                written = {}
                for cc in grid:
                    shape = (nch, cc[5] - cc[4], cc[3] - cc[2], cc[1] - cc[0])
                    n_el = int(np.prod(shape))
                    if dt == "float32":
                        arr = np.array([rng.uniform(-9, 9) for _ in range(n_el)], dtype=dt).reshape(shape)
                    else:
                        hi = int(np.iinfo(dt).max)
                        arr = np.array([rng.choice([0, 1, hi, rng.randrange(hi)]) for _ in range(n_el)],
                                       dtype=dt).reshape(shape)
                    pio.write_chunk(arr, "s0", cc)
                    written[cc] = arr
                acc.close()
                atexit.unregister(acc.close)
                acc2 = accessor.get_accessor_for_url(d)
                pio2 = precomputed_io.get_IO_for_existing_dataset(acc2)
                for cc, arr in written.items():
                    got = pio2.read_chunk("s0", cc)
                    if got.shape != arr.shape or got.dtype.newbyteorder("=") != arr.dtype or got.tobytes() != arr.tobytes():
                        R.violation("sharded storage: a chunk written through the I/O layer reads back differently "
                                    "through a fresh handle", dict(case, coords=list(cc)), {})
                        break
                atexit.unregister(acc2.close)
        except Exception as e:  # noqa: BLE001
            R.violation("sharded storage: writing or reading back through the I/O layer failed", case,
                        {"exc": f"{type(e).__name__}: {e}"[:300]})


def _magic_stream(R, rng, quick):
    """Raw chunks whose first bytes are the magic numbers of gzip, zlib, JPEG, PNG (raw encoding stores the
    voxels as they are): every data type x every file-accessor option set, read back through the same and a
    fresh handle."""
    from neuroglancer_scripts import accessor, precomputed_io
    magics = [b"\x1f\x8b\x08\x00\x00\x00\x00\x00", b"\x78\x9c\x01\x00\x00\xff\xff\x00", b"\xff\xd8\xff\xe0\x00\x10JF",
              b"\x89PNG\r\n\x1a\n", b"\xef\xbb\xbf{\"a\":1}"[:8]]
    k = 0
    for dt in DT:
        for opts in ({"gzip": True}, {"gzip": False}, {"flat": True, "gzip": True}, {"flat": True, "gzip": False}):
            for magic in magics:
                k += 1
                d = os.path.join(R.tmp, f"magic{k}")
                sc = {"key": "s0", "size": [3, 2, 2], "chunk_sizes": [[3, 2, 2]], "encoding": "raw", "resolution": [1, 1, 1],
                      "voxel_offset": [0, 0, 0]}
                info = {"type": "image", "data_type": dt, "num_channels": 1, "scales": [sc]}
                arr = np.arange(12, dtype=dt).reshape(1, 2, 2, 3)
                head = np.frombuffer(magic[:8], dtype=np.dtype(dt).newbyteorder("<"))
                arr.reshape(-1)[:len(head)] = head
                case = {"magic_stream": True, "data_type": dt, "options": opts, "first_bytes": magic[:4].hex()}
                R.case(case, nontrivial=True)
                c = (0, 3, 0, 2, 0, 2)
                try:
                    pio = precomputed_io.get_IO_for_new_dataset(info, accessor.get_accessor_for_url(d, dict(opts)))
                    pio.write_chunk(arr, "s0", c)
                    got = [pio.read_chunk("s0", c),
                           precomputed_io.get_IO_for_existing_dataset(accessor.get_accessor_for_url(d)).read_chunk("s0", c)]
                    if any(g.tobytes() != arr.tobytes() for g in got):
                        R.violation("a raw chunk that starts with magic bytes reads back differently", case, {})
                except Exception as e:  # noqa: BLE001
                    R.violation("a raw chunk that starts with magic bytes cannot be written and read back", case,
                                {"exc": f"{type(e).__name__}: {e}"[:200]})
    R.count("magic-stream:cases", k) if False else R.count("magic-stream")


def _optimised_interpreter_stream(R, rng):
    """The rejection of off-grid positions in a child interpreter with assertions disabled (python -O /
    PYTHONOPTIMIZE): the same positions must be rejected and nothing stored."""
    import subprocess
    import sys
    jobs = []
    for _ in range(60):
        size = [rng.randrange(1, 12) for _ in range(3)]
        cs = [rng.choice([1, 2, 3, 4]) for _ in range(3)]
        c, kind = mutate_coords(rng, size, cs)
        jobs.append([size, cs, list(c), on_grid_ref(size, [cs], c)])
    d = os.path.join(R.tmp, "opt")
    os.makedirs(d)
    child = ("import json,sys,os\nimport numpy as np\nfrom neuroglancer_scripts import accessor, precomputed_io\n"
             "out=[]\nfor k,(size,cs,c,_w) in enumerate(json.load(sys.stdin)):\n"
             "    info={'type':'image','data_type':'uint8','num_channels':1,'scales':[{'key':'s','size':size,"
             "'chunk_sizes':[cs],'encoding':'raw','resolution':[1,1,1],'voxel_offset':[0,0,0]}]}\n"
             "    dd=os.path.join(sys.argv[1],str(k))\n"
             "    pio=precomputed_io.get_IO_for_new_dataset(info,accessor.get_accessor_for_url(dd,{}))\n"
             "    shape=(1,max(c[5]-c[4],1),max(c[3]-c[2],1),max(c[1]-c[0],1))\n"
             "    try:\n        pio.write_chunk(np.zeros(shape,dtype='uint8'),'s',tuple(c)); w='stored'\n"
             "    except Exception as e:\n        w=type(e).__name__\n"
             "    n=sum(len(f) for r,_d,f in os.walk(dd))-1\n"
             "    try:\n        pio.read_chunk('s',tuple(c)); r='read'\n"
             "    except Exception as e:\n        r=type(e).__name__\n"
             "    out.append([w,n,r])\nprint(json.dumps(out))\n")
    r = subprocess.run([sys.executable, "-O", "-c", child, d], input=json.dumps(jobs).encode(), stdout=subprocess.PIPE,
                       stderr=subprocess.PIPE, timeout=120, env=dict(os.environ, PYTHONOPTIMIZE="1"))
    if r.returncode != 0:
        R.violation("python -O child failed", {}, {"stderr": r.stderr.decode()[-300:]})
        return
    for (size, cs, c, want), (w, n, rd) in zip(jobs, json.loads(r.stdout.decode().splitlines()[-1])):
        case = {"python": "-O", "size": size, "chunk_sizes": [cs], "coords": c}
        R.case(case, nontrivial=not want)
        R.count(f"python-O:{'on' if want else 'off'}-grid:{w}")
        if want and (w != "stored" or n != 1 or rd != "read"):
            R.violation("python -O: a valid chunk position was not written and read back", case, {"write": w, "read": rd})
        if not want and (w == "stored" or n != 0 or rd == "read"):
            R.violation("python -O: a position that is not on the chunk grid was stored or read instead of being "
                        "rejected", case, {"write": w, "files": n, "read": rd})


def precomputed_ok(info):
    from neuroglancer_scripts import chunk_encoding
    try:
        for sc in info["scales"]:
            chunk_encoding.get_encoder(info, sc)
        return True
    except Exception:  # noqa: BLE001
        return False


def _listing(acc, d):
    if isinstance(acc, MemAccessor):
        return sorted((str(k), v) for k, v in acc.d.items())
    out = []
    for root, _dirs, files in os.walk(d):
        for f in files:
            p = os.path.join(root, f)
            out.append((p, os.path.getsize(p)))
    return sorted(out)


def _compare(R, info, c, want, got, enc):
    case = {"data_type": info["data_type"], "encoding": enc, "coords": list(c), "shape": list(want.shape)}
    if got.shape != want.shape or got.dtype.newbyteorder("=") != want.dtype.newbyteorder("="):
        R.violation("read_chunk returned another shape or data type", case,
                    {"got": [list(got.shape), str(got.dtype)]})
        return 0
    if enc == "jpeg":
        err = int(np.max(np.abs(got.astype(int) - want.astype(int)))) if got.size else 0
        if err > 64:
            R.violation("JPEG round trip error above the bound", case, {"max_abs_error": err})
        return err
    if got.tobytes() != want.tobytes():
        R.violation("read_chunk returned other values than were written", case, {})
    return 0


def replay(R, payload):
    from neuroglancer_scripts import precomputed_io
    case = payload.get("case", {})
    if "chunk_sizes" in case and "coords" in case and "size" in case:
        sc = {"key": "k", "size": case["size"], "chunk_sizes": case["chunk_sizes"], "voxel_offset": [0, 0, 0],
              "encoding": "raw", "resolution": [1, 1, 1]}
        info = {"type": "image", "data_type": "uint8", "num_channels": 1, "scales": [sc]}
        pio = precomputed_io.PrecomputedIO(info, MemAccessor())
        got = outcome_of(lambda: bool(pio.validate_chunk_coords("k", tuple(case["coords"]))))
        return got != ["ok", on_grid_ref(case["size"], case["chunk_sizes"], tuple(case["coords"]))]
    return True
