"""C18 - I/O failures and interrupted writes never yield silently wrong data.

Correspondence: every primitive call of every operation of FileAccessor and
of ShardedFileAccessor's file methods is made to fail (harness/faultfs.py,
from outside) with ENOSPC / EACCES / EIO / ENOENT, and every call is used as
an interruption point, on a small dataset with several names stored; outcome
class, surviving tree and what a fresh reader then returns are compared with
the model (D_C12: fa_trace, fa_fault, fa_cut, sh_trace, sh_fault).  HTTP
failures come from the scripted loopback server (harness/httpd.py).
Oracle: a fired fault gives DataAccessError / OSError; other names' files are
unchanged; after an interruption the reader finds old, new, a prefix of new
(uncompressed, as-is) or an error.
"""
import atexit
import contextlib
import io
import json
import os
import shutil

from harness import faultfs, httpd
from harness.common import Atom, classify_exception
from harness.props import c12 as h12
from harness.props import c14 as h14
from harness.props.c12 import b

RULE = ("small datasets (3 names stored, flat/deep x gzip on/off); for each of store_file (new name, existing name "
        "with and without overwrite, same and other MIME class), store_chunk, fetch_file, fetch_chunk, file_exists: the primitive calls are "
        "numbered by a fault-free instrumented run and the operation is re-run once per call index x errno in "
        "{ENOSPC, EACCES, EIO, ENOENT}, and once per cut index x truncation class (empty / 1 byte / half); the same "
        "for ShardedFileAccessor store_file / fetch_file / file_exists; HTTP: every request index of plain and "
        "sharded fetches x {404, 500, 503, dropped connection, connection lost in the middle of the body, damaged "
        "Content-Encoding: gzip stream, short / over-long / ignored range}. "
        "non-trivial = a run in which the fault or cut actually fired")

ERRNOS = ["ENOSPC", "EACCES", "EIO", "ENOENT"]


def wire_events(events):
    out = []
    for ev in events:
        if ev[0] == "open":
            out.append([ev[0], ev[1], ev[2]])
        else:
            out.append([ev[0], ev[1]])
    return out


def model_events(rep):
    out = []
    for ev in rep:
        kind = str(ev[0])
        if kind == "open":
            out.append([kind, ev[1].decode(), str(ev[2])[2:]])
        else:
            out.append([kind, ev[1].decode()])
    return out


def build_dataset(rng, root, cfg):
    from neuroglancer_scripts.file_accessor import FileAccessor
    flat, gz, lvl = cfg
    base = os.path.join(root, "w", "ds")
    acc = FileAccessor(base, flat=flat, gzip=gz, compresslevel=lvl)
    acc.store_file("info", b'{"scales": []}', mime_type="application/json")
    acc.store_file("a/b", bytes(rng.getrandbits(8) for _ in range(20)) + b"tail", overwrite=True)
    acc.store_chunk(bytes(rng.getrandbits(8) for _ in range(33)), "k", (0, 64, 0, 64, 0, 64))
    return base


def tree_with_gz(root, level):
    """Model tree of a real directory; *.gz gzip streams are tagged."""
    return h14.tagged_tree(root)


def candidate_ops(rng):
    big = bytes(rng.getrandbits(8) for _ in range(40))
    return [
        ["sf", "new/x", big, "application/octet-stream", False],
        ["sf", "a/b", big, "application/octet-stream", True],
        ["sf", "a/b", big, "application/octet-stream", False],
        ["sf", "info", b"{}", "application/json", True],
        # the same names under the OTHER MIME class: the accessor must drop the other form
        # (is_file, unlink) or refuse (overwrite=False)
        ["sf", "a/b", big, "image/png", True],
        ["sf", "a/b", big, "image/png", False],
        ["sf", "info", big, "application/octet-stream", True],
        ["sc", "k", [0, 64, 0, 64, 0, 64], big, "image/jpeg", True],
        ["sc", "k", [0, 64, 0, 64, 0, 64], big, "application/octet-stream", True],
        ["sc", "k2", [64, 128, 0, 64, 0, 1], big, "image/jpeg", False],
        ["ff", "a/b"], ["ff", "nope"], ["ff", "info"],
        ["fc", "k", [0, 64, 0, 64, 0, 64]], ["fc", "k", [1, 2, 3, 4, 5, 6]],
        ["ex", "a/b"], ["ex", "nope"],
    ]


def reader_ops():
    return [["ff", "info"], ["ff", "a/b"], ["fc", "k", [0, 64, 0, 64, 0, 64]], ["ff", "new/x"],
            ["fc", "k2", [64, 128, 0, 64, 0, 1]]]


def is_prefix_of(a, bb):
    return len(a) <= len(bb) and bb[:len(a)] == a


def file_accessor_part(R, quick):
    from neuroglancer_scripts.file_accessor import FileAccessor
    rng = R.rng
    known = {f["id"] for f in R.findings}
    cfgs = [(False, True, 9), (True, False, 9), (False, False, 1), (True, True, 1)]
    jobs = []        # (kind, case, impl, payload for the model, extra)
    reqs = []
    for ci, cfg in enumerate(cfgs):
        pristine = os.path.join(R.tmp, f"fa{ci}-pristine")
        base0 = build_dataset(rng, pristine, cfg)
        work = os.path.join(R.tmp, f"fa{ci}-work")
        ops = candidate_ops(rng)
        if quick:
            ops = [o for i, o in enumerate(ops) if (i + ci) % 2 == 0 or o[0] in ("sf", "sc")]
        tb = [[o[2] if o[0] == "sf" else o[3], h12.gz_class(o[2] if o[0] == "sf" else o[3])]
              for o in ops if o[0] in ("sf", "sc")]
        for op in ops:
            def fresh():
                shutil.rmtree(work, ignore_errors=True)
                shutil.copytree(pristine, work)
                return os.path.join(work, "w", "ds")
            # fault-free instrumented run
            base = fresh()
            tree0 = tree_with_gz(work, cfg[2])
            wcfg = [b(base), cfg[0], cfg[1], cfg[2]]
            with faultfs.FaultFS(work) as ffs:
                acc = FileAccessor(base, flat=cfg[0], gzip=cfg[1], compresslevel=cfg[2])
                clean = h12.apply_op(acc, op)
            events = wire_events(ffs.events)
            final_snap = h12.snapshot(work)
            case0 = {"accessor": "file", "cfg": list(cfg), "op": [h12._short(x) for x in op]}
            reqs.append(("fa_trace", [wcfg, tb, tree0, h12.wire_op(op)]))
            jobs.append(("trace", case0, events, None))
            R.count(f"fa:trace-len:{len(events)}")
            old_reads = None
            before_snap = h12.snapshot(pristine)
            # --- faults
            for k in range(len(events)):
                for en in ERRNOS:
                    base = fresh()
                    with faultfs.FaultFS(work, fault=(k, en)) as ffs:
                        acc = FileAccessor(base, flat=cfg[0], gzip=cfg[1], compresslevel=cfg[2])
                        out = h12.apply_op(acc, op)
                    snap = h12.snapshot(work)
                    case = {**case0, "fault": [k, events[k][0], en]}
                    R.case(case, nontrivial=ffs.fired)
                    R.count(f"fa:fault:{events[k][0]}:{out[0] if out[0] != 'Crash' else out[1]}")
                    reqs.append(("fa_fault", [wcfg, tb, tree0, h12.wire_op(op), k, Atom(en)]))
                    jobs.append(("fault", case, out, (snap, work)))
                    # oracle 1: a fired fault is reported as a data-access error
                    if ffs.fired and out != ["AccessErr"]:
                        R.violation("failing primitive not reported as a data-access / I/O error", case,
                                    {"impl": h12._short(out)})
                    # oracle 2: the files of the other names are unchanged
                    # the paths of the operation's own name: both of its forms (plain and .gz)
                    own = set()
                    for ev in events:
                        if ev[0] in ("isfile", "unlink", "open", "write", "close"):
                            q = ev[1][:-3] if ev[1].endswith(".gz") else ev[1]
                            own |= {q, q + ".gz"}
                    for path, data in h12.snapshot(pristine).items():
                        wp = path.replace(pristine, work)
                        if data is not None and wp not in own and snap.get(wp) != data:
                            R.violation("a failing operation changed another name's file", case, {"path": wp})
                    # oracle 3: the name itself is still readable as before, or the failure is the known gap
                    if op[0] in ("sf", "sc") and ffs.fired:
                        rd = FileAccessor(base, flat=cfg[0], gzip=cfg[1], compresslevel=cfg[2])
                        probe = ["ff", op[1]] if op[0] == "sf" else ["fc", op[1], op[2]]
                        prist = FileAccessor(base0, flat=cfg[0], gzip=cfg[1], compresslevel=cfg[2])
                        want = h12.apply_op(prist, probe)
                        got = h12.apply_op(rd, probe)
                        if got != want:
                            existed = want[0] == "ok"
                            overwrite = op[4] if op[0] == "sf" else op[5]
                            unlinked = any(ev[0] == "unlink" for ev in events[:k])
                            if existed and overwrite and (events[k][0] in ("write", "close") or unlinked) \
                                    and "overwrite-not-atomic" in known:
                                R.known("overwrite-not-atomic")
                            elif existed:
                                # a refused or failed store that was not allowed to replace the name (or failed
                                # before touching it) must leave what was stored: "cannot find" is not acceptable
                                R.violation("a failed store destroyed or changed the content stored earlier under "
                                            "the same name", case, {"before": h12._short(want), "after": h12._short(got),
                                                                    "overwrite": bool(overwrite)})
                            elif not existed and got[0] == "ok" and is_prefix_of(got[1], op[2] if op[0] == "sf" else op[3]):
                                R.count("fa:fault:partial-new-file-readable")
                            elif got in (["AccessErr"], ["IOErr"]):
                                R.count("fa:fault:leftover-detected:" + got[0])
                            else:
                                R.violation("after a failed store the name reads as neither its old nor (a prefix of) "
                                            "its new content", case, {"before": h12._short(want), "after": h12._short(got)})
            # --- crash cuts (stores only: reads do not modify anything)
            if op[0] not in ("sf", "sc"):
                continue
            new_bytes = op[2] if op[0] == "sf" else op[3]
            probe = ["ff", op[1]] if op[0] == "sf" else ["fc", op[1], op[2]]
            prist = FileAccessor(base0, flat=cfg[0], gzip=cfg[1], compresslevel=cfg[2])
            old = h12.apply_op(prist, probe)
            for k in range(len(events) + 1):
                classes = [0]
                if k < len(events) and events[k][0] == "write":
                    classes = [0, 1, 2]
                for cls in classes:
                    base = fresh()
                    with faultfs.FaultFS(work, cut=k) as ffs:
                        acc = FileAccessor(base, flat=cfg[0], gzip=cfg[1], compresslevel=cfg[2])
                        try:
                            h12.apply_op(acc, op)
                        except faultfs.SimCrash:
                            pass
                    if cls:
                        path = events[k][1]
                        full = final_snap.get(path.replace(work, work)) or b""
                        cutlen = 1 if cls == 1 else max(2, len(full) // 2)
                        if cutlen >= len(full):
                            continue
                        with open(path, "wb") as f:
                            f.write(full[:cutlen])
                    snap = h12.snapshot(work)
                    case = {**case0, "cut": [k, events[k][0] if k < len(events) else "end", cls]}
                    R.case(case, nontrivial=ffs.fired)
                    R.count(f"fa:cut:{events[k][0] if k < len(events) else 'end'}:{cls}")
                    rd = FileAccessor(base, flat=cfg[0], gzip=cfg[1], compresslevel=cfg[2])
                    reads = [h12.apply_op(rd, r) for r in reader_ops()]
                    reqs.append(("fa_cut", [wcfg, tb, tree0, h12.wire_op(op), k, cls]))
                    jobs.append(("cut", case, reads, (snap, work, wcfg, tb)))
                    # oracle: the interrupted name
                    got = h12.apply_op(rd, probe)
                    ok = (got == old or (got[0] == "ok" and is_prefix_of(got[1], new_bytes))
                          or got in (["AccessErr"], ["IOErr"]))
                    if not ok:
                        if True:
                            R.violation("after an interruption the reader returns something that is neither the old "
                                        "content, nor a prefix of the new one, nor an error", case,
                                        {"old": h12._short(old), "got": h12._short(got)})
                    # oracle: the other names
                    for r_op in reader_ops():
                        if r_op[1:] == probe[1:]:
                            continue
                        if h12.apply_op(rd, r_op) != h12.apply_op(prist, r_op):
                            R.violation("an interrupted store changed what another name reads as", case, {"read": r_op[:2]})
    # ---- model
    rep = R.model.batch(reqs)
    reqs2, pend2 = [], []
    for (kind, case, impl, extra), m in zip(jobs, rep):
        if kind == "trace":
            me = model_events(m)
            if me != impl:
                R.disagree("primitive-call trace of the operation vs model", case, impl, me)
            R.traces += 1
        elif kind == "fault":
            snap, work = extra
            if not h12.out_matches(m[0], impl):
                R.disagree("outcome under an injected fault vs model", case, h12._short(impl), h12._short(m[0]))
            d = h12.compare_tree(m[1], snap, work)
            if d:
                R.disagree("tree after an injected fault vs model", case, [str(x)[:160] for x in d[:3]], "model")
        else:
            snap, work, wcfg, tb = extra
            d = h12.compare_tree(m, snap, work)
            if d:
                R.disagree("tree after an interruption vs model", case, [str(x)[:160] for x in d[:3]], "model")
            reqs2.append(("fa_run", [wcfg, tb, h12.fs_to_wire(m), [h12.wire_op(r) for r in reader_ops()]]))
            pend2.append((case, impl))
    rep2 = R.model.batch(reqs2)
    for (case, reads), m in zip(pend2, rep2):
        for r_op, mo, io_ in zip(reader_ops(), m[0], reads):
            if not h12.out_matches(mo, io_):
                R.disagree("fresh reader after an interruption vs model", {**case, "read": r_op[:2]},
                           h12._short(io_), h12._short(mo))
                break


def sharded_file_part(R, quick):
    from neuroglancer_scripts.sharded_file_accessor import ShardedFileAccessor
    rng = R.rng
    pristine = os.path.join(R.tmp, "sh-pristine")
    base0 = os.path.join(pristine, "w", "ds")
    acc = ShardedFileAccessor(base0)
    acc.store_file("info", b"{}")
    os.makedirs(os.path.join(base0, "sub"))
    acc.store_file("sub/x", b"0123456789")
    work = os.path.join(R.tmp, "sh-work")
    ops = [["sf", "new", b"abc", "", False], ["sf", "info", b"[]", "", True], ["sf", "info", b"[]", "", False],
           ["sf", "nodir/x", b"q", "", False], ["ff", "info"], ["ff", "nope"], ["ff", "sub"], ["ex", "info"],
           ["ex", "nope"]]
    reqs, jobs = [], []
    for op in ops:
        def fresh():
            shutil.rmtree(work, ignore_errors=True)
            shutil.copytree(pristine, work)
            return os.path.join(work, "w", "ds")
        base = fresh()
        tree0 = h14.tagged_tree(work)
        acc = ShardedFileAccessor(base)
        with faultfs.FaultFS(work) as ffs:
            h12.apply_op(acc, op)
        events = wire_events(ffs.events)
        case0 = {"accessor": "sharded-file", "op": [h12._short(x) for x in op]}
        reqs.append(("sh_trace", [b(base), tree0, h12.wire_op(op)]))
        jobs.append(("trace", case0, events, None))
        for k in range(len(events)):
            for en in ERRNOS:
                base = fresh()
                acc = ShardedFileAccessor(base)
                with faultfs.FaultFS(work, fault=(k, en)) as ffs:
                    out = h12.apply_op(acc, op)
                snap = h12.snapshot(work)
                case = {**case0, "fault": [k, events[k][0], en]}
                R.case(case, nontrivial=ffs.fired)
                R.count(f"sh:fault:{events[k][0]}:{out[0]}")
                reqs.append(("sh_fault", [b(base), tree0, h12.wire_op(op), k, Atom(en)]))
                jobs.append(("fault", case, out, (snap, work)))
                if ffs.fired and out not in (["IOErr"], ["AccessErr"]):
                    R.violation("failing primitive of the sharded file accessor not reported as an I/O error", case,
                                {"impl": h12._short(out)})
    rep = R.model.batch(reqs)
    for (kind, case, impl, extra), m in zip(jobs, rep):
        if kind == "trace":
            me = model_events(m)
            if me != impl:
                R.disagree("primitive-call trace (sharded file accessor) vs model", case, impl, me)
            R.traces += 1
        else:
            snap, work = extra
            if not h12.out_matches(m[0], impl):
                R.disagree("outcome under an injected fault (sharded file accessor) vs model", case,
                           h12._short(impl), h12._short(m[0]))
            d = h12.compare_tree(m[1], snap, work)
            if d:
                R.disagree("tree after an injected fault (sharded file accessor) vs model", case,
                           [str(x)[:160] for x in d[:3]], "model")


def http_part(R, quick):
    import numpy as np
    from neuroglancer_scripts import accessor, sharded_base as sb
    from neuroglancer_scripts.sharded_file_accessor import ShardedFileAccessor
    rng = R.rng
    known = {f["id"] for f in R.findings}
    behs = [("status", 500), ("status", 404), ("status", 503), "drop", "cut-body", "cut-chunked", "bad-gzip",
            "short", "long", "ignore-range", ("status", 403), ("status", 401), ("status", 410)]
    reqs, pend = [], []
    # plain
    root = os.path.join(R.tmp, "hp")
    os.makedirs(root)
    D = h14.gen_plain_dataset(rng, root, 0)
    site = httpd.Site(root, rewrite=not D["cfg"][0], gzip_static=True)
    tree = h14.tagged_tree(root)
    with httpd.Server(site) as s:
        sc = [b(s.url), b(root), not D["cfg"][0], True]
        acc = accessor.get_accessor_for_url(s.url + "/ds/")
        k, co = D["chunks"][0]
        from neuroglancer_scripts.file_accessor import FileAccessor
        local = FileAccessor(D["ds"])
        for beh in behs[:7] + [("status-json", 503), ("status-json", 500), ("status-json", 404)]:
            # files (info, ...): the failure is a data-access error, and the next fetch of the same path
            # through the SAME accessor, the server healthy again, returns the file
            for nm in ["info"] + D["extras"][:1]:
                site.reset([beh])
                o1 = h14.run_impl(lambda: acc.fetch_file(nm))
                site.reset()
                o2 = h14.run_impl(lambda: acc.fetch_file(nm))
                cf = {"accessor": "http", "fetch_file": nm, "behaviour": str(beh), "then": "fetch again, server healthy"}
                R.case(cf, nontrivial=True)
                R.count(f"http:plain-file:{beh if isinstance(beh, str) else str(beh[0]) + str(beh[1])}:{o1[0]}:{o2[0]}")
                if o1 != ["AccessErr"]:
                    R.violation("HTTP failure while fetching a file not reported as a data-access error", cf, {"impl": o1})
                if o2 != h14.run_impl(lambda: local.fetch_file(nm)):
                    R.violation("after a failed fetch the same accessor keeps returning something else than the file "
                                "(state of the failed reply survives)", cf, {"second_fetch": h12._short(o2)})
            # file_exists under the same failure: False only for "404 not found", else a data-access error
            site.reset([beh])
            ex = h14.run_impl(lambda: acc.file_exists("info"))
            ce = {"accessor": "http", "file_exists": "info", "behaviour": str(beh)}
            R.case(ce, nontrivial=True)
            reqs.append(("http_exists", [sc, h14.wire_script([beh]), tree, b(acc.base_url), b"info"]))
            pend.append((ce, ex))
            body_beh = beh in ("cut-body", "cut-chunked", "bad-gzip")            # HEAD replies have no body
            want_ex = (["ok", False] if beh in (("status", 404), ("status-json", 404))
                       else ["ok", True] if body_beh else ["AccessErr"])
            if ex != want_ex:
                R.violation("file_exists under an HTTP failure: neither False (404) nor a data-access error", ce,
                            {"impl": ex})
            site.reset([beh])
            out = h14.run_impl(lambda: acc.fetch_chunk(k, tuple(co)))
            case = {"accessor": "http", "fetch": [k, co], "behaviour": str(beh)}
            R.case(case, nontrivial=True)
            R.count(f"http:plain:{beh if isinstance(beh, str) else beh[1]}:{out[0]}")
            reqs.append(("http_fetch_chunk", [sc, h14.wire_script([beh]), [], tree, b(acc.base_url), b(k), co]))
            pend.append((case, out))
            if out != ["AccessErr"]:
                R.violation("HTTP failure on a plain dataset not reported as a data-access error", case, {"impl": out})
        # servers without HEAD (405 / 501 on the probe): whatever the client then tries, a failing reply is a
        # data-access error - never "the file does not exist" (False), never True
        for hd in (501, 405):
            for nxt in (("status", 503), ("status", 403), ("status", 500), "drop", ("status", 404), "normal"):
                script = [("status", hd), nxt, nxt]
                for nm in ("info", "not-there.json"):
                    site.reset(script)
                    ex = h14.run_impl(lambda: acc.file_exists(nm))
                    ce = {"accessor": "http", "file_exists": nm, "server": f"HEAD answers {hd}",
                          "next_replies": str(nxt)}
                    R.case(ce, nontrivial=True)
                    R.count(f"http:no-head:{hd}:{nxt if isinstance(nxt, str) else nxt[1]}:"
                            f"{ex[0] if ex[0] != 'ok' else ex[1]}")
                    reqs.append(("http_exists", [sc, h14.wire_script(script), tree, b(acc.base_url), b(nm)]))
                    pend.append((ce, ex))
                    if ex != ["AccessErr"]:
                        R.violation("file_exists on a server that refuses HEAD returned an answer instead of "
                                    "raising a data-access error", ce, {"impl": ex})
    # sharded
    for i in range(3 if quick else 12):
        root = os.path.join(R.tmp, f"hs{i}")
        ds = os.path.join(root, "ds")
        triple = h14.TRIPLES[(i + 1) % len(h14.TRIPLES)]
        size = [128, 128, 64]
        info = h14.sharded_info(triple, "raw", "raw", size)
        w = ShardedFileAccessor(ds)
        w.store_file("info", json.dumps(info).encode(), mime_type="application/json")
        coords = [[x, x + 64, y, y + 64, 0, 64] for x in (0, 64) for y in (0, 64)]
        for c in coords:
            w.store_chunk(bytes([c[0] + c[2] + 1]) * 9, "1mm", tuple(c))
        with contextlib.redirect_stdout(io.StringIO()):
            w.close()
        hl = 16 * 2 ** triple[1]
        legacy = i % 2 == 1
        if legacy:
            h14.split_legacy(os.path.join(ds, "1mm"), hl)
        stale = (not legacy) and i % 4 == 0
        if stale:
            # an older generation of the same shards left behind as .index/.data pairs (other voxels):
            # a failure on the .shard objects must never make the reader fall back to them
            old = os.path.join(R.tmp, f"hs{i}-old")
            w0 = ShardedFileAccessor(old)
            w0.info = info
            for c in coords:
                w0.store_chunk(bytes([200 + (c[0] + c[2]) // 64]) * 9, "1mm", tuple(c))
            with contextlib.redirect_stdout(io.StringIO()):
                w0.close()
            atexit.unregister(w0.close)
            h14.split_legacy(os.path.join(old, "1mm"), hl)
            for fn in os.listdir(os.path.join(old, "1mm")):
                shutil.copy(os.path.join(old, "1mm", fn), os.path.join(ds, "1mm", fn))
            shutil.rmtree(old)
        spec = sb.ShardSpec(triple[1], triple[2], preshift_bits=triple[0])
        vspec = sb.ShardVolumeSpec([64, 64, 64], size)
        rw = sb.CMCReadWrite(spec)
        site = httpd.Site(root, rewrite=False, gzip_static=True)
        tree = h14.tagged_tree(root)
        with httpd.Server(site) as s:
            sc = [b(s.url), b(root), False, True]
            url = s.url + "/ds"
            co = coords[i % 4]
            R.count("http:sharded:dataset:" + ("legacy" if legacy else "shard+stale-legacy-pair" if stale else "shard"))
            with np.errstate(all="ignore"):
                cmc = int(vspec.get_cmc(co))
                skey = rw.get_shard_key(np.uint64(cmc))
            name = hex(int(skey))[2:].rjust(-(-triple[2] // 4), "0")
            acc = accessor.get_accessor_for_url(url)
            site.reset()
            good = h14.run_impl(lambda: acc.fetch_chunk("1mm", tuple(co)))
            nreq = len(site.log)
            wloc = h14.local_locate(ds, "1mm", co)
            if good != ["ok", bytes([co[0] + co[2] + 1]) * 9]:
                R.violation("fault-free sharded HTTP fetch does not return the stored chunk",
                            {"accessor": "sharded-http", "triple": list(triple), "legacy": legacy, "chunk": co},
                            {"impl": h12._short(good)})
            for k in range(nreq):
                for beh in behs:
                    if stale and beh == ("status", 404):
                        # a 404 on the .shard object legitimately means "look for the legacy pair": with a
                        # stale pair on the server the fallback is the specified behaviour, not a failure
                        continue
                    script = ["normal"] * k + [beh]
                    acc2 = accessor.get_accessor_for_url(url)
                    site.reset(script)
                    out = h14.run_impl(lambda: acc2.fetch_chunk("1mm", tuple(co)))
                    case = {"accessor": "sharded-http", "triple": list(triple), "legacy": legacy, "chunk": co,
                            "fault_at": k, "behaviour": str(beh), "stale_legacy_pair": stale}
                    R.case(case, nontrivial=True)
                    R.count(f"http:sharded:{beh if isinstance(beh, str) else beh[1]}:"
                            f"{out[0] if out[0] != 'Crash' else out[1]}")
                    reqs.append(("hs_fetch", [sc, h14.wire_script(script), tree, b(s.url + "/ds/1mm/"), b(name),
                                              hl, cmc, wloc]))
                    pend.append((case, out))
                    # the failure is transient: the SAME accessor, the server healthy again, reads the chunk
                    # (nothing of the failed attempt - half-loaded index, "missing" verdict - may survive)
                    site.reset()
                    again = h14.run_impl(lambda: acc2.fetch_chunk("1mm", tuple(co)))
                    R.count(f"http:sharded:refetch:{again[0] if again[0] != 'Crash' else again[1]}")
                    if again != good:
                        R.violation("after a failed sharded fetch the same accessor, the server healthy again, does "
                                    "not return the stored chunk (state of the failed attempt survives)", case,
                                    {"first": h12._short(out), "second_fetch": h12._short(again)})
                    if out in (["IOErr"], ["AccessErr"]) or out == good:
                        continue
                    if out[0] == "ok":
                        R.violation("HTTP failure during a sharded fetch returned normally with other bytes than the "
                                    "stored chunk", case, {"impl": h12._short(out), "stored": h12._short(good)})
                        continue
                    R.violation("HTTP failure during a sharded fetch surfaced as something else than a data-access / "
                                "I/O error", case, {"impl": h12._short(out)})
            # the shard file (or a member of the legacy pair) shorter than its indices say - truncated before
            # the reader opens it, or shrunk under a reader that has the indices already: ranges that start
            # past the end are answered 416.  The chunk is read as stored or the fetch fails with an I/O error
            members = [name + ".index", name + ".data"] if legacy else [name + ".shard"]
            others = [c for c in coords if c != co]
            for mem in members:
                fpath = os.path.join(ds, "1mm", mem)
                orig = open(fpath, "rb").read()
                cuts = sorted({0, 1, hl // 2, hl - 1, hl, hl + 1, (hl + len(orig)) // 2, len(orig) - 9,
                               len(orig) - 1} & set(range(len(orig))))
                for cut in cuts:
                    for mode in ("before-open", "under-open-reader"):
                        acc4 = accessor.get_accessor_for_url(url)
                        if mode == "under-open-reader":
                            site.reset()
                            h14.run_impl(lambda: acc4.fetch_chunk("1mm", tuple(co)))
                        with open(fpath, "wb") as fh:
                            fh.write(orig[:cut])
                        try:
                            site.reset()
                            outs = [(c, h14.run_impl(lambda: acc4.fetch_chunk("1mm", tuple(c))))
                                    for c in [co] + others[:1]]
                            case = {"accessor": "sharded-http", "triple": list(triple), "legacy": legacy,
                                    "truncated": [mem, cut, len(orig)], "when": mode,
                                    "statuses": sorted({e[0] for e in site.log})}
                            if mode == "before-open":
                                reqs.append(("hs_fetch", [sc, [], h14.tagged_tree(root), b(s.url + "/ds/1mm/"),
                                                          b(name), hl, cmc, wloc]))
                                pend.append((case, outs[0][1]))
                        finally:
                            with open(fpath, "wb") as fh:
                                fh.write(orig)
                        R.case(case, nontrivial=True)
                        for c, o in outs:
                            R.count(f"http:sharded:truncated:{mode}:{o[0] if o[0] != 'Crash' else o[1]}")
                            stored = ["ok", bytes([c[0] + c[2] + 1]) * 9]
                            if o in (["IOErr"], ["AccessErr"]) or o == stored:
                                continue
                            R.violation("a shard file shorter than its indices say (ranges past the end: 416) is read "
                                        "as something else than the stored chunk or an I/O error",
                                        {**case, "chunk": c}, {"impl": h12._short(o), "stored": h12._short(stored)})
    rep = R.model.batch(reqs)
    for (case, out), m in zip(pend, rep):
        if not h14.bout_matches(m[0], out):
            R.disagree("outcome under a scripted server failure vs model", case, h12._short(out), h12._short(m[0]))


def _child_store(kind, base, limit, payloads, q):
    """Runs in a forked child: perform the store under RLIMIT_FSIZE = limit and
    report the outcome class through the pipe q."""
    import resource
    import signal
    signal.signal(signal.SIGXFSZ, signal.SIG_IGN)      # the write then fails with EFBIG
    resource.setrlimit(resource.RLIMIT_FSIZE, (limit, limit))
    try:
        if kind == "sharded":
            from neuroglancer_scripts.sharded_file_accessor import ShardedFileAccessor
            acc = ShardedFileAccessor(base, strategy="in memory")
            for coords, buf in payloads:
                acc.store_chunk(buf, "s0", coords)
            acc.close()
        else:
            from neuroglancer_scripts.file_accessor import FileAccessor
            acc = FileAccessor(base, flat=(kind == "flat"), gzip=False)
            for coords, buf in payloads:
                acc.store_chunk(buf, "s0", coords)
        q.send("ok")
    except BaseException as e:  # noqa: BLE001
        q.send(type(e).__name__)
    finally:
        q.close()
        os._exit(0)


def fsize_sweep_part(R, quick):
    """Real-OS fault enumeration beyond the model: every store of a small dataset is repeated in a
    forked child under a file-size limit L for every L below the size of the largest file written
    (what a full disk does in the middle of a write: a short or failing write).  The operation must
    either fail with an error or have written everything: a run that reports success must leave a
    dataset in which every stored chunk reads back."""
    import json
    import multiprocessing as mp
    from neuroglancer_scripts import accessor
    rng = R.rng
    ctx = mp.get_context("fork")
    for ki, kind in enumerate(["sharded", "deep"] if quick else ["sharded", "deep", "flat", "sharded"]):
        cs = 4
        grid = (2, 2, 1) if quick else (2, 2, 2)
        payloads = []
        for x in range(grid[0]):
            for y in range(grid[1]):
                for z in range(grid[2]):
                    payloads.append(((x * cs, x * cs + cs, y * cs, y * cs + cs, z * cs, z * cs + cs),
                                     bytes(rng.randrange(256) for _ in range(rng.randrange(20, 60)))))
        info = {"type": "image", "data_type": "uint8", "num_channels": 1,
                "scales": [{"key": "s0", "size": [g * cs for g in grid], "chunk_sizes": [[cs] * 3],
                            "encoding": "raw", "resolution": [1, 1, 1], "voxel_offset": [0, 0, 0]}]}
        if kind == "sharded":
            info["scales"][0]["sharding"] = {"@type": "neuroglancer_uint64_sharded_v1", "minishard_bits": 1,
                                             "shard_bits": 0, "preshift_bits": 0, "hash": "identity",
                                             "minishard_index_encoding": rng.choice(["raw", "gzip"]),
                                             "data_encoding": "raw"}
        # size of the largest file of a complete run
        ref = os.path.join(R.tmp, f"fsz-{ki}-{kind}-ref", "a", "b", "ds")
        os.makedirs(ref)
        open(os.path.join(ref, "info"), "w").write(json.dumps(info))
        a, b = ctx.Pipe()
        pr = ctx.Process(target=_child_store, args=(kind, ref, 2 ** 30, payloads, b))
        pr.start()
        b.close()
        res = a.recv() if a.poll(60) else "hang"
        pr.join(10)
        top = 0
        for root, _d, files in os.walk(ref):
            for f in files:
                if f != "info":
                    top = max(top, os.path.getsize(os.path.join(root, f)))
        if res != "ok" or not top:
            R.disagree("file-size sweep: the unlimited reference run failed", {"kind": kind}, res, "ok")
            continue
        limits = list(range(0, top)) if top <= 400 else sorted(set(rng.sample(range(top), 300)) | {0, 1, top - 1})
        for lim in limits:
            base = os.path.join(R.tmp, f"fsz-{ki}-{kind}-{lim}", "a", "b", "ds")
            os.makedirs(base)
            with open(os.path.join(base, "info"), "w") as f:
                f.write(json.dumps(info))
            a, b = ctx.Pipe()
            pr = ctx.Process(target=_child_store, args=(kind, base, lim, payloads, b))
            pr.start()
            b.close()
            res = a.recv() if a.poll(60) else "hang"
            pr.join(10)
            case = {"file_size_limit": lim, "accessor": kind, "largest_file": top,
                    "index_encoding": info["scales"][0].get("sharding", {}).get("minishard_index_encoding")}
            R.case(case, nontrivial=0 < lim < top)
            R.count(f"fsize:{kind}:{'ok' if res == 'ok' else 'error'}")
            if res == "ok":
                # reported success: everything must be there and correct
                try:
                    rd = accessor.get_accessor_for_url(base, {"flat": kind == "flat", "gzip": False})
                    for coords, buf in payloads:
                        got = rd.fetch_chunk("s0", coords)
                        if got != buf:
                            R.violation("a store reported success under a file-size limit but a chunk reads back "
                                        "wrong", case, {"coords": list(coords), "got_len": len(got), "want_len": len(buf)})
                            break
                except Exception as e:  # noqa: BLE001
                    R.violation("a store reported success under a file-size limit but the data cannot be read back",
                                case, {"exc": f"{type(e).__name__}: {e}"[:200]})
            elif res not in ("OSError", "DataAccessError", "ShardedIOError", "FileNotFoundError", "PermissionError"):
                if res == "hang":
                    R.violation("store hung under a file-size limit", case, {})
                else:
                    R.violation("a failing write surfaced as an unrelated exception", case, {"exception": res})
            import shutil
            shutil.rmtree(os.path.join(R.tmp, f"fsz-{ki}-{kind}-{lim}"), ignore_errors=True)
    R.notes.append("file-size-limit sweep (RLIMIT_FSIZE in a forked child, every byte position of the largest file): "
                   "exercises real short/failing writes of the OS, which the primitive-level model cannot exhibit")


def _child_spool(base, tmpdir, payloads, victim, q):
    """Forked child: store chunks with the default (on-disk) buffering, remove the victim-th spool file
    of the writer from the temporary directory, then close()."""
    import tempfile
    tempfile.tempdir = tmpdir
    try:
        from neuroglancer_scripts.sharded_file_accessor import ShardedFileAccessor
        acc = ShardedFileAccessor(base)
        for coords, buf in payloads:
            acc.store_chunk(buf, "s0", coords)
        spools = []
        for root, _d, files in os.walk(tmpdir):
            for f in files:
                spools.append(os.path.join(root, f))
        spools.sort()
        if spools:
            os.unlink(spools[victim % len(spools)])
        acc.close()
        q.send("ok" if spools else "no-spool")
    except BaseException as e:  # noqa: BLE001
        q.send(type(e).__name__)
    finally:
        q.close()
        os._exit(0)


def spool_vanish_part(R, quick):
    """A temporary file of the on-disk write buffer disappears between the last store and close()
    (a tmp cleaner, an interrupted earlier run): close() must fail with an I/O error or have written a
    correct dataset - never report success over a damaged shard."""
    import json
    import multiprocessing as mp
    from neuroglancer_scripts import accessor
    rng = R.rng
    ctx = mp.get_context("fork")
    cs = 4
    grid = (2, 2, 2)
    for victim in range(4 if quick else 16):
        payloads = []
        for x in range(grid[0]):
            for y in range(grid[1]):
                for z in range(grid[2]):
                    payloads.append(((x * cs, x * cs + cs, y * cs, y * cs + cs, z * cs, z * cs + cs),
                                     bytes(rng.randrange(256) for _ in range(rng.randrange(10, 40)))))
        rng.shuffle(payloads)
        info = {"type": "image", "data_type": "uint8", "num_channels": 1,
                "scales": [{"key": "s0", "size": [g * cs for g in grid], "chunk_sizes": [[cs] * 3],
                            "encoding": "raw", "resolution": [1, 1, 1], "voxel_offset": [0, 0, 0],
                            "sharding": {"@type": "neuroglancer_uint64_sharded_v1", "minishard_bits": 1,
                                         "shard_bits": 1, "preshift_bits": 0, "hash": "identity",
                                         "minishard_index_encoding": "raw", "data_encoding": "raw"}}]}
        base = os.path.join(R.tmp, f"spool-{victim}", "a", "b", "ds")
        tmpd = os.path.join(R.tmp, f"spool-{victim}", "tmp")
        os.makedirs(base)
        os.makedirs(tmpd)
        with open(os.path.join(base, "info"), "w") as f:
            f.write(json.dumps(info))
        a, b = ctx.Pipe()
        pr = ctx.Process(target=_child_spool, args=(base, tmpd, payloads, victim, b))
        pr.start()
        b.close()
        res = a.recv() if a.poll(60) else "hang"
        pr.join(10)
        case = {"spool_file_removed_before_close": victim, "chunks": len(payloads)}
        R.case(case, nontrivial=True)
        R.count(f"spool-vanish:{'ok' if res == 'ok' else res}")
        if res == "ok":
            try:
                rd = accessor.get_accessor_for_url(base)
                for coords, buf in payloads:
                    if rd.fetch_chunk("s0", coords) != buf:
                        R.violation("close() reported success after a write-buffer file vanished, but a chunk "
                                    "reads back wrong", case, {"coords": list(coords)})
                        break
            except Exception as e:  # noqa: BLE001
                R.violation("close() reported success after a write-buffer file vanished, but the shard cannot "
                            "be read back", case, {"exc": f"{type(e).__name__}: {e}"[:200]})
        elif res not in ("OSError", "FileNotFoundError", "ShardedIOError", "DataAccessError", "no-spool"):
            R.violation("a vanished write-buffer file surfaced as an unrelated exception", case, {"exception": res})


def _collapse(calls):
    """Model trace (one call per underlying write) -> groups: [(kind, path, first_index, count)]
    with consecutive writes on one path merged (what FaultFS numbers as one event)."""
    out = []
    for idx, ev in enumerate(calls):
        kind = str(ev[0])
        path = ev[1].decode()
        if kind == "write" and out and out[-1][0] == "write" and out[-1][1] == path:
            out[-1][3] += 1
        else:
            out.append([kind, path, idx, 1])
    return out


def _events_match(groups, events):
    return [[g[0], g[1]] for g in groups] == [[e[0], e[1]] for e in events]


def sharded_close_part(R, quick):
    """ShardedFileAccessor.close() with every primitive call of the close failing in turn - every
    underlying write of every shard file separately -, followed by a SECOND close() without any fault
    (an explicit retry, the per-scale close of compute_dyadic_scales, or the atexit hook the accessor
    registers itself).
    Correspondence: the model's close program (StFaults.close_prog through D_C12 "sh_close", the payload
    blocks taken from a recorded fault-free close): primitive-call traces of both closes, their outcomes,
    the files after each.
    Oracle: the failing close is an I/O / data-access error; the second close returns normally and every
    stored chunk is then readable (the write buffers are released only once a shard file is complete).
    The model also evaluates the hypotheses of the tree theorems (C18_close_retry_checked) on every case."""
    from neuroglancer_scripts.sharded_file_accessor import ShardedFileAccessor
    R.notes.append("close model: the data of a minishard is one write (always with the in-memory buffers; with the "
                   "on-disk buffers up to 4096 bytes per minishard - the generated chunks are 9 bytes)")
    root = os.path.join(R.tmp, "shclose")
    coords = [(x, x + 64, y, y + 64, 0, 64) for x in (0, 64) for y in (0, 64)]

    def build(strategy, triple):
        shutil.rmtree(root, ignore_errors=True)
        ds = os.path.join(root, "ds")
        info = h14.sharded_info(triple, "raw", "raw", [128, 128, 64])
        w = ShardedFileAccessor(ds, strategy=strategy)
        w.info = info
        for c in coords:
            w.store_chunk(bytes([c[0] + c[2] + 1]) * 9, "1mm", c)
        return w, info, ds

    def close_outcome(w):
        with contextlib.redirect_stdout(io.StringIO()):
            try:
                w.close()
                return ["ok"]
            except Exception as e:  # noqa: BLE001
                return classify_exception(e)

    def model_out(o):
        return {"ok": ["ok"], "IOErr": ["IOErr"]}[str(o)]

    reqs, pend = [], []
    for strategy in ("in memory", "on disk"):
        for triple in ([(0, 1, 1)] if quick else [(0, 1, 1), (0, 0, 0), (1, 1, 1), (0, 2, 0)]):
            w, info, ds = build(strategy, triple)
            tree0 = h14.tagged_tree(root)
            with faultfs.FaultFS(root, record_writes=True) as f0:
                o0 = close_outcome(w)
            atexit.unregister(w.close)
            events = list(f0.events)
            case0 = {"accessor": "sharded-file", "op": "close", "strategy": strategy, "triple": list(triple)}
            R.case(case0)
            if o0 != ["ok"]:
                R.violation("ShardedFileAccessor.close() fails although no primitive call fails", case0,
                            {"impl": o0, "calls": [list(e[:2]) for e in events]})
            # the payload blocks of every shard, in the order the shards are written
            shards, ok_payload = [], True
            for ev in events:
                if ev[0] != "open":
                    continue
                ws = [d for (p, d) in f0.writes if p == ev[1]]
                n = (len(ws) - 2) // 2
                if len(ws) < 4 or len(ws) != 2 * n + 2:
                    ok_payload = False
                    break
                shards.append([b(os.path.dirname(ev[1])), b(ev[1]), ws[0], ws[1:1 + n], ws[1 + n:1 + 2 * n], ws[-1],
                               True])
            if not ok_payload and o0 == ["ok"]:
                # 9-byte chunks: every minishard is one block also with the on-disk buffers (4096-byte reads)
                R.disagree("write sequence of close() vs model (zero header, one data block and one index block "
                           "per minishard, shard index)", case0,
                           [[os.path.basename(p), len(d)] for (p, d) in f0.writes], "2n+2 writes per shard file")
            subs = {}
            for k, ev in enumerate(events):
                subs[k] = len([1 for (p, d) in f0.writes if p == ev[1]]) if ev[0] == "write" else 1
            for k in range(len(events)):
                for sub in range(subs[k]):
                    for en in (["EIO", "ENOSPC"] if quick else ERRNOS):
                        w, info, ds = build(strategy, triple)
                        with faultfs.FaultFS(root, fault=(k, en, sub)) as ffs:
                            o1 = close_outcome(w)
                        snap1 = h12.snapshot(root)
                        with faultfs.FaultFS(root) as f2:
                            o2 = close_outcome(w)
                        snap2 = h12.snapshot(root)
                        atexit.unregister(w.close)
                        case = {"accessor": "sharded-file", "op": "close, then close again", "strategy": strategy,
                                "triple": list(triple),
                                "fault": [k, events[k][0], os.path.basename(events[k][1]), en, "underlying write", sub]}
                        R.case(case, nontrivial=ffs.fired)
                        R.count(f"sh-close:{events[k][0]}{'+' + str(sub) if sub else ''}:first={o1[0]}:"
                                f"second={o2[0] if o2[0] != 'Crash' else o2[1]}")
                        if ok_payload:
                            reqs.append(("sh_close", [tree0, shards, ("group", k, sub), Atom(en)]))
                            pend.append((case, events, o1, snap1, list(f2.events), o2, snap2))
                        if ffs.fired and o1 not in (["IOErr"], ["AccessErr"]):
                            R.violation("failing primitive during ShardedFileAccessor.close() not reported as an I/O "
                                        "error", case, {"impl": o1})
                        if o2 != ["ok"]:
                            R.violation("close() repeated after a failed close() - without any failing call - does "
                                        "not return normally", case, {"first": o1, "second": o2})
                        else:
                            with open(os.path.join(ds, "info"), "w") as fh:
                                json.dump(info, fh)
                            rd = ShardedFileAccessor(ds)
                            bad = []
                            for c in coords:
                                got = h14.run_impl(lambda: rd.fetch_chunk("1mm", c))
                                if got != ["ok", bytes([c[0] + c[2] + 1]) * 9]:
                                    bad.append([list(c), h12._short(got)])
                            atexit.unregister(rd.close)
                            if bad:
                                R.violation("close() returned normally after an earlier close() had failed, but stored "
                                            "chunks are not readable (silently dropped)", case, {"unreadable": bad[:3]})
    # ---- model: the fault index is the index of the call in the model's trace (one call per write)
    cache = {}
    final = []
    for op, (tree0, shards, (_, k, sub), en) in reqs:
        key = repr([(x[1], len(x[3])) for x in shards])
        if key not in cache:
            cache[key] = _collapse(R.model.call("sh_close", [tree0, shards, -1, Atom("EIO")])[0])
        g = cache[key]
        kmodel = g[k][2] + sub if k < len(g) else 10 ** 6
        final.append(("sh_close", [tree0, shards, kmodel, en]))
    rep = R.model.batch(final)
    for (case, events, o1, snap1, events2, o2, snap2), (op, args), m in zip(pend, final, rep):
        g1 = _collapse(m[0])
        if not _events_match(g1, events):
            R.disagree("primitive-call trace of ShardedFileAccessor.close() vs model", case,
                       [list(e[:2]) for e in events], [x[:2] for x in g1])
            continue
        R.traces += 1
        if model_out(m[1]) != o1:
            R.disagree("outcome of the failing close() vs model", case, o1, model_out(m[1]))
        d = h12.compare_tree(m[3], snap1, root)
        if d:
            R.disagree("files after the failing close() vs model", case, [str(x)[:160] for x in d[:3]], "model")
        g2 = _collapse(m[4])
        if not _events_match(g2, events2):
            R.disagree("primitive-call trace of the second close() vs model", case,
                       [list(e[:2]) for e in events2], [x[:2] for x in g2])
        if model_out(m[5]) != o2:
            R.disagree("outcome of the second close() vs model", case, o2, model_out(m[5]))
        if len(m) < 9 or str(m[8]) != "true":
            R.disagree("hypotheses of C18_close_retry_checked (close_hyps) do not hold for the generated case",
                       case, "generated shard list and tree", str(m[8]) if len(m) > 8 else "no reply item")
        d = h12.compare_tree(m[7], snap2, root)
        if d:
            R.disagree("files after the second close() vs model", case, [str(x)[:160] for x in d[:3]], "model")
    shutil.rmtree(root, ignore_errors=True)


def damaged_gzip_part(R, quick):
    """A stored .gz chunk / file whose bytes are damaged INSIDE the deflate stream while its length is the final
    one (a tail of zeros or of 0xff left by an interrupted write after the size was set, a run of bytes overwritten
    in the middle): for every cut point the reader returns the stored content or raises DataAccessError - never
    another exception, never other bytes.  Oracle only (zlib is an external component for the model)."""
    import glob as _glob
    from neuroglancer_scripts.file_accessor import FileAccessor
    from neuroglancer_scripts.accessor import DataAccessError
    rng = R.rng
    coords = (0, 64, 0, 64, 0, 64)
    for rep in range(2 if quick else 12):
        base = os.path.join(R.tmp, f"dmg{rep}")
        # compressible but structured content: literal runs, repeats and a few incompressible bytes, so that the
        # deflate stream holds stored, fixed and dynamic blocks depending on the level
        content = (b"".join(bytes([rng.randrange(4)]) * rng.randrange(1, 40) for _ in range(40))
                   + bytes(rng.getrandbits(8) for _ in range(rng.randrange(0, 200))))
        acc = FileAccessor(base, flat=bool(rep % 2), gzip=True, compresslevel=[9, 1, 6, 0][rep % 4])
        acc.store_chunk(content, "k", coords, overwrite=True)
        acc.store_file("mesh/frag7", content, mime_type="application/octet-stream", overwrite=True)
        for what in ("chunk", "file"):
            paths = [p for p in _glob.glob(os.path.join(base, "**", "*.gz"), recursive=True)
                     if (os.path.basename(p) == "frag7.gz") == (what == "file")]
            if len(paths) != 1:
                R.notes.append("damaged_gzip_part: stored .gz object not found where expected")
                continue
            path = paths[0]
            orig = open(path, "rb").read()
            step = 1 if len(orig) <= 400 or not quick else 2
            for fill, fname in ((b"\x00", "zeros"), (b"\xff", "ones")):
                bad = {}
                for k in range(0, len(orig), step):
                    with open(path, "wb") as fh:
                        fh.write(orig[:k] + fill * (len(orig) - k))
                    rd = FileAccessor(base, flat=bool(rep % 2), gzip=True)
                    try:
                        got = rd.fetch_chunk("k", coords) if what == "chunk" else rd.fetch_file("mesh/frag7")
                        out = "ok" if bytes(got) == content else "other-bytes"
                    except DataAccessError:
                        out = "DataAccessError"
                    except Exception as exc:  # noqa: BLE001
                        out = type(exc).__name__
                    R.count(f"damaged-gzip:{what}:{fname}:{out}")
                    if out not in ("ok", "DataAccessError"):
                        bad.setdefault(out, []).append(k)
                case = {"kind": "damaged gzip object", "object": what, "fill": fname, "stored_len": len(orig),
                        "compresslevel": [9, 1, 6, 0][rep % 4], "content": content}
                R.case(case, nontrivial=True)
                if bad:
                    R.violation("a damaged .gz object is read as other bytes or raises something else than "
                                "DataAccessError", case, {k_: v[:8] for k_, v in bad.items()})
            with open(path, "wb") as fh:
                fh.write(orig)


def run(R):
    R.rule = RULE
    quick = R.tier == "quick"
    h12.SAFE_ROOT[0] = R.tmp
    R.notes.append("faults are injected at the Python level (open / makedirs / is_file / exists / mkdir / file "
                   "object write, read, close); real crash consistency of the kernel and file system (torn or "
                   "reordered blocks, fsync) cannot be exhibited: partial")
    R.notes.append("an interrupted write leaves a prefix of the final file: classes empty, 1 byte, half")
    file_accessor_part(R, quick)
    sharded_file_part(R, quick)
    sharded_close_part(R, quick)
    http_part(R, quick)
    fsize_sweep_part(R, quick)
    spool_vanish_part(R, quick)
    damaged_gzip_part(R, quick)


def replay(R, payload):
    before = len(R.violations) + len(R.disagreements)
    run(R)
    return len(R.violations) + len(R.disagreements) > before
