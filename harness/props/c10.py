"""C10 — decoders never misbehave on malformed chunk data.

Correspondence: CompressedSegmentationEncoder.decode / RawChunkEncoder.decode /
JpegChunkEncoder.decode (through get_encoder) vs Codec/CSegDecode.v,
RawCodec.v, JpegGlue.v (Pillow's answers are supplied to the glue model).
Oracle on what the implementation did: the outcome is either an array of
exactly the requested shape and dtype or InvalidFormatError; valid data is
accepted and decodes to the input (exactly, for the lossless codecs).
"""
import io
import struct
import warnings

from harness.common import outcome_of, model_outcome
from harness.props import c02

RULE = ("malformed stream for each codec: random bytes (0-300), truncation at every field boundary +-1, "
        "1-4 byte mutations, targeted edits (each channel offset to boundary values; the bits byte of one "
        "block to all 256 values; table / values offsets to boundary values), extensions, decoding with a "
        "different shape / block / dtype / channel count; plus the unmodified valid encodings; sessions: one "
        "decoder object per codec decodes A, a rejected buffer, B (same shape), A again and every array handed "
        "out earlier is re-checked; valid files of an independent writer with other layouts (values before the "
        "table, shuffled / padded tables, wider bit widths, gaps, reversed channel order, table offsets using "
        "bits 20..23) must decode; valid JPEGs about which Pillow only warns (MAX_IMAGE_PIXELS lowered in the "
        "harness process, several warning filters) must decode; the raw encoder is given the chunk C-ordered / "
        "Fortran-ordered / big-endian / strided / as a transposed view and must write the C-order little-endian items. "
        "non-trivial = buffer derived from a valid encoding with >= 2 blocks or channels (cseg), any "
        "non-empty buffer (raw), any buffer Pillow can open (jpeg)")

# Regression inputs of the two defects repaired in /repo (a6dbfd3, 95d7b2e): a channel offset
# before its predecessor (was struct.error) and a JPEG whose pixel load fails (was OSError).
REGRESSION_CSEG = ("uint32", 2, [1, 1, 1], [1, 1, 1],
                   "0200000000000000000000000000000000000000000000000000000000000000")
REGRESSION_JPEG = (1, [2, 2, 2],
                   "ffd8ffe000104a46494600010100000100010000ffdb0043000201010101010201010102020202020403020202020504"
                   "040304060506060605060606070908060709070606080b08090a0a0a0a0a06080b0c0b0a0c090a0a0affc2000b080004"
                   "000201011100ffc40014000100000000000000000000000000000009ffda00080101000000013fff00ffc40014100100"
                   "000000000000000000000000000000ffda00080101000105027fffc40014100100000000000000000000000000000000"
                   "ffda0008010100063f027fffc40014100100000000000000000000000000000000ffda0008010100013f217fffda0008"
                   "0101000000107fffc400141001000000000000000000")


# ------------------------------------------------------------------ cseg

def field_boundaries(buf, dt, C, shape, blk):
    X, Y, Z = shape
    bx, by, bz = blk
    B = bx * by * bz
    isz = 4 if dt == "uint32" else 8
    nblk = (-(-X // bx)) * (-(-Y // by)) * (-(-Z // bz))
    bd = {0, len(buf)}
    for c in range(C):
        bd.add(4 * c)
        base = 4 * struct.unpack_from("<I", buf, 4 * c)[0]
        bd.add(base)
        for k in range(nblk):
            bd.update((base + 8 * k, base + 8 * k + 4))
            w0, w1 = struct.unpack_from("<II", buf, base + 8 * k)
            bits = w0 >> 24
            bd.add(base + 4 * (w0 & 0xFFFFFF))
            bd.add(base + 4 * w1)
            if bits:
                bd.add(base + 4 * w1 + 4 * (-(-B // (32 // bits))))
            bd.add(base + 4 * (w0 & 0xFFFFFF) + isz)
    return sorted(bd)


def cseg_mutants(rng, cs, buf, quick):
    """Yield (kind, bytes, C, shape, blk, dt) derived from the valid encoding."""
    dt, C, shape, blk = cs["dt"], cs["C"], cs["shape"], cs["blk"]
    X, Y, Z = shape
    bx, by, bz = blk
    nblk = (-(-X // bx)) * (-(-Y // by)) * (-(-Z // bz))
    nw = len(buf) // 4
    yield "valid", buf, C, shape, blk, dt
    bds = field_boundaries(buf, dt, C, shape, blk)
    if quick and len(bds) > 14:
        bds = rng.sample(bds, 14)
    for b in bds:
        for d in (-1, 0, 1):
            if 0 <= b + d < len(buf):
                yield "truncate", buf[:b + d], C, shape, blk, dt
    for _ in range(3 if quick else 12):
        m = bytearray(buf)
        for _ in range(rng.randint(1, 4)):
            m[rng.randrange(len(m))] = rng.randrange(256)
        yield "mutate", bytes(m), C, shape, blk, dt
    # channel offsets
    offs = [struct.unpack_from("<I", buf, 4 * c)[0] for c in range(C)]
    for c in range(C):
        cand = {0, 1, 2, C, nw, nw - 1, nw + 1, 2 ** 32 - 1, nw - 2 * nblk, nw - 2 * nblk + 1,
                nw - 2 * nblk - 1}
        if c > 0:
            cand.update((offs[c - 1], offs[c - 1] + 2 * nblk, offs[c - 1] + 2 * nblk - 1, offs[c - 1] - 1,
                         offs[c - 1] + 1))
        if c + 1 < C:
            cand.update((offs[c + 1], offs[c + 1] - 2 * nblk, offs[c + 1] - 2 * nblk + 1, offs[c + 1] + 1))
        cand = sorted(v for v in cand if 0 <= v < 2 ** 32)
        if quick and len(cand) > 8:
            cand = rng.sample(cand, 8)
        for v in cand:
            m = bytearray(buf)
            struct.pack_into("<I", m, 4 * c, v)
            yield "chan_offset", bytes(m), C, shape, blk, dt
    # one block: bits byte, table offset, values offset
    c = rng.randrange(C)
    k = rng.randrange(nblk)
    base = 4 * offs[c]
    nxt = 4 * offs[c + 1] if c + 1 < C else len(buf)
    clen = (nxt - base) // 4
    h = base + 8 * k
    w0, w1 = struct.unpack_from("<II", buf, h)
    bitvals = range(256) if not quick else sorted(set([0, 1, 2, 3, 4, 5, 8, 16, 17, 32, 33, 64, 128, 255] +
                                                      [rng.randrange(256) for _ in range(6)]))
    for bv in bitvals:
        m = bytearray(buf)
        m[h + 3] = bv
        yield "bits_byte", bytes(m), C, shape, blk, dt
    isz = 4 if dt == "uint32" else 8
    B = bx * by * bz
    for bits in (0, 1, 8, 32, w0 >> 24):
        tcand = {0, 1, clen, clen - 1, clen + 1, clen - isz // 4, 2 ** 24 - 1, clen - (isz // 4) * (1 << min(bits, 10)),
                 2 * nblk, 2 * nblk - 1}
        need = -(-B // (32 // bits)) if bits else 0
        vcand = {0, 1, clen, clen - 1, clen + 1, clen - need, clen - need + 1, clen - need - 1, 2 ** 32 - 1,
                 2 ** 30, 2 ** 30 - 1}
        tc = sorted(v for v in tcand if 0 <= v < 2 ** 24)
        vc = sorted(v for v in vcand if 0 <= v < 2 ** 32)
        if quick:
            tc = rng.sample(tc, min(3, len(tc)))
            vc = rng.sample(vc, min(3, len(vc)))
        for t in tc:
            m = bytearray(buf)
            struct.pack_into("<I", m, h, t | (bits << 24))
            yield "table_offset", bytes(m), C, shape, blk, dt
        for v in vc:
            m = bytearray(buf)
            struct.pack_into("<II", m, h, (w0 & 0xFFFFFF) | (bits << 24), v)
            yield "values_offset", bytes(m), C, shape, blk, dt
    for n in (1, 2, 3, 4, 5, 8):
        yield "extend", buf + bytes(rng.randrange(256) for _ in range(n)), C, shape, blk, dt
    # decode with other parameters
    yield "other_dtype", buf, C, shape, blk, ("uint32" if dt == "uint64" else "uint64")
    yield "other_channels", buf, rng.choice([c2 for c2 in (1, 2, 3, 4) if c2 != C]), shape, blk, dt
    s2 = list(shape)
    s2[rng.randrange(3)] += rng.choice([-1, 1, 3])
    if min(s2) >= 1:
        yield "other_shape", buf, C, s2, blk, dt
    b2 = list(blk)
    b2[rng.randrange(3)] = rng.choice([1, 2, 3, 4, 8])
    yield "other_block", buf, C, shape, b2, dt
    yield "swapped_block", buf, C, shape, blk[::-1], dt


def run_cseg(R, quick):
    import numpy as np
    rng = R.rng
    items = []      # (kind, buf, C, shape, blk, dt, src_values or None)
    nvalid = 36 if quick else 330
    for i in range(nvalid):
        cs = c02.gen_case(rng, True)
        if i % 3 == 0:   # keep most sources small so that targeted edits dominate
            cs["shape"] = [rng.randint(1, 4) for _ in range(3)]
            cs["blk"] = [rng.choice([1, 2, 3, 4]) for _ in range(3)]
            cs["values"] = c02.gen_values(rng, cs["dt"], cs["C"], cs["shape"], cs["blk"], rng.choice([1, 2, 3, 5, 17]))
        if i % 4 == 1:
            cs["C"] = rng.choice([2, 3])
            cs["values"] = c02.gen_values(rng, cs["dt"], cs["C"], cs["shape"], cs["blk"], cs["pool"])
        a = c02.arr_of(cs["dt"], cs["C"], cs["shape"], cs["values"])
        enc = c02.make_encoder(cs["dt"], cs["C"], cs["blk"])
        buf = bytes(enc.encode(a))
        for kind, b, C, shape, blk, dt in cseg_mutants(rng, cs, buf, quick):
            items.append((kind, b, C, list(shape), list(blk), dt, a if kind == "valid" else None,
                          len(cs["values"]) > 1))
    for _ in range(400 if quick else 20000):
        n = rng.choice([0, 1, 3, 4, 7, 8, 11, 12, 16, 20, 24, rng.randrange(301)])
        style = rng.random()
        if style < 0.4:
            b = bytes(rng.randrange(256) for _ in range(n))
        elif style < 0.8:   # small words: plausible offsets
            b = b"".join(struct.pack("<I", rng.choice([0, 1, 2, 3, 4, 5, rng.randrange(12),
                                                       (rng.choice([0, 1, 2, 4, 8, 16, 32]) << 24) | rng.randrange(12)]))
                         for _ in range(n // 4)) + bytes(rng.randrange(256) for _ in range(n % 4))
        else:
            b = bytes([rng.choice([0, 0, 0, 1, 2, 255])]) * n
        C = rng.choice([1, 1, 2, 3])
        shape = [rng.randint(1, 3) for _ in range(3)]
        blk = [rng.choice([1, 2, 3, 8]) for _ in range(3)]
        items.append(("random", b, C, shape, blk, rng.choice(["uint32", "uint64"]), None, False))

    # 32-bit blocks whose index words are close to 2^32 (a signed intermediate would read them as small negative
    # numbers, which index the table from its end) or just outside the table; hand-built one-block files
    for dt in ("uint32", "uint64"):
        wide = dt == "uint64"
        labels = [111, 222, 333] if not wide else [2 ** 40 + 1, 222, 2 ** 63 + 5]
        lut = b"".join(v.to_bytes(8 if wide else 4, "little") for v in labels)
        for bits, idx_pairs in ((32, [(0xFFFFFFFF, 0xFFFFFFFE), (0xFFFFFFFD, 0), (0x80000000, 1), (0x7FFFFFFF, 2),
                                      (3, 0), (2, 0xFFFFFFFF), (2, 1), (0, 2), (2 ** 32 - 3, 2 ** 32 - 1)]),
                                (16, [(0xFFFF, 0xFFFE), (0xFFFD, 0), (0x8000, 1), (3, 0), (2, 1)]),
                                (8, [(0xFF, 0xFE), (0xFD, 0), (0x80, 1), (3, 0), (2, 1)])):
            for i0, i1 in idx_pairs:
                if bits == 32:
                    vals = struct.pack("<II", i0, i1)
                else:
                    vals = struct.pack("<I", i0 | (i1 << bits))
                nvw = len(vals) // 4
                b = struct.pack("<III", 1, (bits << 24) | (2 + nvw), 2) + vals + lut
                items.append(("wide-index", b, 1, [2, 1, 1], [2, 1, 1], dt, None, True))

    if not quick:
        # exhaustive sweep: every single-byte substitution on three small valid files
        small = [("uint32", 2, [2, 1, 1], [1, 1, 1], [5, 6, 5, 7]),
                 ("uint64", 1, [2, 2, 1], [2, 1, 1], [2 ** 40, 1, 1, 2 ** 40]),
                 ("uint32", 2, [1, 1, 1], [2, 2, 2], [9, 9])]
        for dt, C, shape, blk, vals in small:
            a = c02.arr_of(dt, C, shape, vals)
            buf = bytes(c02.make_encoder(dt, C, blk).encode(a))
            for pos in range(len(buf)):
                for v in range(256):
                    if v != buf[pos]:
                        m = bytearray(buf)
                        m[pos] = v
                        items.append(("sweep", bytes(m), C, shape, blk, dt, None, True))
        R.extra["exhaustive_single_byte_sweep_files"] = len(small)
    replies = R.model.batch([c02.dec_request(dt, C, blk, shape, b) for (_k, b, C, shape, blk, dt, _a, _n) in items])
    encoders = {}
    for (kind, b, C, shape, blk, dt, src, nontriv), rep in zip(items, replies):
        key = (dt, C, tuple(blk))
        if key not in encoders:
            encoders[key] = c02.make_encoder(dt, C, blk)
        enc = encoders[key]
        impl = c02.impl_arr(outcome_of(lambda: enc.decode(b, shape)))
        mod = c02.model_arr(rep, dt)
        case = {"codec": "cseg", "kind": kind, "dt": dt, "C": C, "shape": shape, "blk": blk, "buf": b}
        R.case(case, nontrivial=nontriv and kind != "random")
        R.count(f"cseg:{kind}:{impl[0] if impl[0] != 'Crash' else 'Crash-' + impl[1]}")
        if impl != mod:
            R.disagree("cseg decode vs cseg_decode", case, c02._short(impl), c02._short(mod))
        X, Y, Z = shape
        if impl[0] == "ok":
            if impl[1][0] != [C, Z, Y, X] or impl[1][1] != dt:
                R.violation("decoder returned an array of the wrong shape or dtype", case, {"impl": impl[1][:2]})
            else:
                # theorem C10_cseg_decode_sound: whatever is accepted decodes as the format document says
                try:
                    pv = c02.spec_decode_py(b, dt, C, shape, blk)
                    isz = 4 if dt == "uint32" else 8
                    ok = b"".join(v.to_bytes(isz, "little") for v in pv) == impl[1][2]
                    det = {} if ok else {"spec": pv[:8]}
                except ValueError as exc:
                    ok, det = False, {"spec_error": str(exc)}
                R.count("cseg:accepted_checked_against_format_decoder")
                if not ok:
                    R.violation("accepted bytes decoded to other labels than the format specifies", case, det)
        elif impl != ["FormatErr"]:
            R.violation("decoder raised something other than InvalidFormatError", case, {"impl": impl})
        if src is not None and impl != ["ok", c02.canon_arr(src)]:
            R.violation("valid compressed_segmentation data rejected or decoded wrongly", case,
                        {"impl": c02._short(impl)})


# ------------------------------------------------------------------ raw

RAW_TYPES = {"uint8": 1, "uint16": 2, "uint32": 4, "uint64": 8, "float32": 4}


def make_raw(dt, C):
    from neuroglancer_scripts import chunk_encoding as ce
    return ce.get_encoder({"data_type": dt, "num_channels": C}, {"encoding": "raw"})


def raw_canon(o, isz):
    """compare raw arrays as (shape, itemsize, bytes): float32 as bit patterns"""
    if o[0] == "ok":
        import numpy as np
        a = np.asarray(o[1])
        return ["ok", [list(a.shape), a.dtype.itemsize,
                       np.ascontiguousarray(a).astype(a.dtype.newbyteorder("<")).tobytes()]]
    return o


RAW_FORMS = ["readonly_c", "fortran", "big_endian", "strided", "transposed_view"]


def run_raw(R, quick):
    import numpy as np
    rng = R.rng
    items = []
    nvalid = [0]
    for _ in range(500 if quick else 30000):
        dt = rng.choice(list(RAW_TYPES))
        isz = RAW_TYPES[dt]
        C = rng.choice([1, 1, 2, 3])
        shape = [rng.choice([1, 1, 2, 3, rng.randint(1, 6)]) for _ in range(3)]
        n = C * shape[0] * shape[1] * shape[2]
        data = bytes(rng.randrange(256) for _ in range(n * isz))
        if dt == "float32" and rng.random() < 0.5:
            data = np.array([rng.choice([0.0, -0.0, 1.5, float("inf"), float("nan"), 1e-45])
                             for _ in range(n)], dtype="<f4").tobytes()
        kind = rng.choice(["valid", "valid", "truncate", "extend", "random", "other_shape", "empty", "one_item"])
        if kind == "truncate":
            buf = data[:max(0, len(data) - rng.choice([1, 2, isz, isz - 1 or 1, isz + 1, 2 * isz]))]
        elif kind == "extend":
            buf = data + bytes(rng.randrange(256) for _ in range(rng.choice([1, 2, isz, isz - 1 or 1, isz + 1])))
        elif kind == "random":
            buf = bytes(rng.randrange(256) for _ in range(rng.randrange(0, 300)))
        elif kind == "other_shape":
            buf = data
            shape = list(shape)
            shape[rng.randrange(3)] += 1
        elif kind == "empty":
            buf = b""
        elif kind == "one_item":
            buf = data[:isz]
        else:
            buf = data
        items.append((kind, dt, isz, C, shape, buf, data if kind == "valid" else None))
    reqs = [("raw_decode", [isz, C, list(shape), buf]) for (_k, _dt, isz, C, shape, buf, _d) in items]
    # encode correspondence on the valid ones
    ereqs = []
    for (kind, dt, isz, C, shape, buf, data) in items:
        if data is not None:
            X, Y, Z = shape
            ereqs.append(("raw_encode", [isz, C, [C, Z, Y, X], data]))
    replies = R.model.batch(reqs)
    ereplies = iter(R.model.batch(ereqs))
    for (kind, dt, isz, C, shape, buf, data), rep in zip(items, replies):
        enc = make_raw(dt, C)
        X, Y, Z = shape
        impl_raw = outcome_of(lambda: enc.decode(buf, shape))
        impl = raw_canon(impl_raw, isz)
        mo = model_outcome(rep)
        mod = ["ok", [list(mo[1][0]), isz, bytes(mo[1][1])]] if mo[0] == "ok" else mo
        case = {"codec": "raw", "kind": kind, "dt": dt, "C": C, "shape": shape, "buf": buf}
        R.case(case, nontrivial=len(buf) > 0)
        R.count(f"raw:{kind}:{impl[0]}")
        if impl != mod:
            R.disagree("raw decode vs raw_decode", case, c02._short(impl), c02._short(mod))
        exact = len(buf) == C * X * Y * Z * isz
        if impl[0] == "ok":
            a = impl_raw[1]
            if list(a.shape) != [C, Z, Y, X] or a.dtype != np.dtype(dt):
                R.violation("raw decoder returned an array of the wrong shape or dtype", case,
                            {"shape": list(a.shape), "dtype": str(a.dtype)})
            elif impl[1][2] != buf:
                R.violation("raw decoder returned other items than the file holds", case, {})
            if not exact:
                R.violation("raw decoder accepted a file of the wrong length", case, {"len": len(buf)})
        elif impl != ["FormatErr"]:
            R.violation("raw decoder raised something other than InvalidFormatError", case, {"impl": impl})
        elif exact:
            R.violation("valid raw data rejected", case, {"impl": impl})
        if data is not None:
            a = np.frombuffer(data, dtype=np.dtype(dt).newbyteorder("<")).reshape(C, Z, Y, X)
            nvalid[0] += 1
            form = RAW_FORMS[nvalid[0] % len(RAW_FORMS)]           # stratified
            if form == "big_endian":
                given = a.astype(a.dtype.newbyteorder(">"))
            elif form == "fortran":
                given = np.asfortranarray(a)
            elif form == "strided":
                big = np.zeros(tuple(2 * d + 1 for d in a.shape), dtype=a.dtype)
                given = big[1::2, 1::2, 1::2, 1::2]
                given[...] = a
            elif form == "transposed_view":
                given = np.ascontiguousarray(a.transpose(3, 2, 1, 0)).transpose(3, 2, 1, 0)
            else:
                given = a                                           # read-only C-ordered buffer
            case = dict(case, form=form)
            R.count("raw:encode_form:" + form)
            before = (given.dtype.str, given.shape, given.strides, given.tobytes())
            ie = outcome_of(lambda: bytes(enc.encode(given)))
            if (given.dtype.str, given.shape, given.strides, given.tobytes()) != before:
                R.violation("raw encode() modified the caller's array", case, {})
            me = model_outcome(next(ereplies))
            me = ["ok", bytes(me[1])] if me[0] == "ok" else me
            if ie != me:
                R.disagree("raw encode vs raw_encode", case, c02._short(ie), c02._short(me))
            if ie != ["ok", data]:
                R.violation("raw encoding is not the little-endian C-order items", case, {"impl": c02._short(ie)})


# ------------------------------------------------------------------ jpeg

def pil_oracle(buf):
    """What Pillow does with these bytes: the argument of the glue model."""
    import numpy as np
    import PIL.Image
    try:
        img = PIL.Image.open(io.BytesIO(buf))
    except Exception:  # noqa: BLE001 - the glue code catches Exception too
        return c02_atom("openfail"), None
    mode = img.mode
    w, h = img.size
    try:
        img.load()
    except Exception:  # noqa: BLE001 - the glue code catches Exception around np.asarray(img)
        return [mode.encode(), w, h, c02_atom("loadfail")], ("loadfail", mode)
    arr = np.asarray(img)
    bands = 1 if arr.ndim == 2 else arr.shape[2]
    if arr.dtype != np.uint8:
        return None, ("odd-dtype", mode)
    if arr.size > 40000:
        # a mutated header can announce a huge image; the glue model's list code is quadratic there
        return None, ("too-large", mode)
    return [mode.encode(), w, h, bands, arr.tobytes()], ("pixels", mode)


def c02_atom(s):
    from harness.common import Atom
    return Atom(s)


def make_jpeg(C, plane="xy", q=95):
    from neuroglancer_scripts import chunk_encoding as ce
    return ce.get_encoder({"data_type": "uint8", "num_channels": C}, {"encoding": "jpeg"},
                          {"jpeg_plane": plane, "jpeg_quality": q})


def run_jpeg(R, quick):
    import numpy as np
    import PIL.Image
    rng = R.rng
    items = []
    for _ in range(60 if quick else 200):
        C = rng.choice([1, 3])
        shape = [rng.choice([1, 2, 3, 8, 9, rng.randint(1, 12)]) for _ in range(3)]
        X, Y, Z = shape
        plane = rng.choice(["xy", "xz"])
        enc = make_jpeg(C, plane, rng.choice([1, 50, 95, 100]))
        style = rng.random()
        if style < 0.4:
            a = np.full((C, Z, Y, X), rng.randrange(256), dtype=np.uint8)
        else:
            a = np.array([rng.randrange(256) for _ in range(C * X * Y * Z)], dtype=np.uint8).reshape(C, Z, Y, X)
        buf = bytes(enc.encode(a))
        items.append(("valid", C, shape, buf, a))
        cuts = range(len(buf)) if not quick else sorted(set(
            [0, 1, 2, 3, 4, len(buf) - 1, len(buf) - 2, len(buf) - 3] + [rng.randrange(len(buf)) for _ in range(14)]))
        for n in cuts:
            items.append(("truncate", C, shape, buf[:n], None))
        for _ in range(12 if quick else 40):
            m = bytearray(buf)
            for _ in range(rng.randint(1, 4)):
                m[rng.randrange(len(m))] = rng.randrange(256)
            items.append(("mutate", C, shape, bytes(m), None))
        # targeted edits of the frame header (SOFn: marker, length, precision, height, width): absurd image
        # dimensions make Pillow refuse the file with errors that are not OSError (DecompressionBombError)
        for mk in (b"\xff\xc0", b"\xff\xc1", b"\xff\xc2"):
            pos = buf.find(mk)
            if pos >= 0 and pos + 9 <= len(buf):
                for fld, val in ((5, 0xFFFF), (7, 0xFFFF), (5, 0x4000), (7, 0), (5, 0)):
                    m = bytearray(buf)
                    m[pos + fld:pos + fld + 2] = val.to_bytes(2, "big")
                    if rng.random() < 0.5:       # both dimensions huge
                        m[pos + 5:pos + 9] = b"\xff\xff\xff\xff"
                    items.append(("sof-edit", C, shape, bytes(m), None))
                break
        items.append(("extend", C, shape, buf + bytes(rng.randrange(256) for _ in range(rng.randint(1, 9))), None))
        items.append(("other_channels", 4 - C, shape, buf, None))
        s2 = list(shape)
        s2[rng.randrange(3)] += 1
        items.append(("other_shape", C, s2, buf, None))
        # another container Pillow can open
        if rng.random() < 0.5:
            img = PIL.Image.fromarray(a.reshape(C, Z * Y, X)[0] if C == 1 else
                                      np.moveaxis(a.reshape(C, Z * Y, X), 0, -1))
            bio = io.BytesIO()
            img.save(bio, format=rng.choice(["png", "bmp", "gif" if C == 1 else "png"]))
            items.append(("other_format", C, shape, bio.getvalue(), None))
            cm = PIL.Image.new("CMYK", (X, Y * Z))
            bio = io.BytesIO()
            cm.save(bio, format="jpeg")
            items.append(("cmyk", C, shape, bio.getvalue(), None))
    for _ in range(100 if quick else 2000):
        n = rng.randrange(0, 300)
        items.append(("random", rng.choice([1, 3]), [rng.randint(1, 4) for _ in range(3)],
                      rng.choice([b"", b"\xff\xd8\xff\xe0", b"\xff\xd8"]) + bytes(rng.randrange(256) for _ in range(n)),
                      None))

    reqs, meta = [], []
    with warnings.catch_warnings():
        warnings.simplefilter("ignore")
        for (kind, C, shape, buf, a) in items:
            pil, info = pil_oracle(buf)
            meta.append(info)
            if pil is not None:
                reqs.append(("jpeg_decode", [C, list(shape), pil]))
        replies = iter(R.model.batch(reqs))
        for (kind, C, shape, buf, a), info in zip(items, meta):
            enc = make_jpeg(C)
            X, Y, Z = shape
            impl = c02.impl_arr(outcome_of(lambda: enc.decode(buf, shape)))
            case = {"codec": "jpeg", "kind": kind, "C": C, "shape": shape, "buf": buf}
            R.case(case, nontrivial=info is not None)
            R.count(f"jpeg:{kind}:{impl[0]}")
            if info is not None and info[0] in ("odd-dtype", "too-large"):
                R.count(f"jpeg:model_not_consulted:{info[0]}")
            else:
                mo = model_outcome(next(replies))
                mod = ["ok", [list(mo[1][0]), "uint8", bytes(mo[1][1])]] if mo[0] == "ok" else mo
                if impl != mod:
                    R.disagree("jpeg decode vs jpeg_decode (glue model fed with Pillow's answers)", case,
                               c02._short(impl), c02._short(mod))
            if impl[0] == "ok":
                if impl[1][0] != [C, Z, Y, X] or impl[1][1] != "uint8":
                    R.violation("jpeg decoder returned an array of the wrong shape or dtype", case,
                                {"impl": impl[1][:2]})
            elif impl != ["FormatErr"]:
                R.violation("jpeg decoder raised something other than InvalidFormatError", case,
                            {"impl": impl})
            if a is not None:
                if impl[0] != "ok":
                    R.violation("valid JPEG data rejected", case, {"impl": impl})
                elif info is not None and info[0] == "pixels" and info[1] == {1: "L", 3: "RGB"}[C]:
                    # lossy: compare with what Pillow decodes, rearranged per the documentation
                    img = np.asarray(PIL.Image.open(io.BytesIO(buf)))
                    ref = img.reshape(1, Z, Y, X) if C == 1 else np.moveaxis(img, -1, 0).reshape(3, Z, Y, X)
                    if impl[1][2] != ref.tobytes():
                        R.violation("jpeg decoder rearranged Pillow's pixels wrongly", case, {})


# ------------------------------------------------------------------ entry points

def run_regressions(R):
    """The inputs on which the decoders used to escape with struct.error / OSError."""
    dt, C, shape, blk, hx = REGRESSION_CSEG
    buf = bytes.fromhex(hx)
    enc = c02.make_encoder(dt, C, blk)
    impl = c02.impl_arr(outcome_of(lambda: enc.decode(buf, shape)))
    mod = c02.model_arr(R.model.call(*c02.dec_request(dt, C, blk, shape, buf)), dt)
    case = {"codec": "cseg", "kind": "regression", "dt": dt, "C": C, "shape": shape, "blk": blk, "buf": buf}
    R.case(case, nontrivial=True)
    R.count(f"cseg:regression:{impl[0]}")
    if impl != mod:
        R.disagree("cseg decode vs cseg_decode (regression input)", case, c02._short(impl), c02._short(mod))
    if impl[0] != "ok" and impl != ["FormatErr"]:
        R.violation("decoder raised something other than InvalidFormatError", case, {"impl": impl})
    C, shape, hx = REGRESSION_JPEG
    buf = bytes.fromhex(hx)
    with warnings.catch_warnings():
        warnings.simplefilter("ignore")
        enc = make_jpeg(C)
        impl = c02.impl_arr(outcome_of(lambda: enc.decode(buf, shape)))
    case = {"codec": "jpeg", "kind": "regression", "C": C, "shape": shape, "buf": buf}
    R.case(case, nontrivial=True)
    R.count(f"jpeg:regression:{impl[0]}")
    if impl[0] != "ok" and impl != ["FormatErr"]:
        R.violation("jpeg decoder raised something other than InvalidFormatError", case, {"impl": impl})


# ------------------------------------------------------------------ valid files of other writers

def foreign_encode(rng, dt, C, shape, blk, values, style):
    """A specification-conforming compressed_segmentation writer that shares nothing with the
    package's encoder and lays the file out differently: encoded values BEFORE the lookup table (as
    Neuroglancer's own compressor does) or after it, tables in arbitrary order and possibly with unused
    entries or more bits than necessary, 0-bit blocks whose (unused) values offset is 0 / the table
    offset / anything, gaps between the pieces, channels stored in reverse order.  [values] is in
    (c,z,y,x) order.  Returns the bytes."""
    X, Y, Z = shape
    bx, by, bz = blk
    gx, gy, gz = -(-X // bx), -(-Y // by), -(-Z // bz)
    nblk = gx * gy * gz
    wide = dt == "uint64"

    def entry_words(v):
        return [v & 0xFFFFFFFF, v >> 32] if wide else [v]
    chans = []
    for c in range(C):
        body = [rng.getrandbits(32) for _ in range(rng.choice([0, 0, 1, 3]))] if style["gaps"] else []
        header = []
        shared = {}
        for zb in range(gz):
            for yb in range(gy):
                for xb in range(gx):
                    vals = []
                    for dz in range(bz):
                        for dy in range(by):
                            for dx in range(bx):
                                z, y, x = zb * bz + dz, yb * by + dy, xb * bx + dx
                                vals.append(values[((c * Z + z) * Y + y) * X + x]
                                            if z < Z and y < Y and x < X else None)
                    labels = sorted({v for v in vals if v is not None})
                    if style["table_order"] == "shuffled":
                        rng.shuffle(labels)
                    elif style["table_order"] == "descending":
                        labels.reverse()
                    if style["extra_entries"] and rng.random() < 0.5:
                        labels += [rng.getrandbits(64 if wide else 32) for _ in range(rng.choice([1, 2]))]
                    need = next(b for b in (0, 1, 2, 4, 8, 16, 32) if 2 ** b >= len(labels))
                    bits = need
                    if style["wider_bits"] and rng.random() < 0.4:
                        bits = rng.choice([b for b in (1, 2, 4, 8, 16, 32) if b >= need])
                    pos = {v: i for i, v in enumerate(labels)}
                    idx = [pos[v] if v is not None else rng.randrange(min(len(labels), 2 ** bits)) for v in vals]
                    words = []
                    if bits:
                        vpw = 32 // bits
                        for k in range(0, len(idx), vpw):
                            w = 0
                            for sft, i in enumerate(idx[k:k + vpw]):
                                w |= i << (sft * bits)
                            words.append(w)
                    tw = [w for v in labels for w in entry_words(v)]
                    base = 2 * nblk

                    def put(ws):
                        if style["gaps"] and rng.random() < 0.3:
                            body.extend(rng.getrandbits(32) for _ in range(rng.choice([1, 2])))
                        off = base + len(body)
                        body.extend(ws)
                        return off
                    key = tuple(tw)
                    if style["values_first"]:
                        vo = put(words)
                        lo = shared[key] if (key in shared and style["share"]) else put(tw)
                    else:
                        lo = shared[key] if (key in shared and style["share"]) else put(tw)
                        vo = put(words)
                    shared[key] = lo
                    if bits == 0:
                        vo = rng.choice([0, lo, base + len(body), rng.randrange(base + len(body) + 1), 2 ** 32 - 1])
                    header += [lo | (bits << 24), vo]
        chans.append(header + body)
    order = list(range(C))
    if style["reverse_channels"]:
        order.reverse()
    pad0 = [rng.getrandbits(32) for _ in range(rng.choice([0, 2]))] if style["gaps"] else []
    offs = [0] * C
    data = list(pad0)
    for c in order:
        offs[c] = C + len(data)
        data += chans[c]
    return b"".join(struct.pack("<I", w) for w in offs + data)


FOREIGN_STYLES = [
    dict(values_first=True, table_order="sorted", extra_entries=False, wider_bits=False, gaps=False,
         share=False, reverse_channels=False),                      # Neuroglancer's compressor
    dict(values_first=True, table_order="sorted", extra_entries=False, wider_bits=False, gaps=False,
         share=True, reverse_channels=False),
    dict(values_first=False, table_order="shuffled", extra_entries=True, wider_bits=True, gaps=True,
         share=True, reverse_channels=True),
    dict(values_first=True, table_order="descending", extra_entries=True, wider_bits=True, gaps=True,
         share=False, reverse_channels=True),
    dict(values_first=False, table_order="sorted", extra_entries=False, wider_bits=False, gaps=False,
         share=True, reverse_channels=False),                       # the package's own layout
]


def far_table_file(dt, lut_words, label, values_words=None, C=1):
    """A legal single-voxel file (chunk 1x1x1, block 1x1x1, 0-bit block) whose lookup table sits
    [lut_words] 32-bit words into the channel, after a long run of padding."""
    wide = dt == "uint64"
    base = C
    total = base + lut_words + (2 if wide else 1)
    buf = bytearray(4 * total)
    for c in range(C):
        struct.pack_into("<I", buf, 4 * c, base)
    struct.pack_into("<II", buf, 4 * base, lut_words, lut_words if values_words is None else values_words)
    struct.pack_into("<Q" if wide else "<I", buf, 4 * (base + lut_words), label)
    return bytes(buf)


def run_foreign(R, quick):
    """Valid data must never be rejected, whoever wrote it."""
    import numpy as np
    rng = R.rng
    items = []
    k = 0
    for rep in range(10 if quick else 120):
        for style in FOREIGN_STYLES:            # stratified: every layout with both label types
            dt = ("uint32", "uint64")[(k + rep) % 2]
            k += 1
            C = rng.choice([1, 1, 2, 3])
            shape = [rng.randint(1, 5) for _ in range(3)]
            blk = [rng.choice([1, 2, 3, 4]) for _ in range(3)]
            vals = c02.gen_values(rng, dt, C, shape, blk, rng.choice([1, 2, 3, 5, 17]))
            buf = foreign_encode(rng, dt, C, shape, blk, vals, style)
            items.append(("foreign:" + ("values_first" if style["values_first"] else "table_first"),
                          dt, C, shape, blk, vals, buf, True))
    # table offsets that need bits 20..23 of the 24-bit field (bit 20 also through the model)
    for j, (lw, with_model) in enumerate([(2 ** 20 + 3, True), (2 ** 20, False), (2 ** 21 + 1, False),
                                          (2 ** 22 + 2 ** 20, False), (2 ** 23 + 5, False), (2 ** 24 - 3, False)]):
        dt = ("uint64", "uint32")[j % 2]
        label = (2 ** 53 + 1 + j) if dt == "uint64" else (2 ** 32 - 1 - j)
        items.append(("foreign:far_table", dt, 1, [1, 1, 1], [1, 1, 1], [label],
                      far_table_file(dt, lw, label), with_model))
    reqs = []
    for kind, dt, C, shape, blk, vals, buf, with_model in items:
        if with_model:
            reqs.append(c02.spec_request(dt, C, blk, shape, buf))
            reqs.append(c02.dec_request(dt, C, blk, shape, buf))
    rep = iter(R.model.batch(reqs))
    for kind, dt, C, shape, blk, vals, buf, with_model in items:
        X, Y, Z = shape
        a = c02.arr_of(dt, C, shape, vals)
        want = c02.canon_arr(a)
        case = {"codec": "cseg", "kind": kind, "dt": dt, "C": C, "shape": shape, "blk": blk,
                "buf": buf if len(buf) <= 4096 else "far_table_file(%r, %d, %d)" % (dt, (len(buf) // 4) - 1 - (2 if dt == "uint64" else 1), vals[0]),
                "values": vals if len(vals) <= 64 else None}
        R.case(case, nontrivial=True)
        R.count(kind)
        # harness self-check: the file really is what the format says (independent reader)
        try:
            ok = c02.spec_decode_py(buf, dt, C, shape, blk) == vals
        except ValueError:
            ok = False
        if not ok:
            R.violation("harness self-check: the foreign writer produced a file its own format reader rejects",
                        case, {})
            continue
        enc = c02.make_encoder(dt, C, blk)
        impl = c02.impl_arr(outcome_of(lambda: enc.decode(buf, shape)))
        if impl != ["ok", want]:
            R.violation("valid compressed_segmentation data written by another writer is rejected or decoded "
                        "wrongly", case, {"impl": c02._short(impl)})
        if with_model:
            wf, sd = next(rep)
            if str(wf) != "true" or not isinstance(sd, (bytes, bytearray)) or bytes(sd) != want[2]:
                R.violation("harness self-check: extracted validator / specification decoder disagree with the "
                            "foreign writer", case, {"well_formed": str(wf)})
            mod = c02.model_arr(next(rep), dt)
            if impl != mod:
                R.disagree("cseg decode vs cseg_decode (foreign layout)", case, c02._short(impl), c02._short(mod))


def run_jpeg_warning(R):
    """Pillow only WARNS (DecompressionBombWarning) about images between MAX_IMAGE_PIXELS and twice that
    limit and decodes them normally: such a chunk is valid data.  Instead of a 90-million-voxel chunk the
    limit is lowered in this process for a few ordinary chunks, under several warning filters of the
    caller (the decoder's behaviour must not depend on them)."""
    import numpy as np
    import PIL.Image
    rng = R.rng
    saved = PIL.Image.MAX_IMAGE_PIXELS
    try:
        for C in (1, 3):
            for filt in ("ignore", "always", "default", "error-for-others"):
                shape = [rng.randint(6, 12), rng.randint(6, 12), rng.randint(2, 4)]
                X, Y, Z = shape
                a = np.array([rng.randrange(256) for _ in range(C * X * Y * Z)], dtype=np.uint8).reshape(C, Z, Y, X)
                enc = make_jpeg(C)
                buf = bytes(enc.encode(a))
                PIL.Image.MAX_IMAGE_PIXELS = (X * Y * Z * 2) // 3          # pixels in (limit, 2*limit]
                with warnings.catch_warnings(record=True):
                    if filt == "error-for-others":
                        warnings.simplefilter("error")
                        warnings.simplefilter("ignore", PIL.Image.DecompressionBombWarning)
                    else:
                        warnings.simplefilter(filt)
                    impl = c02.impl_arr(outcome_of(lambda: enc.decode(buf, shape)))
                PIL.Image.MAX_IMAGE_PIXELS = saved
                case = {"codec": "jpeg", "kind": "bomb_warning:" + filt, "C": C, "shape": shape, "buf": buf,
                        "max_image_pixels": (X * Y * Z * 2) // 3}
                R.case(case, nontrivial=True)
                R.count(f"jpeg:bomb_warning:{impl[0]}")
                if impl[0] != "ok" or impl[1][0] != [C, Z, Y, X] or impl[1][1] != "uint8":
                    R.violation("valid JPEG data rejected (Pillow merely warns about its size)", case,
                                {"impl": c02._short(impl)})
    finally:
        PIL.Image.MAX_IMAGE_PIXELS = saved


def run_sessions(R, quick):
    """ONE decoder object per codec decodes valid chunk A, a rejected buffer, valid chunk B of the
    same shape, A again: every array handed out earlier must still hold its chunk afterwards."""
    import numpy as np
    import PIL.Image
    rng = R.rng
    for rep in range(6 if quick else 60):
        C = rng.choice([1, 3])
        shape = [rng.randint(1, 5) for _ in range(3)]
        X, Y, Z = shape
        n = C * X * Y * Z
        sessions = []
        # compressed_segmentation
        dt = rng.choice(["uint32", "uint64"])
        blk = [rng.choice([1, 2, 3, 8]) for _ in range(3)]
        enc = c02.make_encoder(dt, C, blk)
        arrs = [c02.arr_of(dt, C, shape, c02.gen_values(rng, dt, C, shape, blk, rng.choice([1, 2, 5]))) for _ in range(3)]
        sessions.append(("cseg", enc, [(bytes(enc.encode(a)), c02.canon_arr(a)[2]) for a in arrs], {"dt": dt, "blk": blk}))
        # raw
        rdt = rng.choice(list(RAW_TYPES))
        enc = make_raw(rdt, C)
        datas = [bytes(rng.randrange(256) for _ in range(n * RAW_TYPES[rdt])) for _ in range(3)]
        sessions.append(("raw", enc, [(d, d) for d in datas], {"dt": rdt}))
        # jpeg: expectation = Pillow's pixels rearranged as documented
        enc = make_jpeg(C)
        items = []
        for _ in range(3):
            a = np.array([rng.randrange(256) for _ in range(n)], dtype=np.uint8).reshape(C, Z, Y, X)
            b = bytes(enc.encode(a))
            img = np.asarray(PIL.Image.open(io.BytesIO(b)))
            ref = img.reshape(1, Z, Y, X) if C == 1 else np.moveaxis(img, -1, 0).reshape(3, Z, Y, X)
            items.append((b, ref.tobytes()))
        sessions.append(("jpeg", enc, items, {}))
        for codec, enc, items, extra in sessions:
            got = []
            with warnings.catch_warnings():
                warnings.simplefilter("ignore")
                for i in (0, 1, 2, 0, 1):
                    buf, want = items[i]
                    outcome_of(lambda: enc.decode(buf[:max(0, len(buf) - 3)], shape))   # error path in between
                    got.append((i, enc.decode(buf, shape)))
            case = dict({"codec": codec, "kind": "session", "C": C, "shape": shape,
                         "bufs": [b for b, _w in items]}, **extra)
            R.case(case, nontrivial=True)
            R.count(f"{codec}:session")
            for i, arr in got:
                if np.ascontiguousarray(arr).tobytes() != items[i][1]:
                    R.violation("an array returned by decode() is wrong after later decode() calls on the same "
                                "decoder object", dict(case, index=i), {})
                    break


def run(R):
    R.rule = RULE
    quick = R.tier == "quick"
    run_regressions(R)
    run_sessions(R, quick)
    run_foreign(R, quick)
    run_jpeg_warning(R)
    run_cseg(R, quick)
    run_raw(R, quick)
    run_jpeg(R, quick)
    R.notes.append("JPEG: Pillow/libjpeg internals are an oracle of the glue model (answers taken from the live "
                   "library on the same bytes); hangs or crashes inside the C library are not modelled")


def _bytes(v):
    if isinstance(v, str):
        return bytes.fromhex(v[1:] if v.startswith("x") else v)
    return bytes(v)


def _replay_correspondence(R, case, buf):
    """True iff model and implementation still differ on the recorded buffer."""
    shape, C, codec = case["shape"], case["C"], case.get("codec")
    with warnings.catch_warnings():
        warnings.simplefilter("ignore")
        if codec == "cseg":
            enc = c02.make_encoder(case["dt"], C, case["blk"])
            impl = c02.impl_arr(outcome_of(lambda: enc.decode(buf, shape)))
            mrep = R.model.call(*c02.dec_request(case["dt"], C, case["blk"], shape, buf))
            return impl != c02.model_arr(mrep, case["dt"])
        if codec == "raw":
            isz = RAW_TYPES[case["dt"]]
            enc = make_raw(case["dt"], C)
            impl = raw_canon(outcome_of(lambda: enc.decode(buf, shape)), isz)
            mo = model_outcome(R.model.call("raw_decode", [isz, C, list(shape), buf]))
            mod = ["ok", [list(mo[1][0]), isz, bytes(mo[1][1])]] if mo[0] == "ok" else mo
            return impl != mod
        enc = make_jpeg(C)
        impl = c02.impl_arr(outcome_of(lambda: enc.decode(buf, shape)))
        pil, _info = pil_oracle(buf)
        if pil is None:
            return False
        mo = model_outcome(R.model.call("jpeg_decode", [C, list(shape), pil]))
        mod = ["ok", [list(mo[1][0]), "uint8", bytes(mo[1][1])]] if mo[0] == "ok" else mo
        return impl != mod


def _replay_session(case):
    """True iff an array handed out by the decoder object differs, after the later calls, from what the
    same bytes decode to on a fresh decoder object."""
    import numpy as np
    bufs = [_bytes(b) for b in case["bufs"]]
    shape, C, codec = case["shape"], case["C"], case["codec"]

    def fresh():
        if codec == "cseg":
            return c02.make_encoder(case["dt"], C, case["blk"])
        return make_raw(case["dt"], C) if codec == "raw" else make_jpeg(C)
    with warnings.catch_warnings():
        warnings.simplefilter("ignore")
        try:
            want = [np.ascontiguousarray(fresh().decode(b, shape)).tobytes() for b in bufs]
            enc = fresh()
            got = []
            for i in (0, 1, 2, 0, 1):
                outcome_of(lambda: enc.decode(bufs[i][:max(0, len(bufs[i]) - 3)], shape))
                got.append((i, enc.decode(bufs[i], shape)))
        except Exception:  # noqa: BLE001
            return True
    return any(np.ascontiguousarray(a).tobytes() != want[i] for i, a in got)


def replay(R, payload):
    """True iff the recorded buffer still makes the decoder misbehave."""
    case = payload.get("case") or (payload.get("disagreements") or [{}])[0].get("case", {})
    if case.get("kind") == "session":
        return _replay_session(case)
    if str(case.get("kind", "")).startswith("bomb_warning"):
        import PIL.Image
        saved = PIL.Image.MAX_IMAGE_PIXELS
        try:
            PIL.Image.MAX_IMAGE_PIXELS = case["max_image_pixels"]
            with warnings.catch_warnings():
                warnings.simplefilter("ignore")
                enc = make_jpeg(case["C"])
                impl = c02.impl_arr(outcome_of(lambda: enc.decode(_bytes(case["buf"]), case["shape"])))
        finally:
            PIL.Image.MAX_IMAGE_PIXELS = saved
        return impl[0] != "ok"
    if "buf" not in case:
        return True
    if isinstance(case["buf"], str) and case["buf"].startswith("far_table_file("):
        dt_, lw_, label_ = eval(case["buf"][len("far_table_file"):])      # written by run_foreign only
        buf = far_table_file(dt_, lw_, label_)
        enc = c02.make_encoder(case["dt"], case["C"], case["blk"])
        impl = c02.impl_arr(outcome_of(lambda: enc.decode(buf, case["shape"])))
        return impl != ["ok", c02.canon_arr(c02.arr_of(case["dt"], 1, [1, 1, 1], [label_]))]
    buf = _bytes(case["buf"])
    if str(case.get("kind", "")).startswith("foreign") and case.get("values"):
        enc = c02.make_encoder(case["dt"], case["C"], case["blk"])
        impl = c02.impl_arr(outcome_of(lambda: enc.decode(buf, case["shape"])))
        want = c02.canon_arr(c02.arr_of(case["dt"], case["C"], case["shape"], case["values"]))
        return impl != ["ok", want]
    if payload.get("kind") == "broken-correspondence-or-proof":
        return _replay_correspondence(R, case, buf)
    shape = case["shape"]
    C = case["C"]
    X, Y, Z = shape
    codec = case.get("codec")
    with warnings.catch_warnings():
        warnings.simplefilter("ignore")
        if codec == "cseg":
            enc = c02.make_encoder(case["dt"], C, case["blk"])
            impl = c02.impl_arr(outcome_of(lambda: enc.decode(buf, shape)))
            want_dt = case["dt"]
        elif codec == "raw":
            enc = make_raw(case["dt"], C)
            impl = c02.impl_arr(outcome_of(lambda: enc.decode(buf, shape)))
            want_dt = case["dt"]
            if (impl[0] == "ok") != (len(buf) == C * X * Y * Z * RAW_TYPES[case["dt"]]):
                return True
        else:
            enc = make_jpeg(C)
            impl = c02.impl_arr(outcome_of(lambda: enc.decode(buf, shape)))
            want_dt = "uint8"
    if impl[0] == "ok":
        return impl[1][0] != [C, Z, Y, X] or impl[1][1] != want_dt
    return impl != ["FormatErr"]
