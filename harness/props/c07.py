"""C07 -- downscalers compute the documented block statistic exactly.

Correspondence: get_downscaler(method, options).downscale(chunk, factors) vs
coq/theories/Num/Downscale.v (stride_model / majority_model / avg_model),
compared bit-exactly (floats as raw IEEE bit patterns).
Oracle: extracted stride_spec / majority_spec / avg_spec (exact rational block
mean, nearest representable, half-to-even, saturating) and an independent
fractions.Fraction / collections.Counter restatement.
"""
import itertools
from collections import Counter
from fractions import Fraction

from harness.props import c11 as K

NG = ["uint8", "uint16", "uint32", "uint64", "float32"]
OUTSIDE = [None, 0.0, 1.5, 255.0, -3.0]

RULE = ("shapes 1..9 per spatial axis (odd, even, size 1), C 1..3; factors {1,2}^3 for all methods, "
        "1..4 per axis for stride/majority, unsupported ones (0, 3, 4 for average; 0, -1, wrong length "
        "for all); every Neuroglancer dtype with values from {0, 1, max-1, max, half-way pairs, random}; "
        "outside_value in {None, 0, 1.5, 255, -3}. non-trivial = some factor > 1 and the array has >= 2 "
        "distinct values")


def cdiv(a, b):
    return -(-a // b)


# ---------------------------------------------------------------- references

def ref_stride(vals, shape, f):
    C, Z, Y, X = shape
    fx, fy, fz = f
    out = []
    for c in range(C):
        for z in range(cdiv(Z, fz)):
            for y in range(cdiv(Y, fy)):
                for x in range(cdiv(X, fx)):
                    out.append(vals[((c * Z + z * fz) * Y + y * fy) * X + x * fx])
    return [C, cdiv(Z, fz), cdiv(Y, fy), cdiv(X, fx)], out


def ref_majority(vals, shape, f):
    C, Z, Y, X = shape
    fx, fy, fz = f
    out = []
    for c in range(C):
        for z in range(cdiv(Z, fz)):
            for y in range(cdiv(Y, fy)):
                for x in range(cdiv(X, fx)):
                    blk = [vals[((c * Z + zz) * Y + yy) * X + xx]
                           for zz in range(z * fz, min(Z, z * fz + fz))
                           for yy in range(y * fy, min(Y, y * fy + fy))
                           for xx in range(x * fx, min(X, x * fx + fx))]
                    cnt = Counter(blk)
                    best = max(cnt.values())
                    out.append(min(v for v, n in cnt.items() if n == best))
    return [C, cdiv(Z, fz), cdiv(Y, fy), cdiv(X, fx)], out


def ref_blocks(qs, shape, f, outside):
    """exact contributors (with padding) of every output voxel"""
    C, Z, Y, X = shape
    fx, fy, fz = f
    out = []
    for c in range(C):
        for z in range(cdiv(Z, fz)):
            for y in range(cdiv(Y, fy)):
                for x in range(cdiv(X, fx)):
                    blk = []
                    for zz in range(z * fz, z * fz + fz):
                        for yy in range(y * fy, y * fy + fy):
                            for xx in range(x * fx, x * fx + fx):
                                if zz < Z and yy < Y and xx < X:
                                    blk.append(qs[((c * Z + zz) * Y + yy) * X + xx])
                                elif outside is None:
                                    blk.append(qs[((c * Z + min(zz, Z - 1)) * Y + min(yy, Y - 1)) * X
                                                  + min(xx, X - 1)])
                                else:
                                    blk.append(outside)
                    out.append(blk)
    return [C, cdiv(Z, fz), cdiv(Y, fy), cdiv(X, fx)], out


def f64_exact(q):
    """is the rational exactly a float64 (finite)?"""
    try:
        return Fraction(float(q)) == q
    except OverflowError:
        return False


def pipeline_exact(blk, f):
    """Would every float64 operation of the pairwise z/y/x pipeline be exact on
    this block (contributors in zz, yy, xx order)?  Classification only."""
    fx, fy, fz = f
    vals = list(blk)
    if not all(f64_exact(v) for v in vals):
        return False
    # axis order in blk: z outer, y, x inner
    dims = [fz, fy, fx]
    arr = vals
    for ax in range(3):
        if dims[ax] == 2:
            # combine along axis ax
            inner = 1
            for d in dims[ax + 1:]:
                inner *= d
            outer = len(arr) // (2 * inner)
            new = []
            for o in range(outer):
                for k in range(inner):
                    s = arr[o * 2 * inner + k] + arr[o * 2 * inner + inner + k]
                    if not f64_exact(s) or not f64_exact(s / 2):
                        return False
                    new.append(s / 2)
            arr = new
            dims[ax] = 1
    return True


# ---------------------------------------------------------------- generators

def gen_values(rng, dt, n, mode):
    """raw values (ints / float32 bit patterns) for an array of n voxels"""
    if dt == "float32":
        pool = [0.0, 1.0, 0.5, 1.5, 2.5, 255.0, 3.4028234663852886e38, -3.4028234663852886e38,
                1.0 + 2.0 ** -23, 2.0 ** -23, 2.0 ** -100, 1e-45, -1.0, 16777216.0, 16777217.0,
                0.1, 1e30, -1e30, 1e-30, 65504.0]
        if mode == "special":
            sp = [float("inf"), float("-inf"), float("nan"), -0.0, 0.0, 1e-45, 1.1754942e-38, 5.9e-39,
                  3.4028234663852886e38, -3.4028234663852886e38, 1.0, -2.5]
            run_ = []
            while len(run_) < n:            # runs of one value, so that whole blocks are +inf / -inf
                run_ += [K.f32_bits(rng.choice(sp))] * rng.choice([1, 1, 2, 4, 8, 16])
            return [K.canon("float32", b) for b in run_[:n]]
        if mode == "labels":
            pool = pool[:rng.randrange(2, 6)]
        if mode == "random":
            return [K.f32_bits(rng.uniform(-1, 1) * 2.0 ** rng.randrange(-30, 60)) for _ in range(n)]
        if mode == "smallint":
            return [K.f32_bits(float(rng.randrange(0, 2 ** rng.choice([1, 8, 16, 24])))) for _ in range(n)]
        return [K.f32_bits(rng.choice(pool)) for _ in range(n)]
    lo, hi = K.irange(dt)
    edge = [0, 1, hi - 1, hi, hi // 2, hi // 2 + 1, 2, 3]
    if dt == "uint64":
        edge += [2 ** 53, 2 ** 53 + 1, 2 ** 53 - 1, 2 ** 63, 2 ** 64 - 1024, 2 ** 64 - 1025, 2 ** 50 - 1,
                 2 ** 52 + 1]
    if mode == "edge":
        return [rng.choice(edge) for _ in range(n)]
    if mode == "labels":
        lab = [rng.choice(edge + [rng.randrange(lo, hi + 1)]) for _ in range(rng.randrange(1, 5))]
        return [rng.choice(lab) for _ in range(n)]
    if mode == "halfway":
        # pairs whose mean is x.5: alternate v, v+1
        v = rng.choice([0, 1, 2, hi - 1, hi - 2, rng.randrange(lo, hi)])
        return [min(hi, v + (k % 2 if rng.random() < 0.8 else rng.randrange(3))) for k in range(n)]
    if mode == "smallint":
        return [rng.randrange(0, min(hi, 2 ** 16) + 1) for _ in range(n)]
    if dt == "uint64" and rng.random() < 0.5:
        return [rng.randrange(0, 2 ** 50) for _ in range(n)]
    return [rng.randrange(lo, hi + 1) for _ in range(n)]


def f32_key(b):
    """order-preserving integer key of a float32 bit pattern (no NaN, no -0.0)"""
    return b if b < 2 ** 31 else -(b - 2 ** 31)


def f32_unkey(k):
    return k if k >= 0 else (-k) + 2 ** 31


def make_array(np, rng, dt, raws, shape):
    a = K.to_array(np, dt, raws, shape)
    lay = rng.choice(["contig", "contig", "fortran", "view"])
    if lay == "fortran":
        return np.asfortranarray(a), lay
    if lay == "view":
        base = np.zeros(tuple(2 * s for s in shape), dtype=a.dtype)
        v = base[::2, 1::2, ::2, 1::2]
        v[...] = a
        return v, lay
    return a, lay


# ---------------------------------------------------------------- one case

def pipeline_float(blk, f):
    """value of the pairwise z/y/x pipeline in IEEE double arithmetic (Python
    floats), contributors in zz, yy, xx order.  Classification only."""
    fx, fy, fz = f
    dims = [fz, fy, fx]
    arr = [float(v) for v in blk]          # int/Fraction -> double, correctly rounded
    for ax in range(3):
        if dims[ax] == 2:
            inner = 1
            for d in dims[ax + 1:]:
                inner *= d
            outer = len(arr) // (2 * inner)
            arr = [0.5 * (arr[o * 2 * inner + k] + arr[o * 2 * inner + inner + k])
                   for o in range(outer) for k in range(inner)]
            dims[ax] = 1
    return arr[0]


def avg_region(dt, blk, f, got, want):
    """A deviation from the exact mean is a known finding only when some float64
    operation of the pipeline is inexact AND the result is exactly what the
    float64 pipeline value gives after correct rounding and saturation
    (so a wrap-around or a wrong rounding mode is never excused)."""
    if dt == "uint64" and all(v < 2 ** 49 for v in blk if v.denominator == 1):
        return None       # Downscale.avg_uint64_guard holds: proved exact (C07_avg_exact_on_guard)
    if dt not in ("uint64", "float32") or pipeline_exact(blk, f):
        return None
    pv = pipeline_float(blk, f)
    if dt == "uint64":
        if got == K.ref_nearest("uint64", Fraction(pv)):
            return "avg-uint64-float64-precision"
        return None
    if got == K.f32_bits(pv):               # struct packs with round-to-nearest-even
        return "avg-float32-double-rounding"
    return None


def base_method(method):
    """'auto:image' -> average, 'auto:segmentation' -> stride (get_downscaler's "auto");
    an 'argv:' prefix means: configured through add_argparse_options, the documented recipe"""
    if method.startswith("argv:"):
        method = method[5:]
    return {"auto:image": "average", "auto:segmentation": "stride"}.get(method, method)


def exact_or_float(dt, b):
    """exact value of a raw voxel; non-finite float32 voxels as Python floats (inf, -inf, nan)"""
    if dt == "float32" and not K.raw_is_finite(dt, b):
        return K.bits_f32(b)
    return K.exact(dt, b)


def run_case(R, np, method, dt, shape, f, outside, raws, mrep, sreps, record=True, pool=None, group="",
             prior=None):
    """One downscale call.  pool: {key: [downscaler object, descriptors of its last
    calls]} -- ONE object per (method, options, group) is used for all the cases
    of a run, whatever their dtype, as a script looping over datasets would do;
    the descriptors travel with the case so that a replay repeats the history.
    Returns the number of problems found."""
    from harness.common import outcome_of, model_outcome
    from neuroglancer_scripts.downscaling import get_downscaler
    rng = R.rng
    problems = 0
    case = {"method": method, "dtype": dt, "shape": list(shape), "factors": list(f),
            "outside": outside, "values": raws}
    if pool is None:
        pool = {}
    arr, lay = make_array(np, rng, dt, raws, shape)
    before = K.from_array(np, arr)
    call_method = method
    method = base_method(method)
    opts = {"outside_value": outside} if method == "average" else {}
    if method == "average" and outside is None and len(raws) % 2:
        opts = {}                     # a missing option means edge padding, too

    def make():
        if call_method.startswith("argv:"):
            # the documented recipe: add_argparse_options + get_downscaler(method, info, vars(args))
            import argparse
            from neuroglancer_scripts.downscaling import add_argparse_options
            name = call_method[5:]
            parser = argparse.ArgumentParser()
            add_argparse_options(parser)
            argv = ["--downscaling-method", "auto" if name.startswith("auto:") else name]
            if outside is not None:
                argv += ["--outside-value",
                         str(int(outside)) if float(outside).is_integer() else repr(float(outside))]
            args = parser.parse_args(argv)
            info = {"type": name[5:]} if name.startswith("auto:") else None
            return get_downscaler(args.downscaling_method, info, vars(args))
        if call_method.startswith("auto:"):
            return get_downscaler("auto", info={"type": call_method[5:]}, options=opts)
        return get_downscaler(method, options=opts)
    key = (call_method, repr(outside), bool(opts) or method != "average", group)
    if key not in pool:
        ds_new = make()
        for pc in (prior or []):          # replay: repeat what this object had processed before
            try:
                with np.errstate(all="ignore"):
                    ds_new.downscale(K.to_array(np, pc["dtype"], pc["values"], tuple(pc["shape"])),
                                     tuple(pc["factors"]))
            except Exception:  # noqa: BLE001
                pass
        pool[key] = [ds_new, list(prior or [])]
    ds, hist = pool[key]
    if hist:
        case["prior"] = list(hist)
    hist.append({"dtype": dt, "shape": list(shape), "factors": list(f), "values": raws})
    del hist[:-2]
    kept = []

    def call():
        with np.errstate(all="ignore"):
            res = ds.downscale(arr, tuple(f))
        kept.append(res)
        return [res.dtype.name, list(res.shape), K.from_array(np, res)]
    impl = outcome_of(call)
    if kept and impl[0] == "ok" and "kept" in pool:
        pool["kept"].append((kept[0], impl[1][2], case))
    if K.from_array(np, arr) != before:
        R.violation("downscale modified its input", case, {})
        problems += 1
    mod = model_outcome(mrep)
    if record:
        R.count(f"{method}:{impl[0] if impl[0] == 'ok' else impl[-1]}")
        R.count(f"{method}:layout:{lay}")
    valid_f = (len(f) == 3 and all(isinstance(x, int) and x >= 1 for x in f)
               and (method != "average" or all(x in (1, 2) for x in f)))
    if impl[0] != "ok":
        if mod != impl:
            R.disagree(f"{method}: outcome", case, impl, mod)
            problems += 1
        if valid_f:
            R.violation("supported factors rejected / crashed", case, {"impl": impl})
            problems += 1
        elif impl != ["Crash", "NotImplementedError"]:
            R.violation("unsupported factors not rejected with NotImplementedError", case, {"impl": impl})
            problems += 1
        return problems
    if not valid_f:
        R.violation("unsupported factors accepted", case, {"impl": impl[1][:2]})
        return problems + 1
    dtn, shp, got = impl[1]
    if method == "majority" and dt == "float32":
        got_cmp = [f32_key(b) for b in got]
    else:
        got_cmp = got
    if mod[0] != "ok" or [shp, got_cmp] != [mod[1][0], [K.canon(dt, b) if method == "average" else b
                                                        for b in mod[1][1]]]:
        R.disagree(f"{method}: result vs model", case, [shp, got_cmp][:2], mod)
        problems += 1
    # ---- property
    want_shape = [shape[0], cdiv(shape[1], f[2]), cdiv(shape[2], f[1]), cdiv(shape[3], f[0])]
    if shp != want_shape or dtn != dt:
        R.violation("shape is not ceil(size/factor) or dtype changed", case,
                    {"shape": shp, "dtype": dtn, "want_shape": want_shape, "want_dtype": dt})
        return problems + 1
    if method == "stride":
        _, want = ref_stride(raws, shape, f)
        spec = sreps[0][1]
        if spec != want:
            R.violation("extracted stride_spec disagrees with the Python restatement (harness self-check)",
                        case, {})
            problems += 1
        if got != want:
            R.violation("stride: output voxel is not the first voxel of its block", case,
                        {"impl": got[:16], "spec": want[:16]})
            problems += 1
    elif method == "majority":
        keys = [f32_key(b) for b in raws] if dt == "float32" else raws
        _, want = ref_majority(keys, shape, f)
        if sreps and sreps[0][0] != want:
            R.violation("extracted majority_spec disagrees with the Python restatement (harness self-check)",
                        case, {"spec": sreps[0][0][:8], "ref": want[:8]})
            problems += 1
        if got_cmp != want:
            R.violation("majority: output is not the most frequent label (smallest on ties)", case,
                        {"impl": got_cmp[:16], "spec": want[:16]})
            problems += 1
    else:
        qs = [exact_or_float(dt, b) for b in raws]
        oq = None if outside is None else Fraction(outside)
        _, blocks = ref_blocks(qs, shape, f, oq)
        spec = sreps[0][1] if sreps else None
        for k, blk in enumerate(blocks):
            special = [v for v in blk if isinstance(v, float)]
            if special:
                # non-finite contributors: a block of +inf (or -inf) voxels has the mean +inf
                # (-inf), which float32 holds exactly; NaN or both signs: no claim
                if any(v != v for v in special) or len({v for v in special}) > 1:
                    continue
                w = 0x7F800000 if special[0] > 0 else 0xFF800000
                if got[k] != w:
                    R.violation("average of a block with infinite voxels is not that infinity "
                                "(outside [min, max] of its contributors)", case,
                                {"index": k, "impl": got[k], "spec": w})
                    problems += 1
                    break
                continue
            q = sum(blk) / len(blk)
            want = K.ref_nearest(dt, q)
            if spec is not None and spec[k] != want:
                R.violation("extracted avg_spec disagrees with the Fraction restatement (harness self-check)",
                            case, {"index": k, "spec": spec[k], "ref": want})
                problems += 1
                break
            g = got[k]
            if dt == "float32" and {g, want} == {0, 0x80000000}:
                continue
            ok = (g == want)
            if ok and not (min(blk) <= K.exact(dt, g) <= max(blk)):
                R.violation("average outside [min, max] of its contributors", case, {"index": k, "impl": g})
                problems += 1
            if not ok:
                region = avg_region(dt, blk, f, g, want)
                if region and any(fd["id"] == region for fd in R.findings):
                    R.known(region)
                    if record:
                        R.count("known:" + region)
                else:
                    R.violation("average is not the exact block mean rounded half-to-even", case,
                                {"index": k, "impl": g, "spec": want, "mean": str(q)})
                    problems += 1
                    break
    return problems


def model_requests(method, dt, shape, f, outside, raws):
    """(model request, [spec requests])"""
    from harness.common import Atom
    method = base_method(method)
    if method == "average":
        ov = [] if outside is None else [K.f64_bits(float(outside))]
        req = ("average", [Atom(dt), ov, list(f), list(shape), raws])
        finite = all(K.raw_is_finite(dt, b) for b in raws)
        qs = [K.exact(dt, b) for b in raws] if finite else []
        oq = [] if outside is None else [[Fraction(outside).numerator, Fraction(outside).denominator]]
        ok_f = len(f) == 3 and all(x in (1, 2) for x in f) and finite
        spec = [("avg_spec", [Atom(dt), oq, list(f), list(shape),
                              [[q.numerator, q.denominator] for q in qs]])] if ok_f else []
        return req, spec
    # majority needs the order of float32 labels (an order-preserving key); striding only
    # moves bit patterns (NaN, -0.0 and infinities included)
    vals = [f32_key(b) for b in raws] if dt == "float32" and method == "majority" else raws
    ok_f = len(f) == 3 and all(isinstance(x, int) and x >= 1 for x in f)
    if ok_f and method == "majority" and f[0] * f[1] * f[2] > 4096:
        ok_f = False      # the extracted oracle majority_ref is quadratic in the block size
    spec = [(method + "_spec", [list(f), list(shape), vals])] if ok_f else []
    return (method, [list(f), list(shape), vals]), spec


def gen_cases(R):
    rng = R.rng
    quick = R.tier == "quick"
    cases = []
    sizes = [1, 2, 3, 4, 5, 6, 7, 8, 9]

    def shape():
        return (rng.randrange(1, 4), rng.choice(sizes), rng.choice(sizes), rng.choice(sizes))

    def small_shape():
        sh = [rng.randrange(1, 3), rng.randrange(1, 6), rng.randrange(1, 6), rng.randrange(1, 6)]
        if rng.random() < 0.25:            # one long axis (10..33): more blocks per axis
            sh[rng.randrange(1, 4)] = rng.randrange(10, 34)
        return tuple(sh)
    n_avg = 1600 if quick else 40000
    n_sm = 900 if quick else 25000
    # averaging: all 8 factor triples x 5 dtypes x 5 outside values, cycling
    combos = list(itertools.product(itertools.product([1, 2], repeat=3), NG, OUTSIDE))
    rng.shuffle(combos)
    for k in range(n_avg):
        f, dt, ov = combos[k % len(combos)]
        sh = shape() if rng.random() < 0.4 else small_shape()
        mode = rng.choice(["edge", "halfway", "random", "smallint", "labels"])
        n = sh[0] * sh[1] * sh[2] * sh[3]
        cases.append(("average", dt, sh, list(f), ov, gen_values(rng, dt, n, mode), mode))
    # exhaustive small shapes for averaging uint8, factors (2,2,2)
    for sh in itertools.product([1], [1, 2, 3], [1, 2, 3], [1, 2, 3]):
        for ov in (None, 1.5):
            n = sh[1] * sh[2] * sh[3]
            cases.append(("average", "uint8", sh, [2, 2, 2], ov, gen_values(rng, "uint8", n, "halfway"), "halfway"))
    for method in ("stride", "majority"):
        for k in range(n_sm):
            dt = NG[k % 5]
            f = [rng.randrange(1, 5) for _ in range(3)] if rng.random() < 0.7 else \
                [rng.choice([1, 2]) for _ in range(3)]
            sh = shape() if (method == "stride" or rng.random() < 0.3) else small_shape()
            mode = "labels" if method == "majority" and rng.random() < 0.8 else rng.choice(["edge", "random"])
            n = sh[0] * sh[1] * sh[2] * sh[3]
            raws = gen_values(rng, dt, n, mode)
            if dt == "float32":
                raws = [0 if b == 0x80000000 else b for b in raws]
            cases.append((method, dt, sh, f, None, raws, mode))
    # unsupported factors
    badf = [[0, 1, 1], [1, 0, 2], [2, 2, 0], [-1, 1, 1], [1, 1], [1, 1, 1, 1], [3, 1, 1], [2, 4, 2],
            [1, 2, 3], [4, 4, 4], [2, 2, -2]]
    for method in ("average", "stride", "majority"):
        for f in badf:
            dt = rng.choice(NG)
            sh = small_shape()
            n = sh[0] * sh[1] * sh[2] * sh[3]
            raws = gen_values(rng, dt, n, "edge")
            if dt == "float32":
                raws = [0 if b == 0x80000000 else b for b in raws]
            cases.append((method, dt, sh, f, rng.choice(OUTSIDE) if method == "average" else None, raws, "badfactor"))
    # special float32 voxels (inf, -inf, NaN, -0.0, denormals, FLT_MAX): averaging and striding
    for k in range(60 if quick else 2500):
        sh = small_shape()
        n = sh[0] * sh[1] * sh[2] * sh[3]
        if k % 4:
            f, ov = list(rng.choice(list(itertools.product([1, 2], repeat=3)))), rng.choice(OUTSIDE)
            cases.append(("average", "float32", sh, f, ov, gen_values(rng, "float32", n, "special"), "special"))
        else:
            cases.append(("stride", "float32", sh, [rng.randrange(1, 4) for _ in range(3)], None,
                          gen_values(rng, "float32", n, "special"), "special"))
    for sh, f in (((1, 2, 2, 2), [2, 2, 2]), ((1, 1, 1, 4), [2, 1, 1]), ((2, 3, 3, 3), [2, 2, 2])):
        n = sh[0] * sh[1] * sh[2] * sh[3]
        for v in (float("inf"), float("-inf")):
            cases.append(("average", "float32", sh, f, None, [K.f32_bits(v)] * n, "special"))
    # majority blocks above 4096 voxels (arbitrary integer factors are accepted): the label on
    # the even sub-lattice differs from the majority label
    def lattice_labels(sh, a, b_):
        return [a if (z % 2 == 0 and y % 2 == 0 and x % 2 == 0) else b_
                for _c in range(sh[0]) for z in range(sh[1]) for y in range(sh[2]) for x in range(sh[3])]
    for sh, f in (((1, 17, 17, 16), [16, 17, 17]), ((1, 18, 17, 33), [16, 17, 17]),
                  ((1, 2, 65, 64), [64, 64, 2]), ((1, 16, 16, 17), [17, 16, 16])):
        cases.append(("majority", "uint8", sh, f, None, lattice_labels(sh, 5, 3), "large-block"))
        cases.append(("stride", "uint16", sh, f, None, lattice_labels(sh, 7, 65535), "large-block"))
    # the downscaler configured THROUGH THE PARSER (add_argparse_options + get_downscaler(method,
    # info, vars(args))), with outside values that need more than 24 bits or are not dyadic
    for k, ov in enumerate([16777217.0, 2.0 ** 31 + 1, 0.1, 1.5, None, 16777217.0, 2.0 ** 31 + 1, 0.1,
                            255.0, 4294967295.0]):
        for dt in (("uint32", "uint64") if ov is not None and ov > 70000 else ("uint8", "uint16", "uint32", "float32")):
            sh = (1, 1 + 2 * (k % 2), 3, 5)
            n = sh[0] * sh[1] * sh[2] * sh[3]
            hi = K.irange(dt)[1] if dt != "float32" else None
            if dt == "float32":
                raws = [K.f32_bits(float(j % 7) + 0.25 * (j % 3)) for j in range(n)]
            else:
                raws = [min(hi, (j * 2654435761 + k) % 4294967296) if dt in ("uint32", "uint64") else (j * 37 + k) % (hi + 1)
                        for j in range(n)]
            cases.append(("argv:average", dt, sh, [2, 2, 2] if k % 3 else [2, 1, 2], ov, raws, "argv"))
    for m_ in ("argv:majority", "argv:stride", "argv:auto:image", "argv:auto:segmentation"):
        sh = (1, 3, 4, 5)
        cases.append((m_, "uint16", sh, [2, 2, 1] if "image" in m_ else [2, 3, 1], 1.5 if "image" in m_ else None,
                      [(j * 91) % 65536 for j in range(60)], "argv"))
    # ONE downscaler object across chunks of different data types, in several orders:
    # the later chunks hold values the earlier types cannot represent and fractional means
    def seq_values(dt, n):
        if dt == "float32":
            base = [1.5, 2.25, 300.5, 70000.25, 0.5, 3.0e9, 127.5, 7.0]
            return [K.f32_bits(base[k % len(base)]) for k in range(n)]
        hi = K.irange(dt)[1]
        base = [1, 2, hi, hi - 1, 255, 256, 3000, 65535, 65536, 70001, 7, 4]
        return [min(hi, base[k % len(base)]) for k in range(n)]
    orders = [NG, NG[::-1], ["float32", "uint8", "uint64", "uint16", "uint32"],
              ["uint16", "uint8", "float32", "uint8", "uint32", "uint64"]]
    for oi, order in enumerate(orders):
        for method in ("average", "auto:image", "majority", "stride"):
            for ov in ((None, 1.5) if base_method(method) == "average" else (None,)):
                for k, dt in enumerate(order):
                    sh = (1, 2, 2 + (k % 2), 4)
                    cases.append((method, dt, sh, [2, 2, 1] if k % 2 else [2, 1, 2], ov,
                                  seq_values(dt, sh[1] * sh[2] * sh[3]), f"seq{oi}"))
    # get_downscaler("auto"): image -> average, segmentation -> stride
    for k in range(40 if quick else 1500):
        dt = NG[k % 5]
        sh = small_shape()
        n = sh[0] * sh[1] * sh[2] * sh[3]
        if k % 2:
            cases.append(("auto:image", dt, sh, [rng.choice([1, 2]) for _ in range(3)], rng.choice(OUTSIDE),
                          gen_values(rng, dt, n, rng.choice(["edge", "halfway", "smallint"])), "auto"))
        else:
            raws = gen_values(rng, dt, n, "edge")
            if dt == "float32":
                raws = [0 if b == 0x80000000 else b for b in raws]
            cases.append(("auto:segmentation", dt, sh, [rng.randrange(1, 4) for _ in range(3)], None, raws, "auto"))
    # the recorded witnesses of the findings
    cases.append(("average", "uint64", (1, 1, 1, 2), [2, 1, 1], None, [2 ** 64 - 1, 2 ** 64 - 1], "witness"))
    cases.append(("average", "uint64", (1, 1, 1, 2), [2, 1, 1], None, [2 ** 64 - 1, 2 ** 64 - 1023], "witness"))
    cases.append(("average", "uint64", (1, 1, 1, 2), [2, 1, 1], None, [2 ** 53 + 1, 2 ** 53 + 1], "witness"))
    cases.append(("average", "float32", (1, 1, 2, 2), [2, 2, 1], None,
                  [K.f32_bits(1.0 + 2.0 ** -23), K.f32_bits(0.0), K.f32_bits(1.0), K.f32_bits(2.0 ** -100)],
                  "witness"))
    return cases


def run(R):
    import numpy as np
    R.rule = RULE
    cases = gen_cases(R)
    reqs = []
    index = []
    for (method, dt, sh, f, ov, raws, _mode) in cases:
        req, spec = model_requests(method, dt, sh, f, ov, raws)
        index.append((len(reqs), len(spec)))
        reqs.append(req)
        reqs += spec
    # batch in slices so that one huge stdin is avoided
    reps = []
    step = 400
    for s in range(0, len(reqs), step):
        reps += R.model.batch(reqs[s:s + step])
    pool = {"kept": []}
    for (method, dt, sh, f, ov, raws, mode), (pos, ns) in zip(cases, index):
        mrep = reps[pos]
        sreps = reps[pos + 1: pos + 1 + ns]
        run_case(R, np, method, dt, sh, f, ov, raws, mrep, sreps, pool=pool,
                 group=mode if mode.startswith("seq") else "")
        nontriv = len(f) == 3 and any(x > 1 for x in f if isinstance(x, int)) and len(set(raws)) >= 2
        R.case({"method": method, "dtype": dt, "shape": list(sh), "factors": f, "outside": ov,
                "values": raws[:32]}, nontrivial=nontriv)
        R.count(f"dtype:{method}:{dt}")
        R.count(f"values:{mode}")
        R.count("factors:" + ",".join(map(str, f)) if base_method(method) == "average" else f"factors:{method}")
        R.count(f"outside:{ov}" if base_method(method) == "average" else "outside:n/a")
        for d in sh[1:]:
            R.count("axis-size:" + ("1" if d == 1 else "odd" if d % 2 else "even"))
        R.traces += len(raws)
    # results handed out earlier must not have been touched by later calls
    for res, snap, c in pool["kept"]:
        if K.from_array(np, res) != snap:
            R.violation("a result returned earlier was changed by a later call on the same downscaler", c,
                        {"was": snap[:8], "now": K.from_array(np, res)[:8]})
            break
    R.extra["downscaler_objects"] = len(pool) - 1
    # the extracted guard of the uint64 averaging findings against the harness's predicate
    u64 = [c for c in cases if base_method(c[0]) == "average" and c[1] == "uint64"]
    from harness.common import Atom
    greps = R.model.batch([("avg_guard", [Atom("uint64"), c[5]]) for c in u64])
    for c, g in zip(u64, greps):
        if (str(g) == "true") != all(v < 2 ** 49 for v in c[5]):
            R.violation("extracted avg_uint64_guard and the harness's predicate disagree (harness self-check)",
                        {"values": c[5][:8]}, {"extracted": str(g)})
    R.notes.append("majority/stride on float32 exchange an order-preserving integer key of the bit "
                   "pattern; -0.0 and NaN labels are not generated")
    R.notes.append("outside_value is passed as a Python float, as --outside-value type=float does")


def replay(R, payload):
    import numpy as np
    case = payload.get("case", {})
    if "method" not in case:
        return True
    method, dt, sh, f, ov, raws = (case["method"], case["dtype"], tuple(case["shape"]), case["factors"],
                                   case["outside"], case["values"])
    req, spec = model_requests(method, dt, sh, f, ov, raws)
    reps = R.model.batch([req] + spec)
    n = run_case(R, np, method, dt, sh, f, ov, raws, reps[0], reps[1:], record=False, prior=case.get("prior"))
    return bool(n or R.violations or R.disagreements)
