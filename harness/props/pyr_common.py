"""Shared helpers of the C08 / C06 harnesses (scale generator and pyramid
tiling): exact float transport, the in-memory duck-typed chunk reader/writer,
the np.empty poisoning proxy, the independent whole-level reference
downscalers, and Python restatements of the geometry predicates."""
import copy
from fractions import Fraction

import numpy as np

from harness.common import Atom, classify_exception

ONE = Fraction(1)


# ------------------------------------------------------------------ floats

def me_of(x):
    """float64 or int -> exact (m, e) with value m * 2^e, m > 0."""
    if isinstance(x, int):
        return [x, 0]
    n, d = float(x).as_integer_ratio()
    return [n, -(d.bit_length() - 1)]


def frac_of_me(v):
    m, e = v
    return Fraction(m) * (Fraction(2) ** e)


def frac(x):
    return Fraction(x)


# ------------------------------------------------------------------ outcomes

def outcome_bc(fn, *a, **k):
    """outcome_of, with NumPy's 'could not broadcast' ValueError mapped to the
    model's BroadcastError class."""
    try:
        return ["ok", fn(*a, **k)]
    except ValueError as exc:
        if "broadcast" in str(exc):
            return ["Crash", "BroadcastError"]
        return classify_exception(exc)
    except Exception as exc:  # noqa: BLE001
        return classify_exception(exc)


# ------------------------------------------------------------------ generator

def base_info(size, res, data_type="uint8", num_channels=1, encoding="raw", typ="image",
              extra_scale=None):
    sc = {"size": list(size), "resolution": list(res), "voxel_offset": [0, 0, 0],
          "encoding": encoding, "chunk_sizes": [[64, 64, 64]], "key": "full"}
    if extra_scale:
        sc.update(extra_scale)
    return {"type": typ, "data_type": data_type, "num_channels": num_channels, "scales": [sc]}


def canon_scales(info):
    """What is compared with the model: key bytes, size, exact resolution, chunk sizes."""
    out = []
    for s in info["scales"]:
        out.append([s["key"].encode(), [int(v) for v in s["size"]],
                    [Fraction(r) for r in s["resolution"]],
                    [int(v) for v in s["chunk_sizes"][0]]])
    return out


def canon_model_scales(rep):
    return [[bytes(k), list(sz), [frac_of_me(r) if isinstance(r, list) else None for r in res], list(ch)]
            for k, sz, res, ch in rep]


# ------------------------------------------------------------------ independent restatements

def ceil_div(a, b):
    return -(-a // b)


def exact_round_log2(q):
    """int(round(log2 q)) for a positive rational q, by exact comparison of squares."""
    q = Fraction(q)
    k = 0
    while q * q >= Fraction(2) ** (2 * k + 1):
        k += 1
    while q * q < Fraction(2) ** (2 * k - 1):
        k -= 1
    return k


def log2_up(n):
    return (n - 1).bit_length()


def py_axis_f(os_, ns):
    return 1 if os_ == ns else 2


def py_compat_axis(os_, ns, oc, nc):
    f = py_axis_f(os_, ns)
    h = oc // f
    if h < 1:
        return False
    if ns <= nc and ns <= h:
        return True
    if f * h != oc:
        return False
    return (ns <= nc and ns <= 2 * h) or (nc % h == 0 and nc <= 2 * h)


def py_axis_sim(os_, ns, oc, nc):
    """Independent per-axis simulation of the tiling arithmetic: returns
    'exact', 'error', or 'stretch' (some assignment passes only by repeating a
    length-1 source, or copies from a misaligned origin)."""
    f = py_axis_f(os_, ns)
    if ns != ceil_div(os_, f):
        return "error"
    h = oc // f
    if h == 0:
        return "error"
    if h == 1 and min(nc, ns) >= 3:
        return "error"          # refused up front since /repo e7c7a72 (was: silent stretch)
    cff = nc // h
    bad = False
    for i in range(ceil_div(ns, nc)):
        lo = nc * i
        e = min(nc * (i + 1), ns) - lo
        parts = [(0, 0, min(h, e))]
        if e > h:
            parts.append((1, h, e - h))
        for b, dlo, dext in parts:
            j = i * cff + b
            olo = oc * j
            if olo >= os_:
                return "error"
            oext = min(oc * (j + 1), os_) - olo
            sext = ceil_div(oext, f)
            if sext != dext and sext != 1:
                return "error"
            aligned = (olo % f == 0 and olo // f == lo + dlo
                       and (oext % f == 0 or olo + oext == os_))
            if sext != dext or not aligned:
                bad = True
    return "stretch" if bad else "exact"


def py_geom_class(os3, ns3, oc3, nc3):
    """exact / error / wrong predicted for a whole transition from the per-axis
    simulations (an error on any axis is an error of the whole)."""
    cls = [py_axis_sim(*t) for t in zip(os3, ns3, oc3, nc3)]
    if "error" in cls:
        return "error"
    if "stretch" in cls:
        return "wrong"
    return "exact"


# ------------------------------------------------------------------ reference downscalers

def ref_downscale(a, f3, method):
    """Whole-array reference (C, Z, Y, X), factors (fx, fy, fz), exact integers.
    average: mean of the block with edge replication, round half to even;
    majority: most frequent value of the clipped block, smallest on ties;
    stride: first voxel."""
    fx, fy, fz = f3
    C, Z, Y, X = a.shape
    nz, ny, nx = ceil_div(Z, fz), ceil_div(Y, fy), ceil_div(X, fx)
    if method == "stride":
        return a[:, ::fz, ::fy, ::fx].copy()
    out = np.empty((C, nz, ny, nx), dtype=a.dtype)
    if method == "average":
        zi = np.minimum(np.arange(nz * fz), Z - 1)
        yi = np.minimum(np.arange(ny * fy), Y - 1)
        xi = np.minimum(np.arange(nx * fx), X - 1)
        big = a[:, zi][:, :, yi][:, :, :, xi].astype(object)
        s = big.reshape(C, nz, fz, ny, fy, nx, fx).sum(axis=(2, 4, 6))
        den = fx * fy * fz
        flat = s.ravel()
        res = []
        for v in flat:
            v = int(v)
            q, r = divmod(v, den)
            if 2 * r > den or (2 * r == den and q % 2 == 1):
                q += 1
            res.append(q)
        return np.array(res, dtype=object).reshape(C, nz, ny, nx).astype(a.dtype)
    if method == "majority":
        for c in range(C):
            for z in range(nz):
                for y in range(ny):
                    for x in range(nx):
                        blk = a[c, z * fz:(z + 1) * fz, y * fy:(y + 1) * fy, x * fx:(x + 1) * fx].ravel().tolist()
                        best = None
                        finite = [v for v in blk if v == v]
                        for v in sorted(set(finite)):
                            n = finite.count(v)
                            if best is None or n > best[1]:
                                best = (v, n)
                        # all NaN voxels count as ONE value, ordered after every number (what np.unique
                        # does since NumPy 1.21): NaN wins only with strictly more votes
                        n_nan = len(blk) - len(finite)
                        if n_nan and (best is None or n_nan > best[1]):
                            best = (float("nan"), n_nan)
                        out[c, z, y, x] = best[0]
        return out
    raise ValueError(method)


def same_values_bitwise(a, b):
    """NaN-aware exact comparison of two arrays of one dtype: same shape, NaN at the same places
    (any payload), every other element bit-identical (so -0.0 != 0.0, inf != FLT_MAX)."""
    a = np.ascontiguousarray(a)
    b = np.ascontiguousarray(b)
    if a.shape != b.shape or a.dtype != b.dtype:
        return False
    if a.dtype.kind != "f":
        return a.tobytes() == b.tobytes()
    na, nb = np.isnan(a), np.isnan(b)
    if not np.array_equal(na, nb):
        return False
    ui = {2: np.uint16, 4: np.uint32, 8: np.uint64}[a.dtype.itemsize]
    return bool(np.array_equal(a.view(ui)[~na], b.view(ui)[~nb]))


SPECIAL_F32 = [float("inf"), float("-inf"), float("nan"), -0.0, 0.0, 1e-45, -1e-45, 1.1754942e-38,
               3.4028235e38, -3.4028235e38, 16777217.0, 0.5, 1.5, 2.5]


# ------------------------------------------------------------------ in-memory reader / writer

class MemIO:
    """Duck-typed chunk reader/writer with the interface compute_dyadic_downscaling
    uses; mirrors PrecomputedIO: coordinates are validated by an assert, a chunk
    that was never written raises DataAccessError."""

    def __init__(self, info):
        from neuroglancer_scripts import precomputed_io
        self.info = info
        self._scale_info = {s["key"]: s for s in info["scales"]}
        self.store = {}
        self._validate = precomputed_io.PrecomputedIO.validate_chunk_coords
        self.accessor = None

    def scale_info(self, key):
        return self._scale_info[key]

    def scale_is_lossy(self, key):
        return False

    def validate_chunk_coords(self, key, coords):
        return self._validate(self, key, coords)

    def read_chunk(self, key, coords):
        from neuroglancer_scripts.accessor import DataAccessError
        assert self.validate_chunk_coords(key, coords)
        kind = getattr(self, "unreadable", {}).get((key, tuple(int(c) for c in coords)))
        if kind == "AccessErr":        # the accessor cannot fetch the chunk
            raise DataAccessError(f"unreadable chunk {key} {coords}")
        if kind == "FormatErr":        # the decoder rejects the bytes
            from neuroglancer_scripts.chunk_encoding import InvalidFormatError
            raise InvalidFormatError(f"undecodable chunk {key} {coords}")
        try:
            return self.store[(key, tuple(int(c) for c in coords))].copy()
        except KeyError:
            raise DataAccessError(f"no chunk {key} {coords}") from None

    def write_chunk(self, chunk, key, coords):
        assert self.validate_chunk_coords(key, coords)
        xmin, xmax, ymin, ymax, zmin, zmax = coords
        assert chunk.shape == (self.info["num_channels"], zmax - zmin, ymax - ymin, xmax - xmin)
        self.store[(key, tuple(int(c) for c in coords))] = np.array(chunk, copy=True)

    def fill_level(self, key, vol):
        """Cut a whole (C, Z, Y, X) array into the chunks of scale `key`."""
        s = self._scale_info[key]
        cx, cy, cz = s["chunk_sizes"][0]
        sx, sy, sz = s["size"]
        for x in range(0, sx, cx):
            for y in range(0, sy, cy):
                for z in range(0, sz, cz):
                    co = (x, min(x + cx, sx), y, min(y + cy, sy), z, min(z + cz, sz))
                    self.store[(key, co)] = vol[:, co[4]:co[5], co[2]:co[3], co[0]:co[1]].copy()

    def assemble(self, key):
        """Whole level from the stored chunks; None where nothing was written."""
        s = self._scale_info[key]
        sx, sy, sz = s["size"]
        C = self.info["num_channels"]
        dtype = np.dtype(self.info["data_type"])
        out = np.zeros((C, sz, sy, sx), dtype=dtype)
        seen = np.zeros((sz, sy, sx), dtype=bool)
        for (k, co), ch in self.store.items():
            if k != key:
                continue
            out[:, co[4]:co[5], co[2]:co[3], co[0]:co[1]] = ch
            seen[co[4]:co[5], co[2]:co[3], co[0]:co[1]] = True
        return out, bool(seen.all())


class PoisonNP:
    """Stand-in for the `np` name inside neuroglancer_scripts.dyadic_pyramid:
    everything is NumPy's, except that `empty` returns a buffer pre-filled with
    a chosen byte pattern, so that cells the code never assigns are visible."""

    def __init__(self, byte):
        self._byte = byte

    def __getattr__(self, name):
        return getattr(np, name)

    def empty(self, shape, dtype=float, **kw):
        a = np.empty(shape, dtype=dtype, **kw)
        a.view(np.uint8).reshape(-1)[...] = self._byte
        return a


class poisoned:
    """Context manager installing PoisonNP(byte) in dyadic_pyramid."""

    def __init__(self, byte):
        self.byte = byte

    def __enter__(self):
        from neuroglancer_scripts import dyadic_pyramid
        self.mod = dyadic_pyramid
        self.saved = (dyadic_pyramid.np, dyadic_pyramid.tqdm)
        dyadic_pyramid.np = PoisonNP(self.byte)
        dyadic_pyramid.tqdm = lambda it, **kw: it      # progress bar off (stderr noise only)
        return self

    def __exit__(self, *exc):
        self.mod.np, self.mod.tqdm = self.saved
        return False


def poison_value(byte, dtype):
    return int(np.frombuffer(bytes([byte]) * np.dtype(dtype).itemsize, dtype=np.dtype(dtype).newbyteorder("<"))[0])


def two_scale_info(os3, ns3, oc3, nc3, data_type="uint8", num_channels=1):
    def sc(key, size, chunk):
        return {"key": key, "size": list(size), "resolution": [1, 1, 1], "voxel_offset": [0, 0, 0],
                "encoding": "raw", "chunk_sizes": [list(chunk)]}
    return {"type": "image", "data_type": data_type, "num_channels": num_channels,
            "scales": [sc("old", os3, oc3), sc("new", ns3, nc3)]}


def get_ds(method):
    from neuroglancer_scripts import downscaling
    return downscaling.get_downscaler(method, None, {})


def run_transition(info, idx, method, vol, byte, unreadable=None):
    """Run the real compute_dyadic_downscaling for transition idx -> idx+1 through
    MemIO with np.empty poisoned by `byte`.  Returns (outcome, io); on success the
    outcome carries the list of written chunks in write order.  `unreadable` maps
    chunk coordinates of the source scale to "AccessErr" / "FormatErr": reading
    them raises DataAccessError / InvalidFormatError."""
    from neuroglancer_scripts import dyadic_pyramid
    io = MemIO(copy.deepcopy(info))
    io.fill_level(info["scales"][idx]["key"], vol)
    if unreadable:
        io.unreadable = {(info["scales"][idx]["key"], tuple(co)): kind for co, kind in unreadable.items()}
    order = []
    orig = io.write_chunk

    def rec(chunk, key, coords):
        orig(chunk, key, coords)
        order.append((tuple(int(c) for c in coords), np.array(chunk, copy=True)))
    io.write_chunk = rec
    with poisoned(byte):
        out = outcome_bc(lambda: dyadic_pyramid.compute_dyadic_downscaling(
            io.info, idx, get_ds(method), io, io))
    if out[0] == "ok":
        out = ["ok", order]
    return out, io


def model_chunks(rep, poison):
    """Model reply of tile_level -> list of (coords6, flat list with Uninit -> poison)."""
    out = []
    for lo, hi, cells in rep:
        co = (lo[0], hi[0], lo[1], hi[1], lo[2], hi[2])
        out.append((co, [poison if isinstance(c, Atom) else c for c in cells],
                    any(isinstance(c, Atom) for c in cells)))
    return out
