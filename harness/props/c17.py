"""C17 — mesh formats.

Correspondence: mesh.save_mesh_as_precomputed / read_precomputed_mesh /
affine_transform_mesh / save_mesh_as_neuroglancer_vtk, the mesh-to-precomputed
and link-mesh-fragments commands  vs  coq/theories/Mesh/Me*.v.
Oracle: short independent Python restatements of the formats (struct-based
reader of the precomputed layout, regular-expression reader of the VTK subset
Neuroglancer accepts, json reader of link files, exact rational affine
arithmetic) applied to what the implementation produced, plus the extracted
specification functions (spec_parse, vtk_grammar, spec_read_links).
"""
import csv
import io
import json
import logging
import math
import os
import re
import struct
import subprocess
from fractions import Fraction

from harness.common import outcome_of, model_outcome, Atom, PY

RULE = ("meshes: empty / one triangle / random up to 300 triangles / indices at n-1, n, n+1; byte strings: "
        "valid files mutated by truncation at every field boundary +-1, index edits (n-1, n, n+1, 2^32-1), "
        "vertex-count edits, appended bytes, random bytes; affines: integer (exact) and float (orthogonal x "
        "shear x scale x flips, det > 0, < 0, ~1e-12); GIfTI files through the command; VTK exports with "
        "attributes and titles of all lengths; CSV tables with 0..5 fragments, duplicates, blank lines. "
        "non-trivial = mesh with >= 1 triangle, byte string of >= 4 bytes, table with >= 1 fragment")

DTYPES = ["bool", "uint8", "uint16", "uint32", "uint64", "int8", "int16", "int32", "int64", "float32",
          "float64"]


# ------------------------------------------------------------------ helpers
def f32bits(arr):
    import numpy as np
    return np.ascontiguousarray(arr, dtype="<f4").view("<u4")


def spec_parse_py(b):
    """Independent reader of the precomputed mesh layout (format document)."""
    if len(b) < 4:
        return None
    (n,) = struct.unpack_from("<I", b, 0)
    end_v = 4 + 12 * n
    if len(b) < end_v or (len(b) - end_v) % 12:
        return None
    verts = [list(struct.unpack_from("<III", b, 4 + 12 * i)) for i in range(n)]
    tris = [list(struct.unpack_from("<III", b, end_v + 12 * i)) for i in range((len(b) - end_v) // 12)]
    if any(i >= n for t in tris for i in t):
        return None
    return [verts, tris]


def index_eq_count_py(b):
    if len(b) < 4:
        return False
    (n,) = struct.unpack_from("<I", b, 0)
    end_v = 4 + 12 * n
    if len(b) < end_v or (len(b) - end_v) % 12:
        return False
    idx = [i for k in range((len(b) - end_v) // 12) for i in struct.unpack_from("<III", b, end_v + 12 * k)]
    return bool(idx) and max(idx) == n


def read_impl(b):
    from neuroglancer_scripts import mesh

    def go():
        v, t = mesh.read_precomputed_mesh(io.BytesIO(b))
        assert v.dtype.str == "<f4" and t.dtype.str == "<u4" and v.ndim == 2 and t.ndim == 2
        return [v.view("<u4").tolist(), t.tolist()]
    return outcome_of(go)


def random_mesh(rng, nv, nt, hi=None):
    import numpy as np
    verts = np.array([[rng.choice([0.0, -0.0, 1.5, -2.25, 1e-40, 3.4e38, rng.uniform(-1e3, 1e3),
                                   rng.uniform(-1, 1) * 10 ** rng.randrange(-30, 30)])
                       for _ in range(3)] for _ in range(nv)], dtype="<f4").reshape(nv, 3)
    hi = nv if hi is None else hi
    tris = np.array([[rng.randrange(hi) if hi else 0 for _ in range(3)] for _ in range(nt)],
                    dtype="<u4").reshape(nt, 3)
    return verts, tris


# ------------------------------------------------------------------ VTK
VTK_HEADER = re.compile(
    rb"^[ \t]*#[ \t]+vtk[ \t]+DataFile[ \t]+Version[ \t]+([^\s]+)[ \t]*\n(.*)\n[ \t]*(ASCII|BINARY)[ \t]*\n"
    rb"[ \t]*DATASET[ \t]+([^ ]+)[ \t]*\n")
RE_POINTS = re.compile(r"^[ \t]*POINTS[ \t]+([0-9]+)[ \t]+([^\s]+)[ \t]*$")
RE_POLYS = re.compile(r"^[ \t]*POLYGONS[ \t]+([0-9]+)[ \t]+([0-9]+)[ \t]*$")
RE_PD = re.compile(r"^[ \t]*POINT_DATA[ \t]+([0-9]+)[ \t]*$")
RE_SCAL = re.compile(r"^[ \t]*SCALARS[ \t]+([^\s]+)[ \t]+([^\s]+)(?:[ \t]+([0-9]+))?[ \t]*$")
RE_LUT = re.compile(r"^[ \t]*LOOKUP_TABLE[ \t]+([^\s]+)[ \t]*$")
RE_TRI = re.compile(r"^[ \t]*3[ \t]+([0-9]+)[ \t]+([0-9]+)[ \t]+([0-9]+)[ \t]*$")
RE_BLANK = re.compile(r"^[ \t]*$")


class VtkReject(Exception):
    pass


def js_parse_float(s):
    m = re.match(r"^[ \t\n\r]*([+-]?(?:Infinity|\d+\.?\d*(?:[eE][+-]?\d+)?|\.\d+(?:[eE][+-]?\d+)?))", s)
    if not m:
        return float("nan")
    t = m.group(1)
    return float(t.replace("Infinity", "inf"))


def vtk_parse_py(data):
    """The subset of legacy VTK ASCII accepted by Neuroglancer's parser
    (datasource/vtk/parse.ts): four-line header, then the line-driven POLYDATA
    reader.  The size of the window in which Neuroglancer looks for the header
    is not modelled: a comment line of any length is accepted."""
    m = VTK_HEADER.match(data)
    if m is None:
        raise VtkReject("header")
    if m.group(3) != b"ASCII" or m.group(4) != b"POLYDATA":
        raise VtkReject("format")
    lines = data[len(m.group(0)):].decode("utf-8", "replace").split("\n")
    pos = 0
    st = {"nv": -1, "pts": None, "tris": None, "attrs": []}

    def parse_array(n, k):
        nonlocal pos
        if k < 1:
            raise VtkReject("components")
        pat = re.compile(r"^[ \t]*" + r"(.+?)[ \t]+" * (k - 1) + r"(.+?)[ \t]*$")
        if len(lines) - pos < n:
            raise VtkReject("ended")
        out = []
        for _ in range(n):
            mm = pat.match(lines[pos])
            pos += 1
            if mm is None:
                raise VtkReject("array line")
            out.append([js_parse_float(g) for g in mm.groups()])
        return out

    def point_data(n):
        nonlocal pos
        if st["nv"] != n:
            raise VtkReject("point data count")
        while pos < len(lines):
            line = lines[pos]
            if RE_BLANK.match(line):
                pos += 1
                continue
            mm = RE_SCAL.match(line)
            if mm is None:
                raise VtkReject("point data line " + line[:40])
            k = 1 if mm.group(3) is None else int(mm.group(3))
            pos += 1
            if pos == len(lines):
                raise VtkReject("ended")
            ml = RE_LUT.match(lines[pos])
            pos += 1
            if ml is None:
                raise VtkReject("lookup")
            st["attrs"].append([mm.group(1), k, parse_array(st["nv"], k)])

    while pos < len(lines):
        line = lines[pos]
        if RE_BLANK.match(line):
            pos += 1
            continue
        mm = RE_POINTS.match(line)
        if mm:
            pos += 1
            st["nv"] = int(mm.group(1))
            st["pts"] = parse_array(st["nv"], 3)
            continue
        mm = RE_POLYS.match(line)
        if mm:
            pos += 1
            nf, nvals = int(mm.group(1)), int(mm.group(2))
            if len(lines) - pos < nf or nvals != 4 * nf:
                raise VtkReject("polygons header")
            tris = []
            for _ in range(nf):
                mt = RE_TRI.match(lines[pos])
                pos += 1
                if mt is None:
                    raise VtkReject("face")
                tris.append([int(g) for g in mt.groups()])
            st["tris"] = tris
            continue
        mm = RE_PD.match(line)
        if mm:
            pos += 1
            point_data(int(mm.group(1)))
            break
        raise VtkReject("line " + line[:40])
    if st["pts"] is None or st["tris"] is None:
        raise VtkReject("missing section")
    return st


def render_line(ln):
    """Structured model line -> text (floats are returned as bit lists)."""
    tag = str(ln[0])
    if tag == "magic":
        return "# vtk DataFile Version 3.0"
    if tag == "title":
        return ln[1].decode("latin1")
    if tag == "ascii":
        return "ASCII"
    if tag == "dataset":
        return "DATASET POLYDATA"
    if tag == "points":
        return f"POINTS {ln[1]} float"
    if tag == "polygons":
        return f"POLYGONS {ln[1]} {ln[2]}"
    if tag == "point_data":
        return f"POINT_DATA {ln[1]}"
    if tag == "scalars":
        return "SCALARS " + ln[1].decode("latin1") + " float" + ("" if isinstance(ln[2], Atom) else f" {ln[2]}")
    if tag == "lookup":
        return "LOOKUP_TABLE default"
    if tag == "ints":
        return " ".join(str(z) for z in ln[1])
    if tag == "floats":
        return ("floats", ln[1])
    raise ValueError(tag)


def render_text(ml):
    """Model line -> text; float rows are formatted with %.9g of the float32
    value (what np.savetxt does), the formatting being outside the model."""
    import numpy as np
    r = render_line(ml)
    if isinstance(r, tuple):
        vals = np.array(r[1], dtype="<u4").view("<f4")
        return " ".join("%.9g" % x for x in vals)
    return r


def float_line_matches(text, bits):
    import numpy as np
    toks = text.split(" ") if text else []
    if len(toks) != len(bits):
        return False
    for t, b in zip(toks, bits):
        want = np.array([b], dtype="<u4").view("<f4")[0]
        if t != "%.9g" % want:
            return False
        got = np.float32(float(t))
        if not ((np.isnan(got) and np.isnan(want)) or got.tobytes() == want.tobytes()
                or (got == 0 and want == 0 and np.signbit(got) == np.signbit(want))):
            return False
    return True


# ------------------------------------------------------------------ run
LOOKALIKE_NAMES = ["hemi.surf.gz", "x.gz", ".gz", "a.GZ", "f.json", "1:0", "frag.gz.gz", "gz", "a.b.c", "m.gzip",
                   "left.surf.gii", "7:0.gz", "info", "x.shard"]


def _big_mesh_stream(R):
    """One mesh per run with more than 2^22 triangles (a 48 MiB index block): the round trip through
    save_mesh_as_precomputed / read_precomputed_mesh returns every triangle, and a bad vertex reference or a
    cut tail BEYOND the first 48 MiB is still refused.  Oracle only (the extracted model is not run on 12 million
    indices); the file is compared with the format's layout directly."""
    import numpy as np
    from neuroglancer_scripts import mesh
    nt = 2 ** 22 + 3
    nv = 1000
    v = (np.arange(nv * 3, dtype="<f4").reshape(nv, 3) * np.float32(0.25)).astype("<f4")
    t = (np.arange(nt * 3, dtype=np.uint64) * 7919 % nv).astype("<u4").reshape(nt, 3)
    case = {"kind": "big-mesh", "nv": nv, "nt": nt}
    R.case(case, nontrivial=True)
    R.count("big-mesh:round-trip")
    buf = io.BytesIO()
    mesh.save_mesh_as_precomputed(buf, v, t)
    b = buf.getvalue()
    want = struct.pack("<I", nv) + v.tobytes() + t.tobytes()
    if b != want:
        R.violation("large mesh: written bytes are not count + vertices + triangles", case,
                    {"len": len(b), "want_len": len(want)})
        return
    try:
        v2, t2 = mesh.read_precomputed_mesh(io.BytesIO(b))
        ok = v2.shape == v.shape and t2.shape == t.shape and np.array_equal(v2.view("<u4"), v.view("<u4")) \
            and np.array_equal(t2, t)
        if not ok:
            R.violation("large mesh: round trip lost or changed data", case,
                        {"triangles_written": nt, "triangles_read": int(t2.shape[0])})
    except Exception as e:  # noqa: BLE001
        R.violation("large mesh: a valid file was refused", case, {"exc": type(e).__name__})
    for what, bb in (("bad-last-index", b[:-4] + struct.pack("<I", nv)), ("cut-tail", b[:-5])):
        R.count("big-mesh:" + what)
        try:
            mesh.read_precomputed_mesh(io.BytesIO(bb))
            R.violation("large mesh: malformed data beyond the first 48 MiB accepted", dict(case, damage=what), {})
        except mesh.InvalidMeshDataError:
            pass
        except Exception as e:  # noqa: BLE001
            R.violation("large mesh: malformed data raised something else than InvalidMeshDataError",
                        dict(case, damage=what), {"exc": type(e).__name__})


def run(R):
    import numpy as np
    import neuroglancer_scripts
    from neuroglancer_scripts import mesh
    logging.disable(logging.CRITICAL)
    R.rule = RULE
    rng = R.rng
    quick = R.tier == "quick"
    # ============================================================ writer
    meshes = [("empty", 0, 0, None), ("one-vertex-no-tri", 1, 0, None), ("one-triangle", 3, 1, None)]
    for _ in range(120 if quick else 400):
        nv = rng.choice([1, 2, 3, 4, 7, 50, 255, 256, 257, rng.randrange(1, 400)])
        nt = rng.choice([0, 1, 2, 5, rng.randrange(0, 301)])
        meshes.append(("random", nv, nt, None))
    for nv in (1, 3, 17):
        meshes += [("idx-max-valid", nv, 3, nv), ("idx-eq-count", nv, 2, nv + 1), ("idx-gt-count", nv, 2, nv + 2)]
    wcases = []
    for kind, nv, nt, hi in meshes:
        v, t = random_mesh(rng, nv, nt, hi)
        if kind == "idx-max-valid" and nt:
            t[0, 0] = nv - 1
        if kind == "idx-eq-count":
            t[-1, 2] = nv
        if kind == "idx-gt-count":
            t[-1, 1] = nv + 1
        dts = ["uint32"] + rng.sample(DTYPES, 2 if quick else 5)
        for dt in dts:
            if dt == "bool":
                tt = (t % 2).astype(dt)
            elif dt in ("uint8", "int8") and t.size and t.max() > 127:
                tt = (t % 128).astype(dt)
            else:
                tt = t.astype(dt)
            vv = v if rng.random() < 0.8 else v.astype("<f8")
            wcases.append((kind, vv, tt, dt))
    # indices that do not fit uint32 in 64-bit (or signed) index arrays: they wrap onto valid vertex numbers
    # modulo 2^32, so the writer must refuse them (stratified, every run)
    for nv, dt, bad in [(2, "int64", 2 ** 32 + 1), (5, "int64", -2 ** 32 + 3), (3, "uint64", 2 ** 32 + 2),
                        (4, "int64", 2 ** 33), (3, "int32", -1), (2, "int64", -1), (6, "uint64", 2 ** 40 + 5),
                        (3, "int16", -2)]:
        v, t = random_mesh(rng, nv, 3)
        tt = t.astype(dt)
        tt[rng.randrange(3), rng.randrange(3)] = bad
        wcases.append(("idx-outside-uint32", v, tt, dt))
    reqs = []
    for kind, v, t, dt in wcases:
        reqs.append(("mesh_write", [Atom(dt), f32bits(v).tolist(),
                                    [[int(x) for x in row] for row in t.astype("int64").tolist()]
                                    if dt not in ("float32", "float64", "int8", "int16", "int32", "int64")
                                    else [[abs(int(x)) for x in row] for row in t.tolist()]]))
    replies = R.model.batch(reqs)
    valid_files = []
    for (kind, v, t, dt), rep in zip(wcases, replies):
        buf = io.BytesIO()
        impl = outcome_of(lambda: mesh.save_mesh_as_precomputed(buf, v, t))
        written = buf.getvalue()
        m_out, m_partial, m_wf = rep
        mod = model_outcome(m_out)
        case = {"kind": kind, "nv": int(v.shape[0]), "nt": int(t.shape[0]), "tri_dtype": dt,
                "vertex_dtype": v.dtype.name}
        R.case(case, nontrivial=t.shape[0] >= 1)
        R.count(f"write:{kind}:{dt}:{impl[0] if impl[0] != 'Crash' else impl[1]}")
        got = ["ok", written] if impl[0] == "ok" else impl
        if got != mod:
            R.disagree("save_mesh_as_precomputed vs write_mesh", case, got if got[0] != "ok" else "bytes", mod)
        if impl[0] != "ok" and written != m_partial:
            R.disagree("bytes written before the TypeError", case, written.hex()[:80], m_partial.hex()[:80])
        if impl[0] == "ok" and t.size and (int(t.min()) < 0 or int(t.max()) >= 2 ** 32):
            R.violation("a triangle index outside the uint32 range was written (wrapped) instead of refused",
                        case, {"index_min": int(t.min()), "index_max": int(t.max()),
                               "written_tail": written[-12:].hex()})
            continue
        if impl[0] == "ok":
            # oracle: layout per the format document
            n = v.shape[0]
            want = struct.pack("<I", n) + f32bits(v).tobytes() + t.astype("<u4").tobytes()
            if written != want:
                R.violation("precomputed mesh layout differs from the format", case,
                            {"impl": written.hex()[:120], "want": want.hex()[:120]})
            parsed = spec_parse_py(written)
            wf = bool(t.size == 0 or t.max() < n)
            if wf != bool(m_wf == Atom("true")):
                R.disagree("mesh_wf classification", case, wf, str(m_wf))
            if wf and parsed != [f32bits(v).tolist(), t.astype("<u4").tolist()]:
                R.violation("written mesh does not parse back by the format", case, {})
            # round trip through the package's reader
            back = read_impl(written)
            if wf and back != ["ok", [f32bits(v).tolist(), t.astype("<u4").tolist()]]:
                R.violation("round trip write -> read changed the mesh", case, {"read": back[0]})
            if len(valid_files) < (120 if quick else 400) and dt == "uint32":
                valid_files.append((written, n, int(t.shape[0])))

    # writer shape assertions
    pre = [(2, 2, 3), (1, 2, 3), (2, 1, 3), (2, 2, 2), (2, 2, 4), (3, 2, 3)]
    replies = R.model.batch([("mesh_precheck", list(p)) for p in pre])
    for (vnd, tnd, tc), rep in zip(pre, replies):
        v = np.zeros((2, 3) if vnd == 2 else ((6,) if vnd == 1 else (2, 3, 1)), "<f4")
        t = np.zeros((2, tc) if tnd == 2 else (6,), "<u4")
        impl = outcome_of(lambda: mesh.save_mesh_as_precomputed(io.BytesIO(), v, t))
        impl = ["ok", []] if impl[0] == "ok" else impl
        case = {"v_ndim": vnd, "t_ndim": tnd, "t_cols": tc}
        R.case(case)
        R.count("precheck:" + (impl[0] if impl[0] != "Crash" else impl[1]))
        if impl != model_outcome(rep):
            R.disagree("writer shape assertions", case, impl, model_outcome(rep))

    # ============================================================ reader on byte strings
    streams = []

    def add(kind, b):
        streams.append((kind, bytes(b)))

    for k in range(0, 6):
        add("short", bytes(rng.randrange(256) for _ in range(k)))
        add("short-zero", b"\0" * k)
    for written, n, nt in valid_files:
        add("valid", written)
        bounds = {0, 4, 4 + 12 * n, len(written)}
        if n:
            bounds |= {4 + 12 * (n - 1), 4 + 4, 4 + 12}
        if nt:
            bounds |= {4 + 12 * n + 12, len(written) - 12, 4 + 12 * n + 4}
        for bnd in sorted(bounds):
            for d in (-1, 0, 1):
                cut = bnd + d
                if 0 <= cut < len(written):
                    add("truncated", written[:cut])
        for extra in (1, 3, 4, 11, 12, 13):
            add("appended", written + bytes(rng.randrange(256) for _ in range(extra)))
        if nt:
            base = 4 + 12 * n
            for val in (n - 1, n, n + 1, 2 ** 32 - 1, 0):
                if val < 0:
                    continue
                k = rng.randrange(3 * nt)
                b = bytearray(written)
                b[base + 4 * k: base + 4 * k + 4] = struct.pack("<I", val)
                add(f"index={'n-1' if val == n - 1 else 'n' if val == n else 'n+1' if val == n + 1 else 'max' if val == 2**32-1 else '0'}", b)
        for newn in (n + 1, max(n - 1, 0), 0, 2 ** 32 - 1, n + nt, 2 ** 31):
            b = bytearray(written)
            b[0:4] = struct.pack("<I", newn)
            add("count-edit", b)
    for _ in range(1500 if quick else 6000):
        ln = rng.choice([4, 5, 15, 16, 17, 28, 40, rng.randrange(4, 80)])
        b = bytearray(rng.randrange(256) for _ in range(ln))
        if rng.random() < 0.8:
            b[0:4] = struct.pack("<I", rng.choice([0, 1, 2, 3]))
        if rng.random() < 0.5:
            for k in range(4, ln - 3, 4):
                if rng.random() < 0.8:
                    b[k:k + 4] = struct.pack("<I", rng.randrange(0, 5))
        add("random", b)
    if len(streams) > (12000 if quick else 10 ** 6):
        head = [s for s in streams if s[0] in ("short", "short-zero")]
        rest = [s for s in streams if s[0] not in ("short", "short-zero")]
        rng.shuffle(rest)
        streams = head + rest[:12000]
    replies = R.model.batch([("mesh_read", b) for _k, b in streams])
    for (kind, b), rep in zip(streams, replies):
        impl = read_impl(b)
        m_out, m_spec = rep
        mod = model_outcome(m_out)
        case = {"kind": kind, "bytes": b if len(b) <= 120 else b[:120], "len": len(b)}
        R.case(case, nontrivial=len(b) >= 4)
        R.count(f"read:{kind}:{impl[0] if impl[0] != 'Crash' else impl[1]}")
        if impl != mod:
            R.disagree("read_precomputed_mesh vs read_mesh", case, impl if impl[0] != "ok" else "mesh", mod
                       if mod[0] != "ok" else "mesh")
        spec = spec_parse_py(b)
        m_spec_py = None if str(m_spec[0]) == "none" else m_spec[1]
        if spec != m_spec_py:
            R.violation("extracted spec_parse disagrees with the Python restatement (harness self-check)",
                        case, {"spec": str(m_spec)[:100]})
        if len(b) < 4:
            R.count("read:region:short-header")
        if index_eq_count_py(b):
            R.count("read:region:index-equals-count")
        good = (impl == ["ok", spec]) if spec is not None else (impl == ["FormatErr"])
        if not good:
            R.violation("reader neither returns the formatted mesh nor raises InvalidMeshDataError", case,
                        {"impl": impl if impl[0] != "ok" else "accepted",
                         "format_says": "valid" if spec else "invalid"})

    # ============================================================ affine transform
    def closed_mesh():
        """Octahedron-like closed surface around a centre, outward oriented."""
        c = [rng.randrange(-20, 21) for _ in range(3)]
        r = [rng.randrange(1, 9) for _ in range(6)]
        vs = [[c[0] + r[0], c[1], c[2]], [c[0] - r[1], c[1], c[2]], [c[0], c[1] + r[2], c[2]],
              [c[0], c[1] - r[3], c[2]], [c[0], c[1], c[2] + r[4]], [c[0], c[1], c[2] - r[5]]]
        ts = [[0, 2, 4], [2, 1, 4], [1, 3, 4], [3, 0, 4], [2, 0, 5], [1, 2, 5], [3, 1, 5], [0, 3, 5]]
        return vs, ts, c

    def det3(m):
        return (m[0][0] * (m[1][1] * m[2][2] - m[1][2] * m[2][1]) - m[0][1] * (m[1][0] * m[2][2] - m[1][2] * m[2][0])
                + m[0][2] * (m[1][0] * m[2][1] - m[1][1] * m[2][0]))

    def vol6(p, a, b, c):
        return det3([[a[i] - p[i], b[i] - p[i], c[i] - p[i]] for i in range(3)])

    def frac_apply(M, v):
        return [sum(Fraction(M[i][j]) * Fraction(v[j]) for j in range(3)) + Fraction(M[i][3]) for i in range(3)]

    acases = []
    for _ in range(500 if quick else 3000):
        vs, ts, c = closed_mesh()
        kind = rng.choice(["pos", "neg", "zero", "any", "any"])
        while True:
            M = [[rng.randrange(-6, 7) for _ in range(4)] for _ in range(3)]
            d = det3(M)
            if kind == "zero":
                M[2] = [M[0][j] + M[1][j] for j in range(3)] + [M[2][3]]
                d = det3(M)
            if (kind == "pos" and d > 0) or (kind == "neg" and d < 0) or (kind == "zero" and d == 0) or kind == "any":
                break
        rows = rng.choice([3, 4, 4])
        last = [0, 0, 0, 1]
        if rows == 4 and rng.random() < 0.2:
            last = rng.choice([[0, 0, 0, 2], [1, 0, 0, 1], [0, 0, 0, 0], [0, 0, 1, 1]])
        acases.append((vs, ts, c, M, rows, last))
    replies = R.model.batch([("affine", [rows, last, [M[0][:3], M[1][:3], M[2][:3], [M[0][3], M[1][3], M[2][3]]],
                                         vs, ts]) for vs, ts, c, M, rows, last in acases])
    for (vs, ts, c, M, rows, last), rep in zip(acases, replies):
        mat = np.array(M + ([last] if rows == 4 else []), dtype=float)
        va = np.array(vs, dtype=rng.choice(["<f4", "<f8", "<i4", "<i8", "<i2"]))
        ta = np.array(ts, dtype="<u4")

        # the caller's arrays are snapshotted, offered read-only in one case out of three, and used for a
        # SECOND transform afterwards: the function must neither need to write to them nor change them
        va0, ta0, mat0 = va.copy(), ta.copy(), mat.copy()
        read_only = rng.random() < 0.34
        if read_only:
            va.flags.writeable = False
            ta.flags.writeable = False
        seq = {}

        def go():
            v2, t2 = mesh.affine_transform_mesh(va, ta, mat)
            assert all(float(x).is_integer() for x in v2.ravel())
            first = [[[int(x) for x in row] for row in v2.tolist()], t2.tolist()]
            seq["args_unchanged"] = bool(np.array_equal(va, va0) and np.array_equal(ta, ta0)
                                         and np.array_equal(mat, mat0))
            v3, t3 = mesh.affine_transform_mesh(va, ta, mat)
            seq["second_equal"] = [[[int(x) for x in row] for row in v3.tolist()], t3.tolist()] == first
            seq["first_still"] = [[[int(x) for x in row] for row in v2.tolist()], t2.tolist()] == first
            return first
        impl = outcome_of(go)
        R.count("affine-int:args-" + ("read-only" if read_only else "writable"))
        if impl[0] == "ok":
            seq_case = {"matrix": M, "rows": rows, "read_only_arrays": read_only, "det": det3(M)}
            if not seq["args_unchanged"]:
                R.violation("affine_transform_mesh modified the caller's vertex / triangle / matrix arrays",
                            seq_case, {"triangles_before": ta0.tolist()[:3], "triangles_after": ta.tolist()[:3]})
            elif not seq["second_equal"]:
                R.violation("a second transform of the same arrays gives a different mesh", seq_case, {})
            elif not seq["first_still"]:
                R.violation("the mesh returned first changed when the same arrays were transformed again",
                            seq_case, {})
        m_out, m_det, m_vol0, m_vol1, m_nm = rep
        mod = model_outcome(m_out)
        d = det3(M)
        case = {"matrix": M, "rows": rows, "last_row": last, "center": c, "det": d}
        R.case(case, nontrivial=True)
        R.count(f"affine-int:det{'>' if d > 0 else '<' if d < 0 else '='}0:{impl[0]}")
        if d == 0 and impl[0] == "ok" and mod[0] == "ok":
            # np.linalg.det of an exactly singular matrix is rounding noise of either sign
            if impl[1][0] != mod[1][0]:
                R.disagree("affine_transform_mesh vertices vs model (singular matrix)", case, impl, mod)
            R.count("affine-int:det=0 (flip decision is float noise, not judged)")
        elif impl != mod:
            R.disagree("affine_transform_mesh vs model (integer inputs)", case, impl, mod)
        if m_det != d:
            R.violation("extracted determinant differs from the Python restatement (self-check)", case, {})
        if impl[0] == "ok":
            v2, t2 = impl[1]
            want_v = [[int(x) for x in frac_apply(M, v)] for v in vs]
            if v2 != want_v:
                R.violation("transformed vertices are not M v + t", case, {"impl": v2[:2], "want": want_v[:2]})
            c2 = frac_apply(M, c)
            if d != 0:
                for tri0, tri1 in zip(ts, t2):
                    s0 = vol6(c, *[vs[i] for i in tri0])
                    s1 = vol6(c2, *[want_v[i] for i in tri1])
                    if (s0 > 0) != (s1 > 0) or s0 == 0:
                        R.violation("triangle orientation not preserved by affine_transform_mesh", case,
                                    {"before": str(s0), "after": str(s1)})
                        break
            if sorted(map(sorted, t2)) != sorted(map(sorted, ts)):
                R.violation("triangles changed beyond winding", case, {})
            if d != 0 and (t2 != ts) != (d < 0):
                R.violation("winding reversed although det >= 0, or kept although det < 0", case,
                            {"flipped": t2 != ts})
        elif not (rows == 4 and last != [0, 0, 0, 1] and impl == ["Crash", "AssertionError"]):
            R.violation("affine_transform_mesh failed on a valid matrix", case, {"impl": impl})

    # float affines (oracle only: rounding is not modelled)
    near_zero = 0
    for fi in range(400 if quick else 3000):
        vs, ts, c = closed_mesh()
        q, _r = np.linalg.qr(np.array([[rng.gauss(0, 1) for _ in range(3)] for _ in range(3)]))
        shear = np.eye(3)
        shear[0, 1] = rng.uniform(-2, 2)
        shear[1, 2] = rng.uniform(-2, 2)
        sc = np.diag([rng.choice([-1, 1]) * 10 ** rng.uniform(-2, 2) for _ in range(3)])
        A = q @ shear @ sc
        kind = rng.choice(["normal", "normal", "tiny", "singular-ish"])
        if kind == "tiny":
            A = A * 1e-4          # det ~ 1e-12
        if kind == "singular-ish":
            A[2] = A[0] * rng.uniform(-2, 2) + A[1] * rng.uniform(-2, 2) + A[2] * 1e-13
        tr = np.array([rng.uniform(-1e3, 1e3) for _ in range(3)])
        if fi % 5 == 4:
            # almost -- but not -- the identity (a 1.000008 scaling, a 1e-9 shear, a 1e-8 mm shift): it must be
            # applied like any other matrix; vertices of the order of 100 make the displacement measurable
            kind = "near-identity"
            vs = [[5 * x for x in v] for v in vs]
            c = [5 * x for x in c]
            sub = ["scale", "shift", "shear", "all"][(fi // 5) % 4]
            A = np.eye(3)
            tr = np.zeros(3)
            if sub in ("scale", "all"):
                for a in range(3):
                    A[a, a] = 1 + rng.choice([-1, 1]) * 10 ** rng.uniform(-6, -5)
            if sub in ("shear", "all"):
                A[rng.randrange(3), (rng.randrange(2) + 1) % 3] = 0.0
                a, b = rng.sample(range(3), 2)
                A[a, b] = rng.choice([-1, 1]) * 10 ** rng.uniform(-9.5, -8.5)
            if sub in ("shift", "all"):
                tr = np.array([rng.choice([-1, 1]) * 10 ** rng.uniform(-9, -7) for _ in range(3)])
            R.count("affine-float:near-identity:" + sub)
        mat = np.hstack([A, tr[:, None]])
        Mf = [[Fraction(float(x)) for x in row] for row in mat.tolist()]
        d = det3(Mf)
        scale = 1
        for row in Mf:
            scale *= max(abs(x) for x in row[:3]) or 1
        # vertex arrays of integer type as well (point sets stored as integers): the result is M v + t
        # whatever the type of the coordinates that came in
        fa_count = R.dist.get("affine-float:cases", 0)
        R.count("affine-float:cases")
        vdt = ["<f8", "<i4", "<f8", "<i8", "<f4", "<i2"][fa_count % 6]
        R.count("affine-float:vertex-dtype:" + np.dtype(vdt).name)
        va = np.array(vs, dtype=vdt)
        ta = np.array(ts, dtype="<u4")
        impl = outcome_of(lambda: mesh.affine_transform_mesh(va, ta, mat))
        case = {"kind": kind, "matrix": mat.tolist(), "det": float(d), "vertex_dtype": np.dtype(vdt).name}
        R.case(case, nontrivial=True)
        if impl[0] != "ok":
            R.violation("affine_transform_mesh failed on a float matrix", case, {"impl": impl})
            continue
        v2, t2 = impl[1]
        bad = False
        for v, w in zip(vs, v2.tolist()):
            ex = frac_apply(Mf, v)
            for i in range(3):
                mag = sum(abs(Mf[i][j] * v[j]) for j in range(3)) + abs(Mf[i][3])
                if abs(Fraction(w[i]) - ex[i]) > mag * Fraction(1, 2 ** 45):
                    bad = True
        if bad:
            R.violation("transformed vertices are not M v + t (beyond float64 rounding)", case, {})
        flipped = t2.tolist() != ts
        if abs(d) <= scale * Fraction(1, 10 ** 9):
            near_zero += 1
            R.count("affine-float:det-near-zero (flip decision not judged)")
        else:
            R.count(f"affine-float:{kind}:det{'>' if d > 0 else '<'}0")
            if flipped != (d < 0):
                R.violation("winding rule wrong for a clearly non-singular float matrix", case,
                            {"flipped": flipped})
    R.notes.append("float evaluation of the determinant near zero (|det| <= 1e-9 x product of row maxima) "
                   f"is not judged: {near_zero} such cases this run")

    # ============================================================ mesh-to-precomputed command
    import nibabel as nib
    from nibabel.gifti import GiftiImage, GiftiDataArray
    from neuroglancer_scripts.scripts import mesh_to_precomputed, link_mesh_fragments
    from neuroglancer_scripts import accessor as ngacc
    INFO = {"type": "segmentation", "data_type": "uint8", "num_channels": 1,
            "scales": [{"key": "s0", "size": [4, 4, 4], "resolution": [1, 1, 1], "voxel_offset": [0, 0, 0],
                        "encoding": "raw", "chunk_sizes": [[4, 4, 4]]}]}

    def new_dataset(tag, mesh_key=None):
        d = os.path.join(R.tmp, tag)
        os.makedirs(d)
        info = dict(INFO)
        if mesh_key is not None:
            info["mesh"] = mesh_key
        with open(os.path.join(d, "info"), "w") as f:
            json.dump(info, f)
        return d

    ncmd = 60 if quick else 300
    cmd_cases = []
    for i in range(ncmd):
        vs, ts, c = closed_mesh()
        if i == 0:
            vs, ts = [], []
        kind = rng.choice(["none", "int12", "int16", "int-neg", "float"])
        M = None
        if kind != "none":
            while True:
                M = [[rng.randrange(-3, 4) for _ in range(3)] + [rng.randrange(-50, 51)] for _ in range(3)]
                d = det3(M)
                if d != 0 and (kind != "int-neg" or d < 0):
                    break
            if kind == "float":
                M = [[x + rng.choice([0, 0.5, 0.25]) for x in row] for row in M]
                if det3([[Fraction(x) for x in r] for r in M]) == 0:
                    M[0][0] += 1
        if i % 6 == 5 and vs:
            kind = "near-identity"
            vs = [[5 * x for x in v] for v in vs]
            M = [[1 + 1e-5, 0.0, 0.0, 0.0], [0.0, 1 - 8e-6, 0.0, 0.0], [0.0, 0.0, 1 + 5e-6, rng.choice([0.0, 1e-7])]]
        cmd_cases.append((i, vs, ts, kind, M))
    for i, vs, ts, kind, M in cmd_cases:
        mesh_dir_opt = rng.choice([None, None, "mesh", "frags"])
        pre_key = rng.choice([None, None, "mesh", "other"])
        dest = new_dataset(f"ds{i}", pre_key)
        gii = os.path.join(R.tmp, f"m{i}.surf.gii")
        # one point set in three is stored with an integer datatype (the coordinates are whole millimetres)
        int_points = i % 3 == 1
        pts = np.array(vs, dtype="<i4" if int_points else "<f4").reshape(len(vs), 3)
        tri = np.array(ts, dtype="<i4").reshape(len(ts), 3)
        nib.save(GiftiImage(darrays=[
            GiftiDataArray(pts, intent="NIFTI_INTENT_POINTSET",
                           datatype="NIFTI_TYPE_INT32" if int_points else "NIFTI_TYPE_FLOAT32"),
            GiftiDataArray(tri, intent="NIFTI_INTENT_TRIANGLE", datatype="NIFTI_TYPE_INT32")]), gii)
        R.count("mesh-cmd:pointset-" + ("int32" if int_points else "float32"))
        argv = ["mesh-to-precomputed", gii, dest]
        gz = rng.random() < 0.5
        if not gz:
            argv.append("--no-gzip")
        if mesh_dir_opt:
            argv += ["--mesh-dir", mesh_dir_opt]
        name = rng.choice([None, "frag_a"])
        if name:
            argv += ["--mesh-name", name]
        if M is not None:
            flat = [x for row in M for x in row] + ([0, 0, 0, 1] if kind == "int16" else [])
            argv.append("--coord-transform=" + ",".join(repr(float(x)) for x in flat))
        as_sub = i < (3 if quick else 12)
        if as_sub:
            r = subprocess.run([PY, "-m", "neuroglancer_scripts.scripts.mesh_to_precomputed"] + argv[1:],
                               stdout=subprocess.PIPE, stderr=subprocess.PIPE, timeout=120,
                               env=dict(os.environ))
            rc = ["ok", r.returncode] if r.returncode in (0, 1) else ["Crash", r.stderr.decode()[-300:]]
        else:
            rc = outcome_of(lambda: mesh_to_precomputed.main(list(argv)))
        eff_dir = mesh_dir_opt or "mesh"
        stored_key = pre_key if pre_key is not None else eff_dir
        expect_rc = 0 if eff_dir == stored_key else 1
        case = {"i": i, "argv": argv[3:], "kind": kind, "nv": len(vs), "pre_key": pre_key, "subprocess": as_sub}
        R.case(case, nontrivial=len(ts) > 0)
        R.count(f"mesh-cmd:{kind}:{'gz' if gz else 'plain'}:rc={rc[1] if rc[0] == 'ok' else rc[0]}")
        if rc != ["ok", expect_rc]:
            R.violation("mesh-to-precomputed exit status differs from the documented behaviour", case, {"rc": rc})
            continue
        with open(os.path.join(dest, "info")) as f:
            info_after = json.load(f)
        if info_after.get("mesh") != stored_key or {k: v for k, v in info_after.items() if k != "mesh"} != INFO:
            R.violation("info 'mesh' key not maintained as documented", case, {"info": info_after})
        if expect_rc == 1:
            continue
        acc = ngacc.get_accessor_for_url(dest, {"gzip": gz})
        mname = name or "m%d.surf" % i
        data = outcome_of(lambda: acc.fetch_file(eff_dir + "/" + mname))
        on_disk = os.path.exists(os.path.join(dest, eff_dir, mname + (".gz" if gz else "")))
        if data[0] != "ok" or not on_disk:
            R.violation("mesh fragment not stored where documented", case, {"fetch": data[0], "on_disk": on_disk})
            continue
        parsed = spec_parse_py(data[1])
        if parsed is None:
            R.violation("mesh fragment written by the command is not valid precomputed data", case, {})
            continue
        Mf = [[Fraction(x) for x in row] for row in M] if M is not None else \
            [[Fraction(int(i == j)) for j in range(3)] + [Fraction(0)] for i in range(3)]
        d = det3(Mf)
        want_t = [list(reversed(t)) for t in ts] if d < 0 else [list(t) for t in ts]
        if parsed[1] != want_t:
            R.violation("triangles of the converted mesh: winding rule / indices wrong", case,
                        {"got": parsed[1][:3], "want": want_t[:3]})
        got_v = np.array(parsed[0], dtype="<u4").reshape(len(vs), 3).view("<f4")
        exact = all(float(x).is_integer() for row in (M or []) for x in row)
        for v, w in zip(vs, got_v.tolist()):
            ex = [x * 10 ** 6 for x in frac_apply(Mf, v)]
            for k in range(3):
                if exact and abs(ex[k]) < 10 ** 9:
                    okv = Fraction(w[k]) == ex[k]
                else:
                    mag = (sum(abs(Mf[k][j] * v[j]) for j in range(3)) + abs(Mf[k][3])) * 10 ** 6
                    okv = abs(Fraction(w[k]) - ex[k]) <= mag * Fraction(1, 2 ** 21)
                if not okv:
                    R.violation("converted vertex is not 1e6 x (M v + t) nanometres", case,
                                {"got": w, "want": [float(x) for x in ex]})
                    break
        if exact:
            # exact stream: the model predicts the file byte for byte
            intM = [[int(x) for x in row] for row in M] if M is not None else [[1, 0, 0, 0], [0, 1, 0, 0], [0, 0, 1, 0]]
            rep = R.model.call("affine", [3, [0, 0, 0, 1],
                                          [intM[0][:3], intM[1][:3], intM[2][:3], [intM[0][3], intM[1][3], intM[2][3]]],
                                          vs, ts])
            mo = model_outcome(rep[0])
            nm = R.model.call("affine", [3, [0, 0, 0, 1], [[1, 0, 0], [0, 1, 0], [0, 0, 1], [0, 0, 0]], mo[1][0], []])[4]
            bits = f32bits(np.array(nm, dtype="<f4").reshape(len(vs), 3)).tolist()
            wr = model_outcome(R.model.call("mesh_write", [Atom("uint32"), bits, mo[1][1]])[0])
            if wr != ["ok", data[1]]:
                R.disagree("mesh-to-precomputed output vs affine + mm_to_nm + write_mesh", case,
                           data[1].hex()[:80], "model bytes differ")

    # ------------------------------------------------------------ library entry point, several meshes
    # The same transform array (and the same options dict) serves several conversions in one process:
    # every one of them must give 1e6 x (M v + t), and the caller's matrix must not change.
    for i in range(10 if quick else 60):
        while True:
            M = [[rng.randrange(-3, 4) for _ in range(3)] + [rng.randrange(-50, 51)] for _ in range(3)]
            if det3(M) != 0:
                break
        Mnp = np.array(M + ([[0, 0, 0, 1]] if rng.random() < 0.5 else []), dtype=np.float64)
        M_before = Mnp.copy()
        dest = new_dataset(f"lib{i}", None)
        opts = {"gzip": False}
        case = {"library_call": "mesh_file_to_precomputed x3 with one coord_transform array", "M": M}
        R.case(case, nontrivial=True)
        for k in range(3):
            vs, ts, c = closed_mesh()
            gii = os.path.join(R.tmp, f"lib{i}_{k}.surf.gii")
            pts = np.array(vs, dtype="<f4").reshape(len(vs), 3)
            tri = np.array(ts, dtype="<i4").reshape(len(ts), 3)
            nib.save(GiftiImage(darrays=[
                GiftiDataArray(pts, intent="NIFTI_INTENT_POINTSET", datatype="NIFTI_TYPE_FLOAT32"),
                GiftiDataArray(tri, intent="NIFTI_INTENT_TRIANGLE", datatype="NIFTI_TYPE_INT32")]), gii)
            rc = outcome_of(lambda: mesh_to_precomputed.mesh_file_to_precomputed(
                gii, dest, mesh_name=f"f{k}", coord_transform=Mnp, options=opts))
            R.count(f"mesh-lib:call{k}:{rc[0]}")
            if rc[0] != "ok":
                R.violation("mesh_file_to_precomputed failed on a repeated call with the same transform", dict(case, call=k),
                            {"rc": rc})
                break
            data = outcome_of(lambda: ngacc.get_accessor_for_url(dest, {"gzip": False}).fetch_file(f"mesh/f{k}"))
            parsed = spec_parse_py(data[1]) if data[0] == "ok" else None
            if parsed is None:
                R.violation("mesh fragment of a repeated library call is missing or invalid", dict(case, call=k), {})
                break
            Mf = [[Fraction(x) for x in row] for row in M]
            got_v = np.array(parsed[0], dtype="<u4").reshape(len(vs), 3).view("<f4")
            bad = None
            for v, w in zip(vs, got_v.tolist()):
                ex = [x * 10 ** 6 for x in frac_apply(Mf, v)]
                for a in range(3):
                    mag = (sum(abs(Mf[a][j] * v[j]) for j in range(3)) + abs(Mf[a][3])) * 10 ** 6
                    if abs(Fraction(w[a]) - ex[a]) > mag * Fraction(1, 2 ** 21):
                        bad = (w, [float(x) for x in ex])
                        break
                if bad:
                    break
            if bad:
                R.violation("vertex of a later conversion with the same transform array is not 1e6 x (M v + t)",
                            dict(case, call=k), {"got": bad[0], "want": bad[1]})
                break
            if not np.array_equal(Mnp, M_before):
                R.violation("mesh_file_to_precomputed modified the caller's coord_transform", dict(case, call=k),
                            {"before": M_before.tolist(), "after": Mnp.tolist()})
                break

    # ============================================================ VTK export
    ver = neuroglancer_scripts.__version__.encode()
    vcases = []
    titles = ["", "t", "brain surface", "x" * 150, "x" * 164, "x" * 165, "x" * 166, "y" * 212, "y" * 213,
              "z" * 255, "z" * 400, "has\nnewline"]
    names = ["curv", "a", "thick_ness", "a b", " lead", "tail ", "", "\tt", "7", "x\ty", "a\nb"]
    for i in range(250 if quick else 1500):
        nv = rng.choice([0, 1, 3, 4, rng.randrange(1, 40)])
        nt = rng.choice([0, 1, 2, rng.randrange(0, 60)])
        v, t = random_mesh(rng, nv, nt)
        v = np.where(np.isfinite(v), v, 0).astype("<f4")
        tdt = rng.choice(["uint32", "int32", "int64", "uint8"])
        t = (t % 200).astype(tdt) if tdt == "uint8" else t.astype(tdt)
        if tdt in ("int32", "int64") and nt and rng.random() < 0.15:
            t[0, 0] = -1
        title = titles[i] if i < len(titles) else rng.choice(titles[:3] + ["q" * rng.randrange(0, 300)])
        nattr = rng.choice([0, 0, 1, 2, 3])
        attrs = []
        for _a in range(nattr):
            k = rng.choice([1, 1, 2, 3, 4, 5])
            nd = 1 if k == 1 and rng.random() < 0.7 else 2
            nrows = nv if rng.random() < 0.93 else nv + 1
            vals = np.array([[rng.uniform(-5, 5) for _ in range(k)] for _ in range(nrows)],
                            dtype=rng.choice(["<f4", "<f8"])).reshape(nrows, k)
            nm = names[(i + _a) % len(names)] if rng.random() < 0.5 else rng.choice(names[:3])
            attrs.append((nm, vals[:, 0] if nd == 1 else vals, nd, k, nrows))
        vcases.append((v, t, title, attrs))
    reqs = []
    for v, t, title, attrs in vcases:
        reqs.append(("vtk_write", [title.encode(), ver, f32bits(v).tolist(), t.astype("int64").tolist(),
                                   [[nm.encode(), nrows, nd, k, f32bits(np.asarray(vals).reshape(nrows, k)).tolist()]
                                    for nm, vals, nd, k, nrows in attrs]]))
    replies = R.model.batch(reqs)
    for (v, t, title, attrs), rep in zip(vcases, replies):
        buf = io.StringIO()
        impl = outcome_of(lambda: mesh.save_mesh_as_neuroglancer_vtk(
            buf, v, t, vertex_attributes=[{"name": nm, "values": vals} for nm, vals, *_ in attrs] or None,
            title=title))
        text = buf.getvalue()
        m_out, m_guard, m_gram, m_expect = rep
        mod = model_outcome(m_out)
        case = {"nv": int(v.shape[0]), "nt": int(t.shape[0]), "title_len": len(title),
                "title_head": title[:20], "attr_names": [a[0] for a in attrs],
                "attr_k": [a[3] for a in attrs], "attr_rows": [a[4] for a in attrs],
                "neg_index": bool(t.size and t.min() < 0)}
        R.case(case, nontrivial=t.shape[0] >= 1)
        R.count(f"vtk:{impl[0] if impl[0] != 'Crash' else impl[1]}:attrs={len(attrs)}")
        if impl[0] != mod[0] or (impl[0] != "ok" and impl != mod):
            R.disagree("save_mesh_as_neuroglancer_vtk outcome vs vtk_write", case, impl, mod[:2])
        if impl[0] != "ok":
            # inputs the writer must refuse: anything else than its AssertionError is a failure
            if impl != ["Crash", "AssertionError"]:
                R.violation("VTK writer failed with an unexpected error", case, {"impl": impl})
            continue
        model_ok = mod[0] == "ok"
        if not text.endswith("\n"):
            R.violation("VTK text does not end with a newline", case, {})
        lines = text.split("\n")[:-1]
        if model_ok:
            mtext = "".join(render_text(ml) + "\n" for ml in mod[1])
            if mtext != text:
                R.disagree("VTK text vs model lines", case, lines[:8], mtext.split("\n")[:8])
        # oracle: the grammar Neuroglancer accepts, on the text really written
        guard = m_guard == Atom("true")
        neg = bool(t.size and t.min() < 0)
        zero_k = any(k < 1 for _nm, _v, _nd, k, _n in attrs)
        py_guard = not neg and not zero_k and "\r" not in title
        if model_ok and py_guard != guard:
            R.disagree("vtk_guard classification", case, py_guard, guard)
        try:
            got = vtk_parse_py(text.encode())
            verdict = None
            pts = f32bits(np.array(got["pts"], dtype="<f4").reshape(len(got["pts"]), 3)).tolist()
            if pts != f32bits(v).tolist() or got["tris"] != t.astype("int64").tolist():
                verdict = "parsed mesh differs from the exported mesh"
            elif [[a[0], a[1]] for a in got["attrs"]] != [[nm, k] for nm, _v, _nd, k, _n in attrs]:
                verdict = "parsed attributes differ (names / component counts)"
            else:
                for a, (nm, vals, nd, k, nrows) in zip(got["attrs"], attrs):
                    if f32bits(np.array(a[2], dtype="<f4").reshape(nrows, k)).tolist() != \
                            f32bits(np.asarray(vals).reshape(nrows, k)).tolist():
                        verdict = "parsed attribute values differ"
        except VtkReject as exc:
            verdict = f"rejected by the grammar: {exc}"
        gram_ok = str(m_gram[0]) == "some" and m_gram[1] == m_expect
        line_break_in_name = any(ch in nm for nm, *_ in attrs for ch in "\n\r\v\f")
        if model_ok and (verdict is None) != gram_ok and not line_break_in_name:
            R.disagree("extracted vtk_grammar verdict vs the regular-expression reader", case, verdict,
                       str(m_gram)[:80])
        if verdict is not None:
            if neg:
                R.count("vtk:negative-index-input (malformed input, not judged)")
            else:
                R.violation("VTK export not accepted by the Neuroglancer subset grammar", case,
                            {"verdict": verdict})

    # ============================================================ fragment links
    alphabet = "abcXYZ019._-:/ \"\\\t,'é"[:-1] + "\x01\x7f{}[]"
    lcases = []
    for i in range(200 if quick else 800):
        nrows = rng.choice([0, 1, 2, 3, 5])
        rows = []
        kind = rng.choice(["valid", "valid", "valid", "dup", "blank", "badlabel", "dotdot", "oddlabel"])
        labels = rng.sample(range(0, 70000), nrows)
        for lab in labels:
            nf = rng.choice([0, 1, 2, 3, 4, 5, 5, 8, 13])
            frags = ["".join(rng.choice(alphabet) for _ in range(rng.randrange(0, 8))) for _ in range(nf)]
            frags = [f for f in frags if ".." not in f.split("/")]
            if i % 4 == 1 and frags:
                # names that look like a stored form or carry a suffix of their own (a fragment may be called
                # anything): they must appear in the link file exactly as given
                frags[rng.randrange(len(frags))] = rng.choice(LOOKALIKE_NAMES)
            rows.append([str(lab)] + frags)
        if rows and kind == "dup":
            rows.append([rows[0][0], "again"])
        if kind == "blank":
            rows.insert(rng.randrange(len(rows) + 1), [])
        if rows and kind == "badlabel":
            rows[rng.randrange(len(rows))][0] = rng.choice(["", "x1", "1.0", "0x10", "1__0", "- 1", "_1"])
        if rows and kind == "dotdot":
            rows[rng.randrange(len(rows))].append(rng.choice(["..", "a/../b", "../x"]))
        if rows and kind == "oddlabel":
            r0 = rows[rng.randrange(len(rows))]
            r0[0] = rng.choice([" %s ", "+%s", "-%s", "0%s", "%s\t", "1_%s"]) % r0[0]
        no_colon = rng.random() < 0.5
        mesh_key = rng.choice(["mesh", "mesh", "frags/sub"])
        existing = []
        if rows and rows[0] and rng.random() < 0.15:
            try:
                existing = [mesh_key + "/" + str(int(rows[-1][0])) + ("" if no_colon else ":0")]
            except (ValueError, IndexError):
                existing = []
        lcases.append((rows, no_colon, mesh_key, existing, kind))
    replies = R.model.batch([("links", [mk.encode(), nc, [e.encode() for e in ex],
                                        [[c.encode() for c in row] for row in rows]])
                             for rows, nc, mk, ex, _k in lcases])
    read_reqs = []
    for idx, ((rows, nc, mk, ex, kind), rep) in enumerate(zip(lcases, replies)):
        dest = new_dataset(f"lk{idx}", mk)
        os.makedirs(os.path.join(dest, mk))
        for e in ex:
            with open(os.path.join(dest, e), "w") as f:
                f.write("old")
        table = os.path.join(R.tmp, f"t{idx}.csv")
        with open(table, "w", newline="") as f:
            csv.writer(f).writerows(rows)
        with open(table, newline="") as f:
            if [r for r in csv.reader(f)] != rows:
                R.notes.append("csv round trip changed a row (external component)")
                continue
        argv = ["link-mesh-fragments", table, dest] + (["--no-colon-suffix"] if nc else [])
        as_sub = idx < (2 if quick else 10)
        if as_sub:
            r = subprocess.run([PY, "-m", "neuroglancer_scripts.scripts.link_mesh_fragments"] + argv[1:],
                               stdout=subprocess.PIPE, stderr=subprocess.PIPE, timeout=120)
            impl = ["ok", []] if r.returncode == 0 else ["failed"]
        else:
            impl = outcome_of(lambda: link_mesh_fragments.main(list(argv)))
            impl = ["ok", []] if impl == ["ok", 0] else impl
        files = {}
        for root, _d, fns in os.walk(os.path.join(dest, mk)):
            for fn in fns:
                rel = os.path.relpath(os.path.join(root, fn), dest)
                if rel not in ex:
                    files[rel] = open(os.path.join(root, fn), "rb").read()
        m_files, m_res = rep
        mod = model_outcome(m_res)
        case = {"rows": rows, "no_colon": nc, "mesh": mk, "existing": ex, "kind": kind, "subprocess": as_sub}
        R.case(case, nontrivial=any(len(r) > 1 for r in rows))
        R.count(f"links:{kind}:{impl[0] if impl[0] != 'Crash' else impl[1]}")
        if as_sub:
            if (impl[0] == "ok") != (mod[0] == "ok"):
                R.disagree("link-mesh-fragments exit status vs model", case, impl, mod)
        elif impl != mod:
            R.disagree("make_mesh_fragment_links outcome vs model", case, impl, mod)
        mfiles = {os.path.normpath(n.decode("latin1")): c for n, c in m_files}
        if mfiles != files:
            R.disagree("link files vs model", case, {k: v.decode() for k, v in files.items()},
                       {k: v.decode("latin1") for k, v in mfiles.items()})
        # oracle
        clean = kind in ("valid", "oddlabel") and not ex
        if clean:
            want = {}
            for row in rows:
                want[os.path.normpath(f"{mk}/{int(row[0])}" + ("" if nc else ":0"))] = row[1:]
            got = {}
            try:
                for k, v in files.items():
                    obj = json.loads(v.decode("utf-8"))
                    assert list(obj.keys()) == ["fragments"]
                    got[k] = obj["fragments"]
            except Exception as exc:  # noqa: BLE001
                got = {"unparseable": repr(exc)}
            if impl[0] != "ok" or got != want:
                R.violation("fragment-link files do not list exactly the given fragments", case,
                            {"impl": impl, "files": {k: v.decode() for k, v in files.items()}})
        if ex and impl[0] == "ok":
            # a link file existed for one of the labels: a run that reports success must have replaced it
            for e in ex:
                lab = os.path.basename(e).split(":")[0]
                want_frags = [row[1:] for row in rows if row and str(int(row[0])) == lab][-1:]
                try:
                    got_frags = [json.loads(open(os.path.join(dest, e)).read())["fragments"]]
                except Exception:  # noqa: BLE001
                    got_frags = ["<stale or unreadable>"]
                if got_frags != want_frags:
                    R.violation("link-mesh-fragments reported success but an existing link file keeps content "
                                "that does not list the fragments given", case,
                                {"file": e, "content": open(os.path.join(dest, e)).read()[:80]})
        for k, v in files.items():
            read_reqs.append((k, v))

    # second run on a dataset that is already linked, with a changed fragment list for one label:
    # either the run fails, or the link files list the new fragments -- never success with stale files
    seq_l = []
    for i in range(24 if quick else 150):
        labels = rng.sample(range(1, 5000), rng.choice([1, 2, 3]))
        rows1 = [[str(lab)] + [f"f{lab}_{q}" for q in range(rng.randrange(0, 4))] for lab in labels]
        rows2 = [list(r) for r in rows1]
        k = i % len(rows2)
        rows2[k] = [rows2[k][0]] + rng.choice([["new_a"], ["new_a", "new_b"], rows2[k][1:] + ["added"], []])
        if rows2[k] == rows1[k]:
            rows2[k].append("added")
        if i % 3 == 0:
            rows2.insert(rng.randrange(len(rows2) + 1), [str(rng.randrange(6000, 7000)), "fresh"])
        seq_l.append((rows1, rows2, i % 2 == 0, rng.choice(["mesh", "frags/sub"])))
    for i, (rows1, rows2, nc, mk) in enumerate(seq_l):
        dest = new_dataset(f"lk2_{i}", mk)
        os.makedirs(os.path.join(dest, mk))
        outs = []
        snaps = []
        for step, rows in enumerate((rows1, rows2)):
            table = os.path.join(R.tmp, f"t2_{i}_{step}.csv")
            with open(table, "w", newline="") as f:
                csv.writer(f).writerows(rows)
            argv = ["link-mesh-fragments", table, dest] + (["--no-colon-suffix"] if nc else [])
            if i < (2 if quick else 6):
                r = subprocess.run([PY, "-m", "neuroglancer_scripts.scripts.link_mesh_fragments"] + argv[1:],
                                   stdout=subprocess.PIPE, stderr=subprocess.PIPE, timeout=120)
                o = ["ok", []] if r.returncode == 0 else ["failed"]
            else:
                o = outcome_of(lambda: link_mesh_fragments.main(list(argv)))
                o = ["ok", []] if o == ["ok", 0] else o
            outs.append(o)
            snap = {}
            for root, _d, fns in os.walk(os.path.join(dest, mk)):
                for fn in fns:
                    snap[os.path.relpath(os.path.join(root, fn), dest)] = open(os.path.join(root, fn), "rb").read()
            snaps.append(snap)
        case = {"sequence": "link-mesh-fragments twice", "first_table": rows1, "second_table": rows2,
                "no_colon": nc, "mesh": mk}
        R.case(case, nontrivial=True)
        R.count(f"links-twice:second={outs[1][0] if outs[1][0] != 'Crash' else outs[1][1]}")
        if outs[0][0] != "ok":
            R.violation("first link-mesh-fragments run on a fresh dataset failed", case, {"impl": outs[0]})
            continue
        # the code as it is: the second run stops with the accessor's error at the first label already linked
        rep2 = R.model.call("links", [mk.encode(), nc, [n.encode() for n in sorted(snaps[0])],
                                      [[c.encode() for c in row] for row in rows2]])
        m_files2 = {os.path.normpath(n.decode("latin1")): c for n, c in rep2[0]}
        m_res2 = model_outcome(rep2[1])
        new_files = {k2: v for k2, v in snaps[1].items() if k2 not in snaps[0]}
        if (outs[1][0] == "ok") != (m_res2[0] == "ok") or m_files2 != new_files or \
                any(snaps[1][k2] != v for k2, v in snaps[0].items()):
            R.disagree("second link-mesh-fragments run vs model (existing link files)", case,
                       [outs[1], sorted(new_files)], [m_res2, sorted(m_files2)])
        if outs[1][0] == "ok":
            for row in rows2:
                name = os.path.normpath(f"{mk}/{int(row[0])}" + ("" if nc else ":0"))
                try:
                    got = json.loads(snaps[1][name].decode())["fragments"]
                except Exception:  # noqa: BLE001
                    got = None
                if got != row[1:]:
                    R.violation("second link-mesh-fragments run reported success but a link file does not list "
                                "the fragments given for its label", case,
                                {"file": name, "content": snaps[1].get(name, b"<absent>").decode()[:80],
                                 "given": row[1:]})
                    break
    # fragment names outside ASCII (the CSV is UTF-8 text).  The Coq model of the link files is ASCII only, so
    # these are judged by the oracle alone: the link file, decoded as JSON, lists exactly the names given.
    uni_names = ["caud\u00e9", "\u6d77\u99ac_L", "na\u00efve,frag", "\u00df", "\u00e9\"q", "\U0001f9e0_left", "plain",
                 "\u0394v2", "pr\u00e9 post", "\u00ff\u00fe"]
    import locale
    utf8_env = locale.getpreferredencoding(False).lower().replace("-", "") == "utf8"
    if not utf8_env:
        R.notes.append("non-ASCII fragment names not exercised: the process's default text encoding is not UTF-8 "
                       "(the script reads the CSV with the default encoding)")
    for i in range((12 if quick else 60) if utf8_env else 0):
        labels = rng.sample(range(1, 9000), rng.choice([1, 2, 3]))
        rows = [[str(lab)] + rng.sample(uni_names, rng.randrange(1, 5)) for lab in labels]
        nc = i % 2 == 0
        mk = "mesh"
        dest = new_dataset(f"lku_{i}", mk)
        os.makedirs(os.path.join(dest, mk))
        table = os.path.join(R.tmp, f"tu_{i}.csv")
        with open(table, "w", newline="", encoding="utf-8") as f:
            csv.writer(f).writerows(rows)
        argv = ["link-mesh-fragments", table, dest] + (["--no-colon-suffix"] if nc else [])
        if i < 2:
            r = subprocess.run([PY, "-m", "neuroglancer_scripts.scripts.link_mesh_fragments"] + argv[1:],
                               stdout=subprocess.PIPE, stderr=subprocess.PIPE, timeout=120,
                               env=dict(os.environ, PYTHONUTF8="1"))
            o = ["ok", []] if r.returncode == 0 else ["failed", r.stderr.decode(errors="replace")[-200:]]
        else:
            o = outcome_of(lambda: link_mesh_fragments.main(list(argv)))
            o = ["ok", []] if o == ["ok", 0] else o
        case = {"table": rows, "no_colon": nc, "kind": "non-ascii fragment names (UTF-8 CSV)", "subprocess": i < 2}
        R.case(case, nontrivial=True)
        R.count(f"links:non-ascii:{o[0]}")
        got = {}
        try:
            for fn in os.listdir(os.path.join(dest, mk)):
                with open(os.path.join(dest, mk, fn), "rb") as f:
                    obj = json.loads(f.read().decode("utf-8"))
                assert list(obj.keys()) == ["fragments"]
                got[fn] = obj["fragments"]
        except Exception as exc:  # noqa: BLE001
            got = {"unparseable": repr(exc)}
        want = {str(int(row[0])) + ("" if nc else ":0"): row[1:] for row in rows}
        if o[0] != "ok" or got != want:
            R.violation("fragment-link files do not list exactly the given (non-ASCII) fragment names", case,
                        {"impl": o, "files": got, "want": want})
    replies = R.model.batch([("links_read", v) for _k, v in read_reqs])
    for (k, v), rep in zip(read_reqs, replies):
        want = json.loads(v.decode())["fragments"]
        got = None if str(rep[0]) == "none" else [x.decode("latin1") for x in rep[1]]
        if got != want:
            R.violation("extracted spec_read_links disagrees with json.loads on a link file", {"file": k},
                        {"content": v.decode(), "spec": str(rep)[:200]})

    # int(str) model
    cells = ["5", " 12 ", "1_0", "+5", "-3", "\x1f5", "", "0x10", "1__0", "_1", "01", "-0", "- 1", "1_", "12\n",
             "\t7", "+", "-", "٣", "1 2", "00_1"]
    cells = [c for c in cells if all(ord(ch) < 128 for ch in c)]
    for _ in range(100):
        cells.append("".join(rng.choice("0123456789_+- \t") for _ in range(rng.randrange(0, 6))))
    replies = R.model.batch([("py_int", c.encode()) for c in cells])
    for c, rep in zip(cells, replies):
        impl = outcome_of(lambda: int(c))
        got = ["ok", rep[1]] if str(rep[0]) == "some" else ["Crash", "ValueError"]
        R.count("py_int:" + impl[0])
        if impl != got:
            R.disagree("int(str) vs py_int", {"cell": c}, impl, got)
    _big_mesh_stream(R)
    logging.disable(logging.NOTSET)


def replay(R, payload):
    """Re-executes the recorded run (generators are deterministic in the seed
    and tier stored in the replay file) and reports whether a failure of the
    recorded class is still observed on the current tree."""
    import random
    case = payload.get("case", {})
    if isinstance(case.get("bytes"), str) and case["bytes"].startswith("x") and case.get("len", 10 ** 9) <= 120:
        b = bytes.fromhex(case["bytes"][1:])
        impl = read_impl(b)
        spec = spec_parse_py(b)
        good = (impl == ["ok", spec]) if spec is not None else (impl == ["FormatErr"])
        return not good
    R.tier = payload.get("tier", R.tier)
    R.rng = random.Random(f"{R.pid}:{payload.get('seed', 0)}")
    run(R)
    want = payload.get("what")
    if payload.get("kind") == "property-violation":
        return any(v["what"] == want for v in R.violations) if want else bool(R.violations)
    return bool(R.violations or R.disagreements)
