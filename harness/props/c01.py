"""C01 — volume conversion preserves every voxel of the input image.

End-to-end: synthetic NIfTI files -> real commands (--generate-info,
generate-scales-info, volume-to-precomputed) -> scale 0 read back through a
fresh accessor and PrecomputedIO.read_chunk -> compared voxel by voxel with an
expectation computed independently (exact rational nearest-saturating
conversion of the nibabel array).  Correspondence with the Coq model
(coq/theories/Pipe/VolModel.v): the sequence of write_chunk calls (coordinates
and contents) made by volume_to_precomputed equals the model's convert_ops.
"""
import json
import os
from fractions import Fraction

import numpy as np

from harness import pipeline
from harness.common import Atom

RULE = ("random volumes: shapes 1..13 per axis (size-1 axes, sizes not divisible by the chunk size), "
        "3-D / 4-D (1..4 channels) / RGB, 10 on-disk dtypes, header scalings, --ignore-scaling, --mmap, "
        "--input-min/max, target data types, chunk sizes 1..8, raw / compressed_segmentation, "
        "deep/flat x gzip/no-gzip x sharded. non-trivial = >= 2 chunks along some axis and a size not "
        "divisible by the chunk size, or a value mapping other than the identity")

DISK = ["uint8", "int8", "uint16", "int16", "uint32", "int32", "uint64", "int64", "float32", "float64"]
NG = ["uint8", "uint16", "uint32", "uint64", "float32"]


def nearest_sat(v, dt):
    """Exact reference: nearest representable value of the target type,
    half to even, saturating.  v: Fraction."""
    dt = np.dtype(dt)
    if dt.kind in "ui":
        lo, hi = int(np.iinfo(dt).min), int(np.iinfo(dt).max)
        fl = v.numerator // v.denominator
        r = v - fl
        if r > Fraction(1, 2) or (r == Fraction(1, 2) and fl % 2 == 1):
            fl += 1
        return max(lo, min(hi, fl))
    raise ValueError


def frac_of_float(v):
    """Exact value of a float as a Fraction; +-inf as a value beyond every target range."""
    v = float(v)
    if v == float("inf"):
        return Fraction(10 ** 60)
    if v == float("-inf"):
        return Fraction(-10 ** 60)
    return Fraction(v)


def gen_values(rng, dt, n, safe_for):
    """Values of on-disk dtype dt, kept outside the regions of the C11 known
    findings (|v| < 2^53 for 64-bit integers; floats within the target range
    margins are allowed since clipping is exact there)."""
    dt = np.dtype(dt)
    if dt.kind in "ui":
        lo, hi = int(np.iinfo(dt).min), int(np.iinfo(dt).max)
        if dt.itemsize == 8:
            lo, hi = max(lo, -(2 ** 52)), min(hi, 2 ** 52)
        pool = [lo, hi, 0, 1, lo + 1, hi - 1, 255, 256, 65535, 65536, 127, 128, -1, -128]
        pool = [p for p in pool if lo <= p <= hi]
        vals = [rng.choice(pool) if rng.random() < 0.4 else rng.randrange(lo, hi + 1) for _ in range(n)]
        return np.array(vals, dtype=dt)
    pool = [0.0, 0.5, 1.5, 2.5, -0.5, -1.5, 254.5, 255.5, 256.0, 65535.5, 1e6, -3.25, 0.49999, 1e-3]
    if safe_for == "huge":
        # far above every integer target range (saturation at the top, up to and including 2^64 and inf)
        pool = pool + [2.0 ** 32, 2.0 ** 32 - 1, 2.0 ** 63, 2.0 ** 64, 1.8e19, 3e19, 1e30, float("inf"), -1e30,
                       4294967040.0, 4294967296.0 * 3]
    vals = [rng.choice(pool) if rng.random() < 0.5 else rng.uniform(-300, 70000) for _ in range(n)]
    return np.array(vals, dtype=dt)


def run(R):
    R.rule = RULE
    rng = R.rng
    quick = R.tier == "quick"
    n = 90 if quick else 1500
    for i in range(n):
        _one(R, rng, i)


def _one(R, rng, i):
    from neuroglancer_scripts import precomputed_io
    import nibabel as nib
    d = os.path.join(R.tmp, f"v{i}")
    os.makedirs(d)
    layout = rng.choice(["3d", "3d", "4d", "rgb"])
    shape = [rng.choice([1, 1, 2, 3, 4, 5, 7, 8, 9, 13, rng.randrange(1, 14)]) for _ in range(3)]
    many_shards = i == 10          # 4096 one-voxel chunks spread over 512 shard files, each visited 8 times
    # a 3 x 3 x 1 chunk grid in one shard with 8 minishards: the chunk identifiers 0,1,2,3,4,6,8,9,12 leave
    # minishard 5 (and 7) unused BETWEEN used ones, and several holes inside the used identifier range
    gappy = i in (11, 12)          # 12: the same grid in ONE minishard (three separate holes: 5, 7, 10-11)
    if many_shards:
        shape = [16, 16, 16]
    if gappy:
        shape = [12, 12, 4]
    disk = rng.choice(DISK)
    forced_huge = {6: ("float64", "uint64"), 7: ("float32", "uint64"), 8: ("float32", "uint32"),
                   9: ("float64", "uint16")}.get(i)
    if forced_huge:
        layout, disk = rng.choice(["3d", "4d"]), forced_huge[0]
    if layout == "rgb":
        disk = "uint8"
        rgb = gen_values(rng, "uint8", int(np.prod(shape)) * 3, None).reshape(shape + [3])
        data = rgb.copy().view(np.dtype([("R", "u1"), ("G", "u1"), ("B", "u1")])).reshape(shape)
        nch = 3
    elif layout == "4d":
        nch = rng.randrange(1, 5)
        data = gen_values(rng, disk, int(np.prod(shape)) * nch, None).reshape(shape + [nch])
    else:
        nch = 1
        data = gen_values(rng, disk, int(np.prod(shape)), None).reshape(shape)
    huge = i >= 6 and disk in ("float32", "float64") and layout != "rgb" and (bool(forced_huge) or rng.random() < 0.35)
    if huge:
        data = gen_values(rng, disk, data.size, "huge").reshape(data.shape)
    slope = inter = None
    if layout != "rgb" and rng.random() < 0.3:
        slope, inter = rng.choice([(2.0, 0.0), (0.5, 1.0), (-1.0, 10.0), (1.0, -3.0)])
    nii = os.path.join(d, "vol.nii" + rng.choice(["", ".gz"]))
    storage = rng.choice(["deep-gz", "flat-gz", "deep", "flat", "sharded", "sharded-gz"])
    if many_shards or gappy:
        storage = "sharded"
    # anisotropic voxel sizes give anisotropic chunk sizes (sharded storage needs cubic chunks)
    vox = (1.0, 1.0, 1.0)
    if not storage.startswith("sharded") and rng.random() < 0.5:
        vox = rng.choice([(1.0, 1.0, 4.0), (0.5, 2.0, 1.0), (3.0, 1.0, 1.0), (1.0, 2.0, 2.0), (1.0, 8.0, 1.0),
                          (2.0, 1.0, 0.25)])
    # one volume in five is stored big-endian (nibabel reads the same values from either byte order)
    big_endian = layout != "rgb" and i % 5 == 3
    pipeline.write_nifti(nii, data, affine=np.diag(list(vox) + [1.0]), slope=slope, inter=inter, big_endian=big_endian)
    if big_endian:
        R.count("file:big-endian")

    ignore = slope is not None and rng.random() < 0.4
    mmap = rng.random() < 0.35
    in_minmax = None
    # the combinations of header scaling x --ignore-scaling x --input-min/max occur in every run
    # (volumes 0..5), not only when the random draws happen to produce them
    forced = {0: (True, True, True), 1: (True, False, True), 2: (True, True, False), 3: (False, False, True),
              4: (True, True, True), 5: (True, False, False)}.get(i) if layout != "rgb" else None
    if forced:
        if forced[0] and slope is None:
            slope, inter = rng.choice([(2.0, 0.0), (0.5, 1.0), (-1.0, 10.0), (1.0, -3.0)])
            pipeline.write_nifti(nii, data, affine=np.diag(list(vox) + [1.0]), slope=slope, inter=inter,
                                 big_endian=big_endian)
        ignore = forced[1] and slope is not None
        if forced[2]:
            in_minmax = rng.choice([(0.0, 255.0), (-100.0, 100.0), (10.0, 20.0), (None, 1000.0)])
            if i == 3:
                in_minmax = rng.choice([(255.0, 0.0), (None, -50.0)])        # inverted: a negative image
    if huge:
        in_minmax = None          # plain conversion of huge values: saturation, no rescaling
        slope = inter = None
        pipeline.write_nifti(nii, data, affine=np.diag(list(vox) + [1.0]), big_endian=big_endian)
        ignore = False
    if layout != "rgb" and in_minmax is None and not huge and rng.random() < 0.2:
        in_minmax = rng.choice([(0.0, 255.0), (None, 1000.0), (-100.0, 100.0), (10.0, 20.0), (-100.0, 0.0),
                                (-2.0, 0.0), (255.0, 0.0), (100.0, -100.0), (None, -50.0)])   # also inverted windows
    target = rng.choice([None, None] + NG)
    if huge:
        target = forced_huge[1] if forced_huge else rng.choice(["uint64", "uint64", "uint32", "uint16", "uint8"])
        R.count("float-huge-values->" + target)
    if in_minmax and target == "uint64":
        target = "uint32"      # float -> uint64 at the top of the range is the C11 finding, kept out of C01
    if in_minmax and target is None and disk in ("uint64", "int64"):
        target = "uint16"
    tcs = rng.choice([1, 2, 4, 8])
    if many_shards:
        tcs = 1
    if gappy:
        tcs = 4
    out = os.path.join(d, "out")

    gen_args = ["--generate-info"]
    conv_opts = []
    if ignore:
        gen_args.append("--ignore-scaling")
        conv_opts.append("--ignore-scaling")
    if in_minmax:
        if in_minmax[0] is not None:
            conv_opts += ["--input-min", in_minmax[0]]
        conv_opts += ["--input-max", in_minmax[1]]
        gen_args += conv_opts[-4:] if in_minmax[0] is not None else conv_opts[-2:]
    if storage.startswith("sharded"):
        gen_args += ["--sharding", "0,9,0" if many_shards else
                     rng.choice(["0,0,0", "1,1,0", "2,1,1", "1,0,2", "3,2,0"]) if not gappy else ("3,0,0" if i == 11 else "0,0,0")]
        if gappy:
            R.count("sharded:3x3x1-grid-" + ("8-minishards-with-gaps" if i == 11 else "one-minishard-three-holes"))
        if many_shards:
            R.count("sharded:512-shard-files")
        if not storage.endswith("gz"):
            gen_args.append("--no-gzip")
    rc, so, se = pipeline.run_script("volume_to_precomputed", gen_args + [nii, out], inprocess=True)
    case = {"layout": layout, "shape": shape, "channels": nch, "disk_dtype": disk, "slope_inter": [slope, inter],
            "ignore_scaling": ignore, "mmap": mmap, "input_min_max": in_minmax, "target": target,
            "storage": storage, "target_chunk_size": tcs, "voxel_size": list(vox)}
    if rc not in (0, 4):
        R.case(case)
        R.violation("--generate-info failed", case, {"rc": rc, "stderr": se[-400:]})
        return
    fullres = os.path.join(out, "info_fullres.json")
    info0 = json.load(open(fullres))
    if target:
        info0["data_type"] = target
    enc = "raw"
    if info0["data_type"] in ("uint32", "uint64") and rng.random() < 0.5:
        enc = "compressed_segmentation"
    with open(fullres, "w") as f:
        json.dump(info0, f)
    gs_args = [fullres, out, "--target-chunk-size", tcs, "--max-scales", 1]
    if enc != "raw":
        gs_args += ["--encoding", enc]
    rc, so, se = pipeline.run_script("generate_scales_info", gs_args, inprocess=True)
    if rc != 0:
        # scale generation is C08's subject (its internal assertion for strong anisotropy with a tiny
        # target chunk size is a C08 finding); without an info there is nothing to convert
        R.case(case)
        R.count("generate-scales-info:failed(C08)")
        return
    info = json.load(open(os.path.join(out, "info")))
    if enc == "compressed_segmentation" and rng.random() < 0.6:
        # non-cubic block sizes (any positive block size is valid in the format)
        bs = rng.choice([[8, 8, 4], [4, 8, 2], [2, 4, 8], [8, 2, 1], [1, 4, 2], [16, 8, 4], [3, 5, 2]])
        for s in info["scales"]:
            s["compressed_segmentation_block_size"] = bs
        with open(os.path.join(out, "info"), "w") as f:
            json.dump(info, f)
        case["cseg_block_size"] = bs
        R.count("cseg-block:non-cubic")
    case["encoding"] = enc
    case["data_type"] = info["data_type"]
    case["chunk_size"] = info["scales"][0]["chunk_sizes"][0]
    acc_opts = {}
    if "flat" in storage:
        conv_opts.append("--flat")
        acc_opts["flat"] = True
    if storage in ("deep", "flat", "sharded"):
        conv_opts.append("--no-gzip")
        acc_opts["gzip"] = False
    if mmap:
        conv_opts.append("--mmap")

    # an earlier generation of the dataset, stored in the OTHER form (plain vs .gz) in the same destination:
    # the conversion below must replace it, whatever the readers probe first
    if not storage.startswith("sharded") and layout != "rgb" and rng.random() < 0.3:
        old_data = (data ^ 1) if data.dtype.kind in "ui" else (data + 1).astype(data.dtype)
        nii_old = os.path.join(d, "old.nii")
        pipeline.write_nifti(nii_old, old_data, affine=np.diag(list(vox) + [1.0]), slope=slope, inter=inter)
        pre_opts = [o for o in conv_opts if o != "--no-gzip"] + ([] if "--no-gzip" in conv_opts else ["--no-gzip"])
        rc0, _so, _se = pipeline.run_script("volume_to_precomputed", pre_opts + [nii_old, out], inprocess=True)
        R.count("destination:holds-an-older-generation-in-the-other-form" + ("" if rc0 == 0 else ":pre-run-failed"))
        case["older_generation_in_other_form"] = True

    # observe the write_chunk calls (in-process runs only) for the model correspondence
    writes = []
    sharded = storage.startswith("sharded")
    orig = precomputed_io.PrecomputedIO.write_chunk

    def spy(self, chunk, scale_key, chunk_coords):
        writes.append((tuple(int(x) for x in chunk_coords), np.array(chunk)))
        return orig(self, chunk, scale_key, chunk_coords)
    if not sharded:
        precomputed_io.PrecomputedIO.write_chunk = spy
    try:
        rc, so, se = pipeline.run_script("volume_to_precomputed", conv_opts + [nii, out], inprocess=not sharded)
    finally:
        precomputed_io.PrecomputedIO.write_chunk = orig
    if rc != 0:
        R.case(case)
        R.count("convert:failed")
        R.violation("volume-to-precomputed failed", case, {"rc": rc, "stderr": se[-600:]})
        return

    # ---- expectation from the nibabel array
    img = nib.load(nii)
    if layout == "rgb":
        a = np.asarray(img.dataobj)
        src = np.stack([a["R"], a["G"], a["B"]], axis=-1)
    elif ignore:
        src = np.asarray(img.dataobj.get_unscaled())
    else:
        src = np.asanyarray(img.dataobj)
    if src.ndim == 3:
        src = src[..., np.newaxis]
    out_dt = np.dtype(info["data_type"])
    tol = 0
    if in_minmax:
        imin = in_minmax[0] if in_minmax[0] is not None else 0
        imax = in_minmax[1]
        if out_dt.kind in "ui":
            omin, omax = int(np.iinfo(out_dt).min), int(np.iinfo(out_dt).max)
        else:
            omin, omax = 0, 1
        k = Fraction(omax - omin) / (Fraction(imax) - Fraction(imin))

        def mapv(v):
            return (frac_of_float(v) - Fraction(imin)) * k + omin
        tol = 1
    else:
        def mapv(v):
            return Fraction(int(v)) if src.dtype.kind in "ui" else frac_of_float(v)
    expected = np.zeros((nch, shape[2], shape[1], shape[0]), dtype=out_dt)
    flat_exact = []
    for idx in np.ndindex(*src.shape):
        x, y, z, c = idx
        v = mapv(src[idx])
        if out_dt.kind in "ui":
            e = nearest_sat(v, out_dt)
        else:
            e = np.float32(float(v)) if in_minmax is None else np.float32(float(v))
        expected[c, z, y, x] = e
        flat_exact.append(v)

    # ---- read back through a fresh accessor
    try:
        info_r, scales = pipeline.read_dataset(out, acc_opts)
    except Exception as e:  # noqa: BLE001
        R.case(case)
        R.violation("the converted dataset cannot be read back", case, {"exc": f"{type(e).__name__}: {e}"[:300]})
        return
    got = scales[info["scales"][0]["key"]]
    cs = info["scales"][0]["chunk_sizes"][0]
    nontriv = any(s > c and s % c for s, c in zip(shape, cs)) or bool(in_minmax or slope or target)
    R.case(case, nontrivial=nontriv)
    R.count(f"{layout}:{storage}:{enc}")
    R.count(f"dtype:{disk}->{info['data_type']}")
    R.count("chunks:" + ("cubic" if len(set(cs)) == 1 else "anisotropic"))
    if slope is not None and in_minmax and not ignore:
        R.count("header-scaling+input-min/max")
    if src.dtype.kind == "i" and (src < 0).any() and out_dt.kind == "u":
        R.count("negative->unsigned")
    if got.shape != expected.shape:
        R.violation("read-back volume has another shape", case, {"got": list(got.shape), "want": list(expected.shape)})
        return
    if out_dt.kind in "ui":
        diff = np.abs(got.astype(object) - expected.astype(object))
        # with --input-min/max the scaling runs in float64 inside nibabel: one unit in the last place of
        # the work type (relative 2^-48 allowed on top of one integer unit)
        lim = np.vectorize(lambda e: tol + (abs(int(e)) >> 48 if tol else 0), otypes=[object])(expected)
        bad = np.argwhere(diff > lim)
    else:
        if in_minmax:
            bad = np.argwhere(~np.isclose(got, expected, rtol=1e-5, atol=1e-6))
        else:
            bad = np.argwhere(got.view(np.uint32) != expected.view(np.uint32))
    if len(bad):
        c, z, y, x = (int(t) for t in bad[0])
        R.violation("read-back voxel differs from the converted input value", case,
                    {"position_xyzc": [x, y, z, c], "got": str(got[c, z, y, x]), "want": str(expected[c, z, y, x]),
                     "input": str(src[x, y, z, c]), "n_bad": int(len(bad))})

    # ---- correspondence with the Coq tiling model (write sequence)
    if not sharded and writes and got.size <= 4000:
        vol_cz = [int(v) for v in np.asarray(got, dtype=out_dt).astype(object).ravel()] \
            if out_dt.kind in "ui" else [int(v) for v in got.view(np.uint32).ravel()]
        rep = R.model.call("vol_writes", [shape, nch, cs, vol_cz])
        impl = [[list(c), [int(v) for v in (a.astype(object).ravel() if out_dt.kind in "ui"
                                            else a.astype(np.float32).view(np.uint32).ravel())]]
                for c, a in writes]
        if rep != impl:
            k = next((j for j, (a, b) in enumerate(zip(rep, impl)) if a != b), min(len(rep), len(impl)))
            R.disagree("sequence of write_chunk calls vs convert_ops of the model", case,
                       impl[k] if k < len(impl) else "missing", rep[k] if k < len(rep) else "missing")


def replay(R, payload):
    return True
