"""C05 — sharded storage returns what was stored, whatever the order of writes.

Correspondence: real ShardedFileAccessor (both buffering strategies, several
store orders, duplicate / late / off-grid stores) vs the writer model; fetches
through a FRESH accessor vs the package-reader model (ShardReader.v) applied to
the files the implementation wrote (also after splitting them into the legacy
.index/.data pair, and after damaging them); MiniShard objects driven directly
vs MiniShard.v (uint64 corner cases of next_cmc).
Oracle: files byte-identical across orders and strategies; every stored chunk
fetched back exactly; a never-stored chunk never yields non-empty bytes.
"""
import itertools
import os
import shutil

from harness.common import Atom, outcome_of, model_outcome
from harness.props import shardlib as L

RULE = ("datasets as for C04, each written under both buffering strategies and two or three store "
        "orders, read back through fresh accessors (every stored id, sampled never-stored ids: gaps, "
        "beyond the last entry, unused minishards, absent shards); separate streams: duplicates / late "
        "stores / off-grid stores, legacy .index/.data split, damaged files, direct MiniShard objects "
        "with 64-bit corner cases. non-trivial = >= 3 chunks and (>= 2 shards or >= 2 minishards)")


def classify_never(ds, ids_stored, cid):
    m, s, p = ds["m"], ds["s"], ds["p"]
    sh, mi = L.ref_route(m, s, p, cid)
    same = [c for c in ids_stored if L.ref_route(m, s, p, c) == (sh, mi)]
    if not any(L.ref_route(m, s, p, c)[0] == sh for c in ids_stored):
        return "absent-shard"
    if not same:
        return "unused-minishard"
    return "gap" if cid < max(same) else "beyond-last"


def fetch_requests(ds, files, ids, orc):
    cfg = L.cfg_of(ds)
    fa = L.files_arg(files)
    return ("c04_pkg_fetch", (lambda t, cfg=cfg, fa=fa, q=list(ids): [cfg, t, fa, q]), orc, "decomp")


def judge_fetches(R, ds, case, coords, ids, impl_outs, model_reps, payload_of, tag):
    ids_stored = sorted(payload_of)
    for c, cid, io, mrep in zip(coords, ids, impl_outs, model_reps):
        mo = model_outcome(mrep)
        if io != mo:
            R.disagree(f"fetch through a fresh accessor ({tag}) vs package-reader model",
                       dict(case, fetch=list(c), id=cid), io, mo)
        if cid in payload_of:
            R.count(f"fetch:{tag}:stored:" + ("exact" if io == ["ok", payload_of[cid]] else io[0]))
            if io != ["ok", payload_of[cid]]:
                R.violation("fetch of a stored chunk does not return the stored bytes",
                            dict(case, fetch=list(c), id=cid), {"impl": io, "stored": payload_of[cid]})
        else:
            kind = classify_never(ds, ids_stored, cid)
            res = "ok-empty" if io == ["ok", b""] else ("ok-DATA" if io[0] == "ok" else
                                                        "/".join(str(x) for x in io))
            R.count(f"fetch:{tag}:never:{kind}:{res}")
            if io[0] == "ok" and io[1] != b"":
                R.violation("a never-stored chunk is reported as containing data",
                            dict(case, fetch=list(c), id=cid), {"impl": io})


def stream_datasets(R, n):
    rng = R.rng
    todo = []
    n_big = 0 if getattr(L.gen_dataset, "__name__", "") == "<lambda>" else (3 if R.tier == "quick" else 9)
    for i in range(n + n_big):
        ds = L.gen_dataset(rng, i) if i < n else L.gen_bigpayload_dataset(rng, i - n)
        orders = ["sorted", "random"] if rng.random() < 0.5 else ["reversed", "random"]
        if rng.random() < 0.3:
            orders.append("random")
        strategies = ["in memory", "on disk"]
        rng.shuffle(strategies)
        variants = []
        for k, order in enumerate(orders):
            strat = strategies[k] if k < 2 else rng.choice(["in memory", "on disk", None])
            variants.append((L.order_ops(ds, rng, order), strat, order))
        if i < 2 and n_big:
            # one more copy written by a child interpreter that exits without close()
            variants.append((L.order_ops(ds, rng, "reversed"), ["child:noclose", "child:O:noclose"][i], "reversed"))
        todo.append((ds, variants))
    # implementation writes
    writes = []
    reqs = []
    for i, (ds, variants) in enumerate(todo):
        row = []
        orc = L.Oracle()
        for k, (ops, strat, order) in enumerate(variants):
            row.append(L.impl_write(R, ds, ops, strat, f"d{i}_{k}"))
            reqs.append(L.run_request(ds, ops, orc))
        writes.append(row)
    reps = L.oracle_batch(R, reqs)
    # compare files
    ri = 0
    freqs = []
    fmeta = []
    for i, ((ds, variants), row) in enumerate(zip(todo, writes)):
        case = {k: ds[k] for k in ("grid", "cs", "sizes", "m", "s", "p", "ie", "de", "subset")}
        case["omit"] = ds.get("omit", [])
        case["sel"] = ds["sel"]
        case["payloads"] = ds["payloads"]
        R.case(case, nontrivial=L.nontrivial(ds))
        R.count(f"subset:{ds['subset']}")
        R.count(f"enc:{ds['ie']}/{ds['de']}")
        files0 = row[0][2]
        for k, ((ops, strat, order), (outs, closed, files, d)) in enumerate(zip(variants, row)):
            R.count(f"write:{strat}:{order}")
            vcase = dict(case, order=order, strategy=strat, ops=[list(o) for o in ops])
            m_outs, m_files = L.parse_run_reply(reps[ri])
            ri += 1
            if outs != m_outs:
                R.disagree("per-store outcomes", vcase, outs, m_outs)
            if any(o[0] != "ok" for o in outs) or closed[0] != "ok":
                R.violation("a valid store sequence raised", vcase, {"outs": [o for o in outs if o[0] != "ok"][:3],
                                                                    "close": closed})
            if L.model_files_plain(m_files) != files:
                R.disagree("shard files after close", vcase, files, m_files)
            if files != files0:
                R.violation("shard files differ between store orders / buffering strategies", vcase,
                            {"first": {"order": variants[0][2], "strategy": variants[0][1]},
                             "differing_files": sorted(n for n in set(files) | set(files0)
                                                       if files.get(n) != files0.get(n))})
        # fetch through fresh accessors from the LAST written copy
        g = ds["grid"]
        payload_of = {L.ref_cmc(g, c): pl for c, pl in zip(ds["sel"], ds["payloads"])}
        allc = list(itertools.product(*[range(k) for k in g]))
        never = [c for c in allc if L.ref_cmc(g, c) not in payload_of]
        pick = never if len(never) <= 10 else rng.sample(never, 10)
        coords = [tuple(c) for c in ds["sel"]] + pick
        ids = [L.ref_cmc(g, c) for c in coords]
        via = "url" if i % 2 == 0 else "ctor"
        d = row[-1][3]
        impl_outs, tname = L.impl_fetch(R, d, ds, coords, via)
        if tname != "ShardedFileAccessor":
            R.violation("get_accessor_for_url did not return the sharded accessor for a sharded dataset",
                        case, {"type": tname})
        freqs.append(fetch_requests(ds, row[-1][2], ids, L.Oracle()))
        fmeta.append((ds, case, coords, ids, impl_outs, payload_of, "shard"))
        # legacy split of the same files
        if i % 4 == 1 and files0:
            ld = os.path.join(R.tmp, f"legacy{i}")
            os.makedirs(os.path.join(ld, L.KEY))
            shutil.copy(os.path.join(d, "info"), os.path.join(ld, "info"))
            lfiles = {}
            hl = 16 << ds["m"]
            for name, b in row[-1][2].items():
                stem = name[:-6]
                lfiles[stem + ".index"] = b[:hl]
                lfiles[stem + ".data"] = b[hl:]
            for name, b in lfiles.items():
                with open(os.path.join(ld, L.KEY, name), "wb") as f:
                    f.write(b)
            impl_outs, _ = L.impl_fetch(R, ld, ds, coords, via)
            freqs.append(fetch_requests(ds, lfiles, ids, L.Oracle()))
            fmeta.append((ds, case, coords, ids, impl_outs, payload_of, "legacy"))
    freps = L.oracle_batch(R, freqs)
    for (ds, case, coords, ids, impl_outs, payload_of, tag), rep in zip(fmeta, freps):
        judge_fetches(R, ds, case, coords, ids, impl_outs, rep, payload_of, tag)


def stream_duplicates(R, n):
    """Duplicate, late and invalid stores: the session continues after each
    exception.  Expected content of a chunk = the last store that returned."""
    rng = R.rng
    todo = []
    for i in range(n):
        ds = L.gen_dataset(rng, 1000 + i)
        ops = L.order_ops(ds, rng, rng.choice(["sorted", "random", "reversed"]))
        cs = ds["cs"]
        extra = []
        for _ in range(rng.randrange(1, 6)):
            kind = rng.choice(["dup", "dup", "dup-new-payload", "off-lattice", "outside", "negative"])
            x, y, z, pl = rng.choice(ops)
            if kind == "dup":
                extra.append((x, y, z, pl))
            elif kind == "dup-new-payload":
                extra.append((x, y, z, rng.randbytes(rng.randrange(0, 9))))
            elif kind == "off-lattice" and cs > 1:
                extra.append((x + rng.randrange(1, cs), y, z, pl))
            elif kind == "outside":
                extra.append((ds["grid"][0] * cs, y, z, pl))
            else:
                extra.append((x, -cs, z, pl))
        for e in extra:
            ops.insert(rng.randrange(len(ops) + 1), e)
        R.count("dup-stream:ops", len(ops))
        todo.append((ds, ops, rng.choice(["in memory", "on disk"])))
    writes = [L.impl_write(R, ds, ops, st, f"dup{i}") for i, (ds, ops, st) in enumerate(todo)]
    reps = L.oracle_batch(R, [L.run_request(ds, ops, L.Oracle()) for ds, ops, st in todo])
    freqs, fmeta = [], []
    for (ds, ops, st), (outs, closed, files, d), rep in zip(todo, writes, reps):
        case = {k: ds[k] for k in ("grid", "cs", "sizes", "m", "s", "p", "ie", "de")}
        case.update(stream="duplicates", strategy=st, ops=[list(o) for o in ops])
        R.case(case, nontrivial=True)
        m_outs, m_files = L.parse_run_reply(rep)
        for o in outs:
            R.count("dup-stream:outcome:" + "/".join(str(x) for x in o if x != "none"))
        if outs != m_outs:
            R.disagree("per-store outcomes (duplicates stream)", case, outs, m_outs)
        if closed != ["ok", "none"]:
            R.violation("close() raised after rejected stores", case, {"close": closed})
        if L.model_files_plain(m_files) != files:
            R.disagree("shard files after close (duplicates stream)", case, files, m_files)
        g, cs = ds["grid"], ds["cs"]
        accepted = {}            # id -> payloads of the stores that returned normally
        for (x, y, z, pl), o in zip(ops, outs):
            inside = all(0 <= v // cs < gi and v % cs == 0 for v, gi in zip((x, y, z), g))
            if o[0] == "ok":
                if not inside:
                    R.violation("store outside the grid accepted", case, {"op": [x, y, z]})
                else:
                    accepted.setdefault(L.ref_cmc(g, (x // cs, y // cs, z // cs)), []).append(pl)
            elif o not in (["IOErr"], ["Crash", "RuntimeError"]):
                R.violation("store failed with an unexpected exception class", case, {"op": [x, y, z], "out": o})
        # the property speaks about chunk SETS: a chunk stored exactly once must come back exactly;
        # for a chunk accepted several times the fetch must return one of the accepted payloads
        payload_of = {c: pls[0] for c, pls in accepted.items() if len(pls) == 1}
        multi = {c: pls for c, pls in accepted.items() if len(pls) > 1}
        inv = {L.ref_cmc(g, c): tuple(c) for c in itertools.product(*[range(k) for k in g])}
        ids = sorted(accepted)
        coords = [inv[c] for c in ids]
        impl_outs, _ = L.impl_fetch(R, d, ds, coords, "ctor")
        for cid, io in zip(ids, impl_outs):
            if cid in multi:
                last = io == ["ok", multi[cid][-1]]
                R.count("dup-stream:accepted-twice:" + ("last-wins" if last else
                                                        ("earlier-wins" if io[0] == "ok" and io[1] in multi[cid] else "other")))
                if not (io[0] == "ok" and io[1] in multi[cid]):
                    R.violation("chunk accepted several times: fetch returns none of the accepted payloads",
                                dict(case, id=cid), {"impl": io})
                payload_of[cid] = io[1] if io[0] == "ok" else b""
        freqs.append(fetch_requests(ds, files, ids, L.Oracle()))
        fmeta.append((ds, case, coords, ids, impl_outs, payload_of, "dup"))
    for (ds, case, coords, ids, impl_outs, payload_of, tag), rep in zip(fmeta, L.oracle_batch(R, freqs)):
        judge_fetches(R, ds, case, coords, ids, impl_outs, rep, payload_of, tag)


def stream_damaged(R, n):
    """Package reader on damaged files: correspondence of every failure path
    (short header, bad lengths, walk past the last entry).  Offsets are kept
    small: the model does not cover the machine-dependent band >= 2^34."""
    rng = R.rng
    freqs, fmeta = [], []
    for i in range(n):
        ds = L.gen_dataset(rng, 2000 + i)
        ds["ie"] = rng.choice(["raw", "raw", "gzip"])
        ops = L.order_ops(ds, rng, "random")
        outs, closed, files, d = L.impl_write(R, ds, ops, "in memory", f"dmg{i}")
        if not files:
            continue
        name = rng.choice(sorted(files))
        b = bytearray(files[name])
        kind = rng.choice(["truncate", "truncate-header", "low-byte", "zero-entry", "swap-entries",
                           "extend", "index-word"])
        hl = 16 << ds["m"]
        if kind == "truncate":
            b = b[:rng.randrange(len(b) + 1)]
        elif kind == "truncate-header":
            b = b[:rng.randrange(hl + 1)]
        elif kind == "low-byte":            # low-order bytes of a shard-index word (aligned)
            pos = 8 * rng.randrange(hl // 8) + rng.randrange(2)
            b[pos] = rng.randrange(256)
        elif kind == "zero-entry":
            k = rng.randrange(1 << ds["m"])
            b[16 * k:16 * k + 16] = bytes(16)
        elif kind == "swap-entries" and ds["m"] > 0:
            k = rng.randrange((1 << ds["m"]) - 1)
            b[16 * k:16 * k + 16], b[16 * k + 16:16 * k + 32] = b[16 * k + 16:16 * k + 32], b[16 * k:16 * k + 16]
        elif kind == "extend":
            b += rng.randbytes(rng.randrange(1, 30))
        else:                               # low-order bytes of a word of a minishard index
            ent = [(int.from_bytes(b[16 * k:16 * k + 8], "little"), int.from_bytes(b[16 * k + 8:16 * k + 16], "little"))
                   for k in range(1 << ds["m"])]
            ent = [e for e in ent if e[0] + 2 < e[1] and hl + e[1] <= len(b)] or [(0, 8)]
            a0, b0 = rng.choice(ent)
            nwords = max(1, (b0 - a0) // 8)
            pos = hl + a0 + (8 * rng.randrange(nwords) if ds["ie"] == "raw" else rng.randrange(b0 - a0 - 1))
            b[pos:pos + 2] = rng.randbytes(2)
        files = dict(files)
        files[name] = bytes(b)
        with open(os.path.join(d, L.KEY, name), "wb") as f:
            f.write(files[name])
        g = ds["grid"]
        allc = list(itertools.product(*[range(k) for k in g]))
        coords = allc if len(allc) <= 16 else rng.sample(allc, 16)
        ids = [L.ref_cmc(g, c) for c in coords]
        impl_outs, _ = L.impl_fetch(R, d, ds, coords, "ctor")
        case = {k: ds[k] for k in ("grid", "cs", "sizes", "m", "s", "p", "ie", "de")}
        case.update(stream="damaged", damage=kind, file=name, content=files[name],
                    ops=[list(o) for o in ops])
        R.case(case, nontrivial=True)
        R.count(f"damaged:{kind}")
        freqs.append(fetch_requests(ds, files, ids, L.Oracle()))
        fmeta.append((case, coords, ids, impl_outs))
    for (case, coords, ids, impl_outs), rep in zip(fmeta, L.oracle_batch(R, freqs)):
        for c, cid, io, mrep in zip(coords, ids, impl_outs, rep):
            mo = model_outcome(mrep)
            R.count("damaged:outcome:" + "/".join(str(x) for x in io[:2] if not isinstance(x, bytes)))
            if io != mo:
                R.disagree("fetch from a damaged file vs package-reader model",
                           dict(case, fetch=list(c), id=cid), io, mo)


def stream_minishard(R, n):
    """MiniShard objects driven directly, identifiers near 2^64 and bit sums
    beyond 64: header, data, pending keys, outcomes; and next_cmc alone."""
    import numpy as np
    from neuroglancer_scripts import sharded_base as sb, sharded_file_accessor as sfa
    rng = R.rng
    special = [0, 1, 2, 3, 5, 8, 31, 32, 33, 61, 62, 63, 64, 65, 70]
    top64 = 2 ** 64
    reqs, impls, cases = [], [], []
    for i in range(n):
        if rng.random() < 0.5:
            m, s, p = rng.randrange(4), rng.randrange(4), rng.randrange(4)
        else:
            m, s, p = rng.choice(special[:8]), rng.choice(special), rng.choice(special)
        B = p + m + s
        kbits = max(0, min(m + s, 64 - p))
        K = rng.getrandbits(kbits) if kbits else 0
        if kbits and rng.random() < 0.3:
            K = (1 << kbits) - 1                      # class at the top of the identifier space

        def mk(r, p=p, B=B, K=K):
            if p >= 64:
                return r
            return ((r >> p) << B) + (K << p) + (r & ((1 << p) - 1))
        ranks = sorted(set(rng.randrange(0, 12) for _ in range(rng.randrange(1, 8))))
        ids = [mk(r) for r in ranks if mk(r) < top64] or [mk(0)]
        in_class = True
        if rng.random() < 0.15:
            ids.append(rng.getrandbits(64))          # possibly outside the class
            in_class = False
        if rng.random() < 0.3:
            ids.append(rng.choice(ids))              # duplicate
        rng.shuffle(ids)
        ops = [(c, rng.randbytes(rng.randrange(0, 6))) for c in ids]
        # close() fills gaps one rank at a time: only when every pending id is a nearby class member
        do_close = in_class and rng.random() < 0.8
        spec = sb.ShardSpec(m, s, preshift_bits=p)
        with L.watchdog(), L.quiet(R.tmp), np.errstate(all="ignore"):
            ms = sfa.MiniShard(spec, strategy="in memory")
            outs = []
            for c, pl in ops:
                o = outcome_of(ms.store_cmc_chunk, pl, np.uint64(c))
                outs.append(["ok", "none"] if o[0] == "ok" else o)
            cl = "open"
            if do_close:
                cl = outcome_of(ms.close)
                cl = ["ok", "none"] if cl[0] == "ok" else cl
            impls.append([outs, cl, int(ms._appended), int(ms._last_chunk_id), [int(x) for x in ms.header],
                          bytes(ms.databytearray), sorted(int(k) for k in ms._chunk_buffer.keys()),
                          None if ms.masked_bits is None else int(ms.masked_bits)])
        reqs.append(("c04_mini_run", [[m, s, p, False, False], [], [[c, pl] for c, pl in ops], do_close]))
        cases.append({"m": m, "s": s, "p": p, "ops": [[c, pl] for c, pl in ops], "close": do_close,
                      "stream": "minishard"})
    reps = R.model.batch(reqs)
    for case, impl, rep in zip(cases, impls, reps):
        R.case(case, nontrivial=len(case["ops"]) >= 2)
        R.count("minishard:" + ("large-sum" if case["m"] + case["s"] + case["p"] >= 64 else "small"))
        outs = [model_outcome(o) for o in rep[1]]
        outs = [["ok", "none"] if o[0] == "ok" else o for o in outs]
        cl = rep[2]
        cl = "open" if cl == "open" else (["ok", "none"] if cl[0] == "ok" else [str(x) for x in cl])
        app, last, hdr, data, pend, mask = rep[3]
        mod = [outs, cl, app, last, hdr, data, sorted(pend), None if isinstance(mask, Atom) else mask]
        for o in impl[0]:
            R.count("minishard:outcome:" + "/".join(str(x) for x in o if x != "none"))
        if impl != mod:
            R.disagree("MiniShard driven directly", case, impl, mod)
    # next_cmc and masked_bits alone, all bit counts
    args, want = [], []
    for _ in range(n * 3):
        m, s, p = rng.choice(special), rng.choice(special), rng.choice(special)
        app = rng.choice([0, 1, 2, 3, 7, 8, rng.getrandbits(rng.randrange(1, 65))])
        cmc = rng.getrandbits(64)
        spec = sb.ShardSpec(m, s, preshift_bits=p)
        with np.errstate(all="ignore"):
            ms = sfa.MiniShard(spec, strategy="in memory")
            ms.masked_bits = ((spec.minishard_mask | spec.shard_mask) << spec.preshift_bits) & np.uint64(cmc)
            ms._appended = np.uint64(app)
            want.append([int(ms.next_cmc), int(ms.masked_bits)])
        args.append([m, s, p, cmc, app])
    r1 = R.model.batch([("c04_next_cmc", a) for a in args])          # reply[1] = masked_of(cmc)
    r2 = R.model.batch([("c04_next_cmc", [a[0], a[1], a[2], w[1], a[4]]) for a, w in zip(args, want)])
    for a, w, x1, x2 in zip(args, want, r1, r2):
        R.count("next_cmc:cases")
        if x1[1] != w[1]:
            R.disagree("masked_bits", {"args": a}, w[1], x1[1])
        if x2[0] != w[0]:
            R.disagree("next_cmc", {"args": a}, w[0], x2[0])


def stream_sessions(R, n):
    """Accessor-level sessions over two identical scales with repeated close():
    the compute_dyadic_scales pattern (scale 0, close, scale 1, close), double
    close, interleaved scales, close before any store — and, as correspondence
    only, stores into a scale that was already closed (the real code then
    raises AttributeError and truncates the shard file; the model follows)."""
    rng = R.rng
    todo = []
    for i in range(n):
        ds = L.gen_dataset(rng, 3000 + i)
        opsA = L.order_ops(ds, rng, rng.choice(["sorted", "random", "reversed"]))
        opsB = L.order_ops(ds, rng, "random")
        if rng.random() < 0.5 and len(opsB) > 1:
            opsB = opsB[:rng.randrange(1, len(opsB) + 1)]
        pat = rng.choice(["dyadic", "dyadic", "twice", "double-close", "interleaved", "close-first",
                          "store-after-close", "store-after-close"])
        st = lambda k, o: ("s", k, o[0], o[1], o[2], o[3])
        C = ("c",)
        if pat == "dyadic":
            sops = [st(0, o) for o in opsA] + [C] + [st(1, o) for o in opsB] + [C] + ([C] if rng.random() < 0.5 else [])
        elif pat == "twice":
            sops = [st(0, o) for o in opsA] + [C] + [st(1, o) for o in opsA] + [C]
        elif pat == "double-close":
            sops = [st(0, o) for o in opsA] + [C, C] + ([C] if rng.random() < 0.3 else [])
        elif pat == "interleaved":
            mixed = [st(0, o) for o in opsA] + [st(1, o) for o in opsB]
            rng.shuffle(mixed)
            sops = mixed + [C]
        elif pat == "close-first":
            sops = [C] + [st(1, o) for o in opsB] + [C] + [st(0, o) for o in opsA] + [C]
        else:
            cut = rng.randrange(0, len(opsA) + 1)
            sops = [st(0, o) for o in opsA[:cut]] + [C] + [st(0, o) for o in opsA[cut:]] + [C]
            if rng.random() < 0.5:
                sops += [st(1, o) for o in opsB] + [C]
        todo.append((ds, sops, pat, rng.choice(["in memory", "on disk"]), {0: opsA, 1: opsB}))
    run_sessions(R, todo)


def run_sessions(R, todo):
    """todo: list of (dataset, session ops, pattern name, strategy, _)."""
    R.extra["_sess_counter"] = R.extra.get("_sess_counter", 0) + 1
    tag = R.extra.pop("_sess_counter")
    R.extra["_sess_base"] = R.extra.get("_sess_base", 0) + len(todo)
    base = R.extra.pop("_sess_base")
    impl = [L.impl_session(R, ds, sops, strat, f"sess{base}_{i}") for i, (ds, sops, pat, strat, _) in enumerate(todo)]
    reps = L.oracle_batch(R, [L.session_request(ds, sops, L.Oracle()) for ds, sops, _, _, _ in todo])
    # expected files of every scale taken alone (single-scale model, theorems C04/C05)
    single, smeta = [], []
    for j, (ds, sops, pat, strat, _) in enumerate(todo):
        if pat == "store-after-close":
            continue
        for k in (0, 1):
            kops = [(o[2], o[3], o[4], o[5]) for o in sops if o[0] == "s" and o[1] == k]
            if kops:
                single.append(L.run_request(ds, kops, L.Oracle()))
                smeta.append((j, k))
    sreps = dict(zip(smeta, L.oracle_batch(R, single)))
    for j, ((ds, sops, pat, strat, _), (outs, files), rep) in enumerate(zip(todo, impl, reps)):
        case = {k: ds[k] for k in ("grid", "cs", "sizes", "m", "s", "p", "ie", "de")}
        case.update(stream="sessions", pattern=pat, strategy=strat,
                    sops=[list(o) for o in sops])
        R.case(case, nontrivial=len(sops) >= 4)
        R.count(f"session:{pat}")
        m_outs, m_files = L.parse_session_reply(rep)
        for o in outs:
            R.count("session:outcome:" + "/".join(str(x) for x in o if x != "none"))
        if outs != m_outs:
            R.disagree("session: per-operation outcomes", case, outs, m_outs)
        if files != m_files:
            R.disagree("session: files of the two scales", case,
                       {k: sorted(v) for k, v in files.items()}, {k: sorted(v) for k, v in m_files.items()})
        if pat == "store-after-close":
            continue
        if any(o[0] != "ok" for o in outs):
            R.violation("a store or close() raised in a session that never stores into a closed scale",
                        case, {"outcomes": [o for o in outs if o[0] != "ok"][:3]})
        for k in (0, 1):
            if (j, k) in sreps:
                _, want = L.parse_run_reply(sreps[(j, k)])
                want = L.model_files_plain(want)
                if files.get(k, {}) != want:
                    R.violation("the files of a scale depend on what happened to the other scale / on repeated close()",
                                case, {"scale": k, "got": sorted(files.get(k, {})), "expected": sorted(want or {})})
            elif files.get(k):
                R.violation("files written for a scale that received no chunk", case, {"scale": k})


def stream_info_sessions(R, n):
    """One accessor whose info file is replaced before a scale is first written
    (shardlib.run_info_sessions): a fresh accessor must return every chunk."""
    L.run_info_sessions(R, n, "C05")


def stream_large(R, n):
    """Deterministic large cases (oracle only, see shardlib.run_large_cases)."""
    L.run_large_cases(R, "C05")


def stream_voxels(R, n):
    """Decoded voxels through PrecomputedIO on a sharded dataset."""
    import numpy as np
    from neuroglancer_scripts import accessor as acc_mod, precomputed_io, sharded_file_accessor as sfa
    rng = R.rng
    for i in range(n):
        g = [rng.randrange(1, 4) for _ in range(3)]
        cs = rng.choice([2, 3])
        sizes = [gi * cs - rng.randrange(cs) for gi in g]
        m, s, p = rng.randrange(3), rng.randrange(3), rng.randrange(3)
        de = rng.choice(["raw", "gzip"])
        info = L.mkinfo(sizes, cs, m, s, p, rng.choice(["raw", "gzip"]), de)
        d = os.path.join(R.tmp, f"vox{i}")
        coords = list(itertools.product(*[range(k) for k in g]))
        sel = [c for c in coords if rng.random() < 0.6] or coords[:1]
        rng.shuffle(sel)
        arrays = {}
        case = {"stream": "voxels", "sizes": sizes, "cs": cs, "m": m, "s": s, "p": p, "de": de,
                "sel": [list(c) for c in sel]}
        import atexit
        with L.quiet(R.tmp), np.errstate(all="ignore"):
            acc = sfa.ShardedFileAccessor(d, strategy=rng.choice(["in memory", "on disk"]))
            io_w = precomputed_io.get_IO_for_new_dataset(info, acc)
            for c in sel:
                bb = tuple(v for k in range(3) for v in (c[k] * cs, min(sizes[k], c[k] * cs + cs)))
                shape = (1, bb[5] - bb[4], bb[3] - bb[2], bb[1] - bb[0])
                a = np.frombuffer(rng.randbytes(int(np.prod(shape))), dtype=np.uint8).reshape(shape)
                arrays[c] = (bb, a)
                io_w.write_chunk(a, L.KEY, bb)
            acc.close()
            atexit.unregister(acc.close)
            acc2 = acc_mod.get_accessor_for_url(d)
            io_r = precomputed_io.get_IO_for_existing_dataset(acc2)
            for c in coords:
                bb = tuple(v for k in range(3) for v in (c[k] * cs, min(sizes[k], c[k] * cs + cs)))
                got = outcome_of(io_r.read_chunk, L.KEY, bb)
                if c in arrays:
                    ok = got[0] == "ok" and got[1].shape == arrays[c][1].shape and \
                        got[1].dtype == np.uint8 and got[1].tobytes() == arrays[c][1].tobytes()
                    R.count("voxels:stored:" + ("exact" if ok else got[0]))
                    if not ok:
                        R.violation("read_chunk of a stored chunk differs from what was written", case,
                                    {"chunk": list(c), "got": got[0]})
                else:
                    R.count("voxels:never:" + "/".join(str(x) for x in got[:2] if isinstance(x, str)))
                    if got[0] == "ok":
                        R.violation("read_chunk returns voxel data for a chunk that was never stored",
                                    case, {"chunk": list(c), "shape": list(got[1].shape)})
            atexit.unregister(acc2.close)
        R.case(case, nontrivial=len(sel) >= 3)


def run(R):
    R.rule = RULE
    quick = R.tier == "quick"
    for fn, n in ((stream_datasets, 480 if quick else 5000), (stream_duplicates, 250 if quick else 2500),
                  (stream_damaged, 400 if quick else 4000), (stream_minishard, 800 if quick else 12000),
                  (stream_sessions, 150 if quick else 2500), (stream_info_sessions, 60 if quick else 1000), (stream_large, 1),
                  (stream_voxels, 60 if quick else 600)):
        try:
            fn(R, n)
        except (L.ImplHang, L.ImplAbort):
            R.violation(f"{fn.__name__}: the implementation did not terminate within the watchdog delay",
                        {"stream": fn.__name__}, {})
            break
        except Exception:  # noqa: BLE001 - keep the violations found so far reportable
            import traceback
            R.disagree(f"{fn.__name__}: the implementation left the harness in an unexpected state",
                       {"stream": fn.__name__}, traceback.format_exc()[-1500:], "no exception")
    R.notes.append("the on-disk buffers (OnDiskBytesDict / OnDiskByteArray) and the in-memory ones are the same "
                   "abstract map / byte sequence in the model: strategy independence is a correspondence "
                   "result of this run (files compared byte for byte), not a theorem")
    R.notes.append("zlib is an oracle (answers supplied to the model by this harness)")
    R.notes.append("package-reader model: offsets / lengths >= 2^34 (MemoryError / EINVAL band) are outside "
                   "the model; damaged files only alter low-order bytes")


def _replay_once(R, payload):
    case = payload.get("case") or {}
    if not case and payload.get("disagreements"):
        case = payload["disagreements"][0].get("case") or {}
    before = (len(R.violations), len(R.disagreements))
    if str(case.get("subset", "")).startswith("large:"):
        before0 = (len(R.violations), len(R.disagreements))
        try:
            L.run_large_cases(R, "C05")
        except (L.ImplAbort, L.ImplHang):
            return True
        return (len(R.violations), len(R.disagreements)) != before0
    if case.get("stream") == "info-sessions" and "steps" in case:
        return L.replay_info_session(R, case, "C05")
    if case.get("stream") == "sessions" and "sops" in case:
        def unb(v):
            return bytes.fromhex(v[1:]) if isinstance(v, str) else bytes(v)
        ds = {k: case[k] for k in ("grid", "cs", "sizes", "m", "s", "p", "ie", "de")}
        sops = [("c",) if o[0] == "c" else ("s", o[1], o[2], o[3], o[4], unb(o[5])) for o in case["sops"]]
        try:
            run_sessions(R, [(ds, sops, case.get("pattern", "replay"), case.get("strategy"), None)])
        except (L.ImplAbort, L.ImplHang):
            return True
        return (len(R.violations), len(R.disagreements)) != before
    if "grid" in case and "sel" not in case:
        # hang / fetch report without the chunk list: store the whole grid
        g = case["grid"]
        coords = sorted(itertools.product(*[range(k) for k in g]), key=lambda c: L.ref_cmc(g, c))
        case = dict(case, sel=[list(c) for c in coords],
                    payloads=[bytes([i % 251]) * (i % 7) for i in range(len(coords))])
    if "sel" in case and "payloads" in case and "grid" in case:
        def unb(v):
            return bytes.fromhex(v[1:]) if isinstance(v, str) else bytes(v)
        ds = {k: case[k] for k in ("grid", "cs", "sizes", "m", "s", "p", "ie", "de")}
        ds["omit"] = case.get("omit", [])
        ds["subset"] = case.get("subset", "replay")
        ds["sel"] = case["sel"]
        ds["payloads"] = [unb(x) for x in case["payloads"]]
        rng = R.rng
        todo = [(ds, [(L.order_ops(ds, rng, "sorted"), "in memory", "sorted"),
                      (L.order_ops(ds, rng, "reversed"), "on disk", "reversed"),
                      (L.order_ops(ds, rng, "random"), "on disk", "random")])]
        # reuse the dataset stream on this single dataset
        saved = L.gen_dataset
        try:
            seq = iter(todo)
            L.gen_dataset = lambda rng, i: ds
            stream_datasets(R, 1)
        except (L.ImplAbort, L.ImplHang):
            return True
        finally:
            L.gen_dataset = saved
        return (len(R.violations), len(R.disagreements)) != before
    # other streams (direct MiniShard objects, damaged files, voxels): re-run the whole check
    run(R)
    return bool(R.violations or R.disagreements)


def replay(R, payload):
    """The history variant (plain / reused caller buffer / second scale after a
    close) is drawn from the PRNG in a run: a replay tries each of them."""
    for mode in (0.9, 0.1, 0.3):
        R.extra["_force_mode"] = mode
        try:
            if _replay_once(R, payload):
                return True
        finally:
            R.extra.pop("_force_mode", None)
    return False
