"""C12 - file storage under every layout option.

Correspondence: FileAccessor / ShardedFileAccessor file methods /
get_accessor_for_url (local branch) on real temporary directories  vs
coq/theories/Store/{StFS,StFileAccessor,StSharded,StHttp}.v (fragment D_C12).
Oracle: the extracted abstract map (spec_run), documented paths (spec_paths),
and a Python restatement of "nothing outside the dataset directory changes".
"""
import gzip
import io
import json
import os
import shutil
import zlib

from harness.common import Atom, classify_exception

RULE = ("op sequences (1..25 store/fetch/exists on files and chunks; the MIME class varies per operation on the "
        "same name) on a real temp dir under every "
        "flat/deep x gzip x compresslevel{0,1,9} config, names from a grammar (clean pool with spelling "
        "variants; dirty stream: '..' in every position, absolute, empty, '.', '.gz' names, prefixes), "
        "contents incl. empty and 70 kB, MIME types incl. the exempt ones; every dataset re-read under "
        "all other configs; ShardedFileAccessor file methods; get_accessor_for_url on local URLs. "
        "non-trivial = sequence with >= 2 stores and >= 1 fetch, or a sharded/dispatch case touching the tree")

MIMES = ["application/octet-stream", "application/json", "image/jpeg", "image/png", "text/plain", ""]
EXEMPT = {"application/json", "image/jpeg", "image/png"}
CONFIGS = [(f, g, l) for f in (False, True) for g in (False, True) for l in (1, 9, 0)]
SENTINEL = b"SENTINEL-outside-the-dataset"


# ----------------------------------------------------------------- helpers

def b(s):
    return s.encode("utf-8") if isinstance(s, str) else bytes(s)


def gz_class(data):
    """What gzip.open(...).read() does on a file holding `data`."""
    try:
        return [Atom("ok"), gzip.GzipFile(fileobj=io.BytesIO(data)).read()]
    except gzip.BadGzipFile:
        return Atom("bad")
    except EOFError:
        return Atom("eof")
    except zlib.error:
        return Atom("zlib")
    except OSError:
        return Atom("bad")


def snapshot(root):
    """{abs path: None (dir) | bytes} for everything under root (root included)."""
    out = {root: None}
    for d, dirs, files in os.walk(root):
        for x in dirs:
            out[os.path.join(d, x)] = None
        for x in files:
            with open(os.path.join(d, x), "rb") as f:
                out[os.path.join(d, x)] = f.read()
    return out


def model_fs(snap, sandbox):
    """Wire form of a snapshot (all plain) plus the ancestors of the sandbox."""
    ent = []
    p = os.path.dirname(sandbox)
    while p != "/":
        ent.append([b(p), Atom("dir")])
        p = os.path.dirname(p)
    for k, v in snap.items():
        ent.append([b(k), Atom("dir") if v is None else [Atom("plain"), v]])
    return ent


def fs_to_wire(tree):
    """Model reply tree -> wire form usable as an initial tree."""
    return [[p, n if isinstance(n, Atom) else [Atom(str(n[0]))] + list(n[1:])] for p, n in tree]


def blob_matches(blob, data, what=""):
    """Does the real byte string `data` realise the model's tagged content?"""
    tag = str(blob[0])
    if tag == "plain":
        return data == blob[1]
    if tag == "gz":
        lvl, payload = blob[1], blob[2]
        if len(data) < 18 or data[:3] != b"\x1f\x8b\x08":
            return False
        xfl = {9: 2, 1: 4}.get(lvl, 0)
        if data[8] != xfl:
            return False
        r = gz_class(data)
        return isinstance(r, list) and r[1] == payload
    if tag == "cut":
        k, inner = blob[1], blob[2]
        if k == 0:
            return data == b""
        if str(inner[0]) == "plain":
            full = inner[1]
            return 0 < len(data) < len(full) and full[:len(data)] == data and (len(data) == 1) == (k == 1)
        return len(data) >= 1 and (len(data) == 1) == (k == 1)   # prefix of a gzip stream
    return False


def compare_tree(model_tree, real_snap, sandbox):
    """List of differences between the model's tree (restricted to the sandbox)
    and the real one."""
    diffs = []
    sb = b(sandbox)
    mt = {}
    for p, n in model_tree:
        if p == sb or p.startswith(sb + b"/"):
            mt[p] = n
    rt = {b(k): v for k, v in real_snap.items()}
    for p in sorted(set(mt) | set(rt)):
        if p not in mt:
            diffs.append(("only-real", p))
        elif p not in rt:
            diffs.append(("only-model", p))
        else:
            n, v = mt[p], rt[p]
            if isinstance(n, Atom):
                if v is not None:
                    diffs.append(("kind", p))
            elif v is None:
                diffs.append(("kind", p))
            elif not blob_matches(n, v):
                diffs.append(("content", p, n, v[:40]))
    return diffs


def norm_out(o):
    """Implementation outcome -> model vocabulary: the ValueError of the path
    guard is the model's Refused."""
    if o == ["Crash", "ValueError"]:
        return ["Refused"]
    return o


def run_impl(fn):
    try:
        return ["ok", fn()]
    except Exception as exc:  # noqa: BLE001
        return norm_out(classify_exception(exc))


def out_matches(model_o, impl_o):
    """model outcome (parsed) vs implementation outcome."""
    if str(model_o[0]) != "ok":
        return [str(x) for x in model_o] == impl_o
    if impl_o[0] != "ok":
        return False
    mv, iv = model_o[1], impl_o[1]
    if isinstance(mv, Atom):
        if mv == "none":
            return iv is None
        return iv is (mv == "true")
    return isinstance(iv, (bytes, bytearray)) and blob_matches(mv, bytes(iv))


# ----------------------------------------------------------------- names

CLEAN_POOL = ["info", "a/b", "a/c", "mesh/1:0", "d/e/f", "ünï/ç", "seg/info", "t", "x y/z",
              "transform.json", "mesh/2:0:x"]
KEYS = ["1mm", "2mm", "40um", "k"]


def spell(rng, name):
    """A different spelling of the same relative name."""
    r = rng.random()
    parts = name.split("/")
    if r < 0.55:
        return name
    if r < 0.65:
        return "./" + name
    if r < 0.75:
        return "//".join(parts) if len(parts) > 1 else name + "/"
    if r < 0.85:
        return "/./".join(parts) if len(parts) > 1 else "./" + name + "/."
    if r < 0.93:
        return name + "/"
    return name + "//."


def dirty_name(rng, base_dir):
    r = rng.random()
    n = rng.choice(CLEAN_POOL)
    parts = n.split("/")
    if r < 0.10:
        return "../" + n
    if r < 0.18:
        return n + "/.."
    if r < 0.26:
        i = rng.randrange(len(parts) + 1)
        return "/".join(parts[:i] + [".."] + parts[i:])
    if r < 0.32:
        return "../sentinel"
    if r < 0.38:
        return ".."
    if r < 0.46:
        return rng.choice(["", ".", "./", "./."])
    if r < 0.54:
        return os.path.dirname(base_dir) + "/sentinel"          # absolute, outside
    if r < 0.60:
        return base_dir + "/" + n                                # absolute, under the base
    if r < 0.64:
        return "/" + base_dir + "/" + n                          # '//' root
    if r < 0.68:
        return base_dir + "/../sentinel"
    if r < 0.78:
        return n + ".gz"
    if r < 0.88:
        return parts[0] if len(parts) > 1 else n + "/sub"        # prefix / extension of a pool name
    if r < 0.94:
        return "a/b.gz/c"
    return rng.choice(["...", "..a", "a..", "a/.../b"])


def dirty_key(rng, base_dir):
    # NB: the empty key is deliberately absent: "{key}/..." is then an absolute path and the
    # real accessor writes into the root of the real file system (seen while building this harness)
    return rng.choice(["../esc", "k/..", ".", "k/sub", "", "k//sub/.", "a/../b", "/" + base_dir.strip("/") + "/../esc2",
                       os.path.dirname(base_dir) + "/esc3", "..", "k.gz"])


def gen_content(rng, big_ok):
    r = rng.random()
    if r < 0.15:
        return b""
    if r < 0.20 and big_ok:
        return bytes(rng.getrandbits(8) for _ in range(256)) * 280   # 70 kB
    if r < 0.30:
        return b"\x1f\x8b" + bytes(rng.getrandbits(8) for _ in range(rng.randrange(0, 12)))
    if r < 0.36:
        return gzip.compress(b"inner payload")
    if r < 0.44:
        # contents that start like something a helpful layer might want to interpret or strip
        head = rng.choice([b"\xef\xbb\xbf", b"\xff\xfe", b"\xfe\xff", b"\xff\xd8\xff", b"\x89PNG\r\n", b"{",
                           b"\x00\x00", b"\r\n", b" ", b"\xef\xbb\xbf{}"])
        return head + bytes(rng.getrandbits(8) for _ in range(rng.randrange(0, 20)))
    return bytes(rng.getrandbits(8) for _ in range(rng.randrange(1, 40)))


def gen_coords(rng):
    r = rng.random()
    if r < 0.7:
        x = rng.choice([0, 64, 128]); y = rng.choice([0, 64]); z = rng.choice([0, 1, 64])
        return [x, x + 64, y, y + 64, z, z + rng.choice([1, 64])]
    if r < 0.85:
        return [rng.choice([0, 9, 10, 99, 100, 10 ** 9, 2 ** 64]) for _ in range(6)]
    return [rng.randrange(-70, 70) for _ in range(6)]


def gen_sequence(rng, base_dir, dirty, big_ok):
    n = rng.choice([1, 2, 3, 5, 8, 12, 25]) if rng.random() < 0.5 else rng.randrange(1, 26)
    names = rng.sample(CLEAN_POOL, rng.randrange(1, 5))
    keys = rng.sample(KEYS, rng.randrange(1, 3))
    coords = [gen_coords(rng) for _ in range(rng.randrange(1, 4))]
    mime_of = {}
    ops = []
    for _ in range(n):
        r = rng.random()
        is_dirty = dirty and rng.random() < 0.25
        if r < 0.55:      # file op
            name = dirty_name(rng, base_dir) if is_dirty else spell(rng, rng.choice(names))
            canon = "/".join(p for p in name.split("/") if p not in ("", "."))
            mime = mime_of.setdefault(canon, rng.choice(MIMES))
            if rng.random() < 0.35:
                mime = rng.choice(MIMES)          # one name under several MIME classes
            k = rng.random()
            if k < 0.45:
                ops.append(["sf", name, gen_content(rng, big_ok), mime, rng.random() < 0.5])
            elif k < 0.8:
                ops.append(["ff", name])
            else:
                ops.append(["ex", name])
        else:
            key = dirty_key(rng, base_dir) if is_dirty else rng.choice(keys)
            co = rng.choice(coords)
            mime = mime_of.setdefault(("chunk", key), rng.choice(MIMES[:3] + MIMES[4:5]))
            if rng.random() < 0.35:
                mime = rng.choice(MIMES)
            if rng.random() < 0.5 and key != "":
                ops.append(["sc", key, co, gen_content(rng, big_ok), mime, rng.random() < 0.8])
            else:
                # (the empty key makes "{key}/..." an absolute path at the root of the real file
                #  system: it is only ever used with the read-only fetch_chunk)
                ops.append(["fc", key, co])
    return ops


def wire_op(op):
    t = op[0]
    if t == "sf":
        return [Atom("sf"), b(op[1]), op[2], b(op[3]), bool(op[4])]
    if t in ("ff", "ex"):
        return [Atom(t), b(op[1])]
    if t == "sc":
        return [Atom("sc"), b(op[1]), list(op[2]), op[3], b(op[4]), bool(op[5])]
    return [Atom("fc"), b(op[1]), list(op[2])]


SAFE_ROOT = [None]


def apply_op(acc, op):
    t = op[0]
    # safety net: never let the real accessor act outside the harness' scratch directory
    base = str(getattr(acc, "base_path", None) or getattr(acc, "base_dir", ""))
    probe = op[1] + ("/x" if t in ("sc", "fc") else "")
    tgt = "/" + os.path.normpath(probe if probe.startswith("/") else base + "/" + probe).lstrip("/")
    if SAFE_ROOT[0] and not tgt.startswith(SAFE_ROOT[0] + "/") and t in ("sf", "sc"):
        # (read-only operations may look anywhere; a store must never be attempted outside R.tmp,
        #  whatever the code under test does with it)
        raise RuntimeError(f"harness generator produced a store leaving the scratch directory: {op[:2]!r}")
    if t == "sf":
        return run_impl(lambda: acc.store_file(op[1], op[2], mime_type=op[3], overwrite=op[4]))
    if t == "ff":
        return run_impl(lambda: acc.fetch_file(op[1]))
    if t == "ex":
        return run_impl(lambda: acc.file_exists(op[1]))
    if t == "sc":
        return run_impl(lambda: acc.store_chunk(op[3], op[1], tuple(op[2]), mime_type=op[4], overwrite=op[5]))
    return run_impl(lambda: acc.fetch_chunk(op[1], tuple(op[2])))


# ----------------------------------------------------------------- guard (Python restatement)

def py_norm(name):
    """Independent restatement of the naming rule: None = not acceptable."""
    if name.startswith("/"):
        return None
    parts = [p for p in name.split("/") if p not in ("", ".")]
    if ".." in parts or not parts:
        return None
    return tuple(parts)


def py_key(key):
    """Scale key -> tuple of components; None = refused; "abs" = absolute/empty (outside the guard)."""
    if key == "" or key.startswith("/"):
        return "abs"
    parts = [p for p in key.split("/") if p not in ("", ".")]
    if ".." in parts:
        return None
    return tuple(parts)


def dec(v):
    return str(int(v))


def py_chunk_rel(flat, key, co):
    ax = [f"{dec(co[0])}-{dec(co[1])}", f"{dec(co[2])}-{dec(co[3])}", f"{dec(co[4])}-{dec(co[5])}"]
    kp = key if isinstance(key, tuple) else (key,)
    return kp + ("_".join(ax),) if flat else kp + tuple(ax)


def simple_key(k):
    return k != "" and "/" not in k and k not in (".", "..")


def py_norm_any(base_dir, name):
    """Components of a name relative to the base directory (absolute names below the base
    included); None when outside or mentioning '..'."""
    if name.startswith("//") and not name.startswith("///"):
        return None
    parts = [p for p in name.split("/") if p not in ("", ".")]
    if name.startswith("/"):
        bp = [p for p in base_dir.split("/") if p]
        if parts[:len(bp)] != bp:
            return None
        parts = parts[len(bp):]
    return None if ".." in parts else tuple(parts)


def history_guard(flat, ops):
    """True iff the history lies in the region where last_write_wins is
    proved: relative file names, relative non-empty keys, no accepted name
    with a component ending in '.gz', accepted names pairwise prefix-free,
    the other-layout chunk paths unused.  The MIME type is free per operation."""
    used = {}
    others = set()
    for op in ops:
        if op[0] in ("sf", "ff", "ex"):
            if op[1].startswith("/"):
                return False
            n = py_norm(op[1])
            if n is None:
                continue                      # refused on both sides
            mime = op[3] if op[0] == "sf" else None
        else:
            kp = py_key(op[1])
            if kp == "abs":
                return False
            if kp is None:
                continue                      # refused on both sides
            n = py_chunk_rel(flat, kp, op[2])
            if op[0] == "fc":
                others.add(py_chunk_rel(not flat, kp, op[2]))
            mime = op[4] if op[0] == "sc" else None
        if not n or any(c.endswith(".gz") for c in n):
            return False
        used[n] = True
    names = list(used)
    for i, x in enumerate(names):
        for y in names[i + 1:]:
            if x[:len(y)] == y or y[:len(x)] == x:
                return False
    for o in others:
        if o in used or any(c.endswith(".gz") for c in o):
            return False
    return True


# ----------------------------------------------------------------- findings regions

def escapes_lexically(base_dir, name):
    """Where a name lands after the join and kernel resolution (assuming the
    traversed directories exist): outside the dataset directory?"""
    p = name if name.startswith("/") else base_dir + "/" + name
    q = os.path.normpath(p)
    return not (q == base_dir or q.startswith(base_dir + "/"))


def chunk_target_escapes(base_dir, key):
    return key == "" or escapes_lexically(base_dir, key + "/x")


# ----------------------------------------------------------------- main parts

def make_sandbox(R, idx, precreate):
    # the dataset directory lies five levels below R.tmp, so that even a defective accessor
    # following "../.." (the deepest escape the generators produce) stays inside R.tmp
    sb = os.path.join(R.tmp, f"s{idx}", "n1", "n2")
    os.makedirs(os.path.join(sb, "w"))
    with open(os.path.join(sb, "w", "sentinel"), "wb") as f:
        f.write(SENTINEL)
    base = os.path.join(sb, "w", "ds")
    if precreate:
        os.makedirs(base)
    return sb, base


def outside(snap, base):
    return {k: v for k, v in snap.items() if not (k == base or k.startswith(base + "/"))}


def file_accessor_part(R, nseq):
    from neuroglancer_scripts.file_accessor import FileAccessor
    rng = R.rng
    jobs = []
    for i in range(nseq):
        flat, gz, lvl = CONFIGS[i % len(CONFIGS)] if i < 4 * len(CONFIGS) else rng.choice(CONFIGS)
        dirty = rng.random() < 0.4
        sb, base = make_sandbox(R, f"fa{i}", rng.random() < 0.3)
        ops = gen_sequence(rng, base, dirty, big_ok=(i % 7 == 0))
        snap0 = snapshot(sb)
        acc = FileAccessor(base, flat=flat, gzip=gz, compresslevel=lvl)
        outs = []
        escapes = []
        prev_out = outside(snap0, base)
        for op in ops:
            o = apply_op(acc, op)
            outs.append(o)
            cur = outside(snapshot(sb), base)
            if cur != prev_out:
                escapes.append((op, sorted(set(cur.items()) ^ set(prev_out.items()), key=repr)[:2]))
            elif op[0] in ("ff", "fc") and o[0] == "ok" and o[1] == SENTINEL:
                escapes.append((op, "read sentinel"))
            prev_out = cur
        snap1 = snapshot(sb)
        # sometimes a second writer with another configuration rewrites part of the names
        # (mixed-configuration tree: both layouts / both plain and .gz may then exist)
        cfg2, ops2, outs2, snap2 = None, [], [], None
        if rng.random() < 0.35:
            cfg2 = rng.choice([c for c in CONFIGS if c != (flat, gz, lvl)])
            for op in ops:
                if op[0] == "sf" and rng.random() < 0.7:
                    ops2.append(["sf", op[1], gen_content(rng, False), op[3], True])
                elif op[0] == "sc" and rng.random() < 0.7:
                    ops2.append(["sc", op[1], op[2], gen_content(rng, False), op[4], True])
            acc2 = FileAccessor(base, flat=cfg2[0], gzip=cfg2[1], compresslevel=cfg2[2])
            outs2 = [apply_op(acc2, o) for o in ops2]
            snap2 = snapshot(sb)
        # re-open under every other configuration: read every name of the history
        reads = []
        seen = set()
        for op in ops:
            key = (op[0] in ("sc", "fc"), op[1], tuple(op[2]) if op[0] in ("sc", "fc") else None)
            if key in seen:
                continue
            seen.add(key)
            reads.append(["fc", op[1], op[2]] if key[0] else ["ff", op[1]])
            if not key[0]:
                reads.append(["ex", op[1]])
        # names that are proper path prefixes of stored names (the scale key, the per-axis directories of
        # the deep layout, the parent of a nested file name): directories on disk, not stored names
        pref = []
        for op in ops:
            comps = None
            if op[0] == "sf" and not op[1].startswith("/"):
                comps = py_norm(op[1])
            elif op[0] == "sc" and isinstance(py_key(op[1]), tuple) and py_key(op[1]):
                comps = py_chunk_rel(flat, py_key(op[1]), op[2])
            for k in range(1, len(comps or ())):
                nm = "/".join(comps[:k])
                if nm not in pref and len(pref) < 6:
                    pref.append(nm)
        for nm in pref:
            if (False, nm, None) not in seen:
                seen.add((False, nm, None))
                reads.append(["ff", nm])
                reads.append(["ex", nm])
        cross = []
        for c2 in CONFIGS:
            a2 = FileAccessor(base, flat=c2[0], gzip=c2[1], compresslevel=c2[2])
            cross.append((c2, [apply_op(a2, r) for r in reads]))
        tb = {}
        for op in ops + ops2:
            if op[0] in ("sf", "sc"):
                buf = op[2] if op[0] == "sf" else op[3]
                tb[buf] = gz_class(buf)
        for v in snap0.values():
            if v:
                tb[v] = gz_class(v)
        jobs.append(dict(i=i, cfg=(flat, gz, lvl), sb=sb, base=base, ops=ops, outs=outs, snap0=snap0,
                         snap1=snap1, reads=reads, cross=cross, tb=[[k, v] for k, v in tb.items()],
                         escapes=escapes, dirty=dirty, cfg2=cfg2, ops2=ops2, outs2=outs2, snap2=snap2))

    # ---- model, one batch
    reqs = []
    for j in jobs:
        flat, gz, lvl = j["cfg"]
        wcfg = [b(j["base"]), flat, gz, lvl]
        reqs.append(("fa_run", [wcfg, j["tb"], model_fs(j["snap0"], j["sb"]), [wire_op(o) for o in j["ops"]]]))
        reqs.append(("spec_run", [flat, [wire_op(o) for o in j["ops"]]]))
    rep = R.model.batch(reqs)
    reqs2 = []
    for k, j in enumerate(jobs):
        j["m_outs"], j["m_tree"] = rep[2 * k]
        j["s_outs"], j["s_map"] = rep[2 * k + 1]
    mixed = [j for j in jobs if j["cfg2"]]
    repm = R.model.batch([("fa_run", [[b(j["base"]), j["cfg2"][0], j["cfg2"][1], j["cfg2"][2]], j["tb"],
                                      fs_to_wire(j["m_tree"]), [wire_op(o) for o in j["ops2"]]]) for j in mixed])
    for j, (mo2, mt2) in zip(mixed, repm):
        j["m_outs2"], j["m_tree1"], j["m_tree"] = mo2, j["m_tree"], mt2
    for k, j in enumerate(jobs):
        for c2, _ in j["cross"]:
            reqs2.append(("fa_run", [[b(j["base"]), c2[0], c2[1], c2[2]], j["tb"], fs_to_wire(j["m_tree"]),
                                     [wire_op(o) for o in j["reads"]]]))
    rep2 = R.model.batch(reqs2)
    pos = 0
    for j in jobs:
        flat, gz, lvl = j["cfg"]
        ops = j["ops"]
        case = {"accessor": "file", "cfg": {"flat": flat, "gzip": gz, "level": lvl},
                "ops": [[x if not isinstance(x, bytes) else (x if len(x) < 64 else f"<{len(x)} bytes>")
                         for x in o] for o in ops]}
        stores = sum(1 for o in ops if o[0] in ("sf", "sc"))
        fetches = sum(1 for o in ops if o[0] in ("ff", "fc"))
        R.case(case, nontrivial=(stores >= 2 and fetches >= 1))
        R.count(f"fa:len:{'1' if len(ops) == 1 else '2-5' if len(ops) <= 5 else '6-15' if len(ops) <= 15 else '16-25'}")
        R.count(f"fa:cfg:{'flat' if flat else 'deep'}:{'gz' + str(lvl) if gz else 'nogz'}")
        for o, r in zip(ops, j["outs"]):
            R.count(f"fa:op:{o[0]}:{r[0] if r[0] != 'Crash' else r[1]}")
        # 1. correspondence: outcomes and tree
        for idx, (mo, io_) in enumerate(zip(j["m_outs"], j["outs"])):
            if not out_matches(mo, io_):
                R.disagree("FileAccessor op outcome vs model", {**case, "op_index": idx},
                           _short(io_), _short(mo))
                break
        d = compare_tree(j.get("m_tree1", j["m_tree"]), j["snap1"], j["sb"])
        if d:
            R.disagree("FileAccessor tree vs model", case, [str(x)[:200] for x in d[:4]], "model tree")
        if j["cfg2"]:
            R.count("fa:second-writer")
            case = {**case, "second_writer": {"cfg": list(j["cfg2"]), "ops": [[_short(x) for x in o] for o in j["ops2"]]}}
            for idx, (mo, io_) in enumerate(zip(j["m_outs2"], j["outs2"])):
                if not out_matches(mo, io_):
                    R.disagree("second writer (other config) op outcome vs model", {**case, "op_index": idx},
                               _short(io_), _short(mo))
                    break
            d = compare_tree(j["m_tree"], j["snap2"], j["sb"])
            if d:
                R.disagree("tree after second writer vs model", case, [str(x)[:200] for x in d[:4]], "model tree")
        # 2. oracle: refinement to the abstract map on guarded histories
        guarded = history_guard(flat, ops)
        R.count("fa:history:" + ("guarded" if guarded else "unguarded"))
        if guarded:
            for idx, (so, io_) in enumerate(zip(j["s_outs"], j["outs"])):
                if not out_matches(so, io_):
                    R.violation("fetch/exists/store outcome differs from the abstract name->bytes map "
                                "(last write wins / no-overwrite)", {**case, "op_index": idx},
                                {"impl": _short(io_), "spec": _short(so)})
                    break
            # documented location + valid gzip of every stored name
            want = {}
            for n, v in reversed(j["s_map"]):
                want[n] = v
            mime_ex = {}
            for o, so in zip(ops, j["s_outs"]):
                if str(so[0]) != "ok":
                    continue                     # a refused / failed store does not change the form
                if o[0] == "sf" and py_norm(o[1]) is not None:
                    mime_ex["/".join(py_norm(o[1]))] = o[3] in EXEMPT
                if o[0] == "sc" and isinstance(py_key(o[1]), tuple):
                    mime_ex["/".join(py_chunk_rel(flat, py_key(o[1]), o[2]))] = o[4] in EXEMPT
            for n, v in want.items():
                rel = n.decode()[1:]
                zipped = gz and not mime_ex.get(rel, False)
                path = j["base"] + "/" + rel + (".gz" if zipped else "")
                data = j["snap1"].get(path)
                ok = data is not None and (blob_matches([Atom("gz"), lvl, v], data) if zipped else data == v)
                if not ok:
                    R.violation("stored name not at the documented path / not a valid gzip stream",
                                case, {"name": rel, "path": path, "found": None if data is None else data[:20]})
                other = j["base"] + "/" + rel + ("" if zipped else ".gz")
                if other in j["snap1"]:
                    R.violation("both forms (plain and .gz) of a stored name exist: a stale twin is left behind",
                                case, {"name": rel, "plain_and_gz": [path, other]})
        # 3. oracle: cross-config reading of guarded histories
        for (c2, res) in j["cross"]:
            m_res = rep2[pos][0]
            pos += 1
            for idx, (mo, io_) in enumerate(zip(m_res, res)):
                if not out_matches(mo, io_):
                    R.disagree("re-open under another config vs model", {**case, "reader": list(c2), "read": j["reads"][idx][:2]},
                               _short(io_), _short(mo))
                    break
            # file_exists(name) says whether fetch_file(name) succeeds (trees without foreign files)
            if not j["dirty"]:
                for idx in range(len(res) - 1):
                    r0, r1 = j["reads"][idx], j["reads"][idx + 1]
                    if r0[0] == "ff" and r1[0] == "ex" and r0[1] == r1[1] and res[idx + 1][0] == "ok" \
                            and (res[idx][0] == "ok") != bool(res[idx + 1][1]):
                        R.violation("file_exists(name) disagrees with whether fetch_file(name) succeeds",
                                    {**case, "reader": list(c2), "name": r0[1]},
                                    {"fetch_file": _short(res[idx]), "file_exists": res[idx + 1]})
                        break
            if guarded and not j["cfg2"]:
                base_res = [apply for apply in j["cross"] if apply[0] == (flat, gz, lvl)][0][1]
                for idx, (a1, a2) in enumerate(zip(base_res, res)):
                    if a1 != a2:
                        R.violation("dataset written under one config is read differently under another",
                                    {**case, "reader": list(c2), "read": j["reads"][idx][:2]},
                                    {"writer_cfg_read": _short(a1), "other_cfg_read": _short(a2)})
                        break
        # 4. oracle: confinement
        for op, what in j["escapes"]:
            R.violation("an operation touched the file system outside the dataset directory",
                        {**case, "op": [x if not isinstance(x, bytes) else x[:16] for x in op]},
                        {"changed": str(what)[:300]})
        for op, r in zip(ops, j["outs"]):
            if op[0] in ("sf", "ff", "ex") and (escapes_lexically(j["base"], op[1]) or py_norm_any(j["base"], op[1]) == ())                     and r != ["Refused"]:
                R.violation("escaping or empty name not refused", case, {"op": op[:2], "impl": _short(r)})
            if op[0] in ("sc", "fc") and chunk_target_escapes(j["base"], op[1]) and r != ["Refused"]:
                R.violation("scale key leaving the dataset directory not refused", case,
                            {"op": op[:2], "impl": _short(r)})


def _short(o):
    if isinstance(o, list):
        return [_short(x) for x in o]
    if isinstance(o, (bytes, bytearray)) and len(o) > 48:
        return f"<{len(o)} bytes {bytes(o[:8]).hex()}..>"
    return o


def sharded_part(R, nseq):
    from neuroglancer_scripts.sharded_file_accessor import ShardedFileAccessor
    rng = R.rng
    jobs = []
    for i in range(nseq):
        sb, base = make_sandbox(R, f"sh{i}", rng.random() < 0.5)
        if rng.random() < 0.1:       # a file in the way of the base directory
            with open(os.path.join(sb, "w", "blk"), "wb") as f:
                f.write(b"x")
            base = os.path.join(sb, "w", "blk", "ds") if rng.random() < 0.5 else os.path.join(sb, "w", "blk")
        ops = []
        names = ["info", "a", "sub/x", "../sentinel", "..", "", os.path.join(sb, "w", "sentinel"),
                 "../new", "a/../a", "t.gz", os.path.join(sb, "w", "other", "y"), "a/", "./info"]
        for _ in range(rng.randrange(1, 12)):
            n = rng.choice(names)
            k = rng.random()
            if k < 0.4:
                ops.append(["sf", n, gen_content(rng, False), rng.choice(MIMES), rng.random() < 0.5])
            elif k < 0.75:
                ops.append(["ff", n])
            else:
                ops.append(["ex", n])
        snap0 = snapshot(sb)
        ctor = run_impl(lambda: ShardedFileAccessor(base))
        outs, escapes = [], []
        if ctor[0] == "ok":
            acc = ctor[1]
            ctor = ["ok", None]
            prev = outside(snapshot(sb), base)
            for op in ops:
                o = apply_op(acc, op)
                outs.append(o)
                cur = outside(snapshot(sb), base)
                touched = cur != prev
                prev = cur
                esc = escapes_lexically(base, op[1])
                if touched or (esc and ((op[0] == "ff" and o[0] == "ok") or (op[0] == "ex" and o == ["ok", True]))):
                    escapes.append(op)
        jobs.append(dict(sb=sb, base=base, ops=ops, ctor=ctor, outs=outs, snap0=snap0, snap1=snapshot(sb),
                         escapes=escapes))
    rep = R.model.batch([("sh_run", [b(j["base"]), model_fs(j["snap0"], j["sb"]), [wire_op(o) for o in j["ops"]]])
                         for j in jobs])
    for j, (m_ctor, m_outs, m_tree) in zip(jobs, rep):
        case = {"accessor": "sharded-file", "base": j["base"].replace(j["sb"], "<sb>"),
                "ops": [[_short(x) if not isinstance(x, str) else x.replace(j["sb"], "<sb>") for x in o] for o in j["ops"]]}
        R.case(case, nontrivial=any(o[0] == "sf" for o in j["ops"]))
        R.count(f"sh:ctor:{j['ctor'][0]}")
        if not out_matches(m_ctor, j["ctor"]):
            R.disagree("ShardedFileAccessor constructor vs model", case, _short(j["ctor"]), _short(m_ctor))
            continue
        for idx, (mo, io_) in enumerate(zip(m_outs, j["outs"])):
            R.count(f"sh:op:{j['ops'][idx][0]}:{io_[0]}")
            if not out_matches(mo, io_):
                R.disagree("ShardedFileAccessor op vs model", {**case, "op_index": idx}, _short(io_), _short(mo))
                break
        d = compare_tree(m_tree, j["snap1"], j["sb"])
        if d:
            R.disagree("ShardedFileAccessor tree vs model", case, [str(x)[:200] for x in d[:4]], "model tree")
        # oracle: confinement; last-write-wins on clean names
        for op in j["escapes"]:
            R.violation("sharded accessor touched a path outside the dataset directory", case, {"op": op[:2]})
        for op, o in zip(j["ops"], j["outs"]):
            if escapes_lexically(j["base"], op[1]) and o != ["Refused"]:
                R.violation("sharded accessor: escaping name not refused", case, {"op": op[:2], "impl": _short(o)})
        last = {}
        for op, o in zip(j["ops"], j["outs"]):
            n = py_norm(op[1])
            if n is None or not n or escapes_lexically(j["base"], op[1]):
                continue
            if op[0] == "sf" and o[0] == "ok":
                last[n] = op[2]
            elif op[0] == "ff" and n in last and o != ["ok", last[n]]:
                R.violation("sharded accessor: fetch_file does not return the last stored bytes", case,
                            {"name": op[1], "impl": _short(o)})
            elif op[0] == "sf" and not op[4] and n in last and o[0] == "ok":
                R.violation("sharded accessor: store without overwrite replaced an existing file", case, {"name": op[1]})


INFO_SHARDED = {"type": "image", "scales": [{"key": "1mm", "size": [64, 64, 64], "chunk_sizes": [[64, 64, 64]],
                "sharding": {"@type": "neuroglancer_uint64_sharded_v1", "minishard_bits": 1, "shard_bits": 1,
                             "hash": "identity"}}]}


def info_variants():
    s2 = json.loads(json.dumps(INFO_SHARDED))
    s2["scales"].append({"key": "2mm"})
    s3 = json.loads(json.dumps(INFO_SHARDED))
    s3["scales"][0]["sharding"]["@type"] = "other"
    return [("sharded", json.dumps(INFO_SHARDED).encode()), ("mixed", json.dumps(s2).encode()),
            ("othertype", json.dumps(s3).encode()), ("noscales", b'{"type": "image"}'),
            ("emptyscales", b'{"scales": []}'), ("badjson", b'{"scales": [ '), ("empty", b""),
            ("list", b'[1, 2]'), ("scalesint", b'{"scales": 3}'), ("notutf8", b'\xff\xfe{}'),
            ("sharding-str", b'{"scales": [{"sharding": "x"}]}'), ("scale-int", b'{"scales": [1]}'),
            ("absent", None)]


def parse_info_oracle(data):
    """Independent restatement of what json.loads, info_is_sharded and the
    info setter see, as the model's pinfo classes (StHttp.pinfo)."""
    try:
        info = json.loads(data)
    except json.JSONDecodeError:
        return Atom("badjson")
    except Exception as e:  # noqa: BLE001  (UnicodeDecodeError)
        return [Atom("crash"), Atom("ValueError" if isinstance(e, ValueError) else type(e).__name__)]
    if not isinstance(info, dict):
        return Atom("notdict")
    scales = info.get("scales", [])
    if not isinstance(scales, (list, tuple, dict)):
        return [Atom("crash"), Atom("TypeError")]
    out = []
    for s in scales:
        if not isinstance(s, dict):
            out.append(Atom("notdict"))
        elif not s.get("sharding"):
            out.append(Atom("nosharding"))
        elif not isinstance(s["sharding"], dict):
            out.append(Atom("shardingbad"))
        else:
            t = s["sharding"].get("@type")
            out.append([Atom("type"), b(t) if isinstance(t, str) else Atom("none")])
    return [Atom("scales"), out]


def info_declares_sharding(data):
    """The property's reading of "the info declares sharding": a JSON object
    with at least one scale, every scale carrying the sharded-v1 type."""
    pi = parse_info_oracle(data)
    return (isinstance(pi, list) and str(pi[0]) == "scales" and len(pi[1]) > 0
            and all(isinstance(x, list) and x[1] == b"neuroglancer_uint64_sharded_v1" for x in pi[1]))


def describe_accessor(acc):
    from neuroglancer_scripts.file_accessor import FileAccessor
    from neuroglancer_scripts.sharded_file_accessor import ShardedFileAccessor
    if isinstance(acc, ShardedFileAccessor):
        return ["sharded-file", b(str(acc.base_dir))]
    if isinstance(acc, FileAccessor):
        return ["file", [b(str(acc.base_path)), "_" in acc.chunk_pattern, bool(acc.gzip), acc.compresslevel]]
    return [type(acc).__name__]


def dispatch_part(R, n):
    """get_accessor_for_url / convert_file_url_to_pathname.  The working directory is moved five levels
    below R.tmp for the duration: a defective URL conversion that turns an absolute pathname into a relative
    one then still lands inside R.tmp."""
    cwd0 = os.getcwd()
    deep = os.path.join(R.tmp, "cwd", "n1", "n2", "n3", "n4")
    os.makedirs(deep, exist_ok=True)
    os.chdir(deep)
    try:
        _dispatch_part(R, n)
        _relative_precomputed(R)
    finally:
        os.chdir(cwd0)


def _relative_precomputed(R):
    """'precomputed://' + a plain RELATIVE pathname (the working directory is a sandbox): the prefix is
    removed as a prefix, whatever characters the pathname starts with."""
    from neuroglancer_scripts import accessor
    names = ["data/ds", "output/ds", "tmp/ds", "processed", "raw/ds", "e/ds", "mesh/ds", "cache/ds", "u",
             "d", "pre", "computed/ds", "s/ds", "n", "./data/ds", "t1+t2/ds"]
    rep = R.model.batch([("pathname", b("precomputed://" + nm)) for nm in names])
    for nm, mp in zip(names, rep):
        url = "precomputed://" + nm
        pn = run_impl(lambda: accessor.convert_file_url_to_pathname(url))
        res = run_impl(lambda: describe_accessor(accessor.get_accessor_for_url(url)))
        case = {"dispatch": url, "cwd": "<sandbox>"}
        R.case(case, nontrivial=True)
        R.count(f"dispatch:precomputed-relative:{pn[0]}")
        mpn = ["ok", mp[1].decode("utf-8", "surrogateescape")] if str(mp[0]) == "ok" else [str(x) for x in mp]
        if mpn != pn:
            R.disagree("convert_file_url_to_pathname vs model", case, pn, mpn)
        got_base = None
        if res[0] == "ok":
            got_base = res[1][1][0] if res[1][0] == "file" else res[1][1]
        if pn != ["ok", nm] or res[0] != "ok" or os.path.normpath(got_base.decode()) != os.path.normpath(nm):
            R.violation("'precomputed://' + plain pathname does not address the same directory as the plain "
                        "pathname", case, {"pathname": pn, "accessor": _short(res)})


def _dispatch_part(R, n):
    import urllib.parse
    from neuroglancer_scripts import accessor
    rng = R.rng
    jobs = []
    variants = info_variants()
    # the last cases: directory names with '+' / ' ' (literal characters of a URL path: '+' is NOT a space
    # there), addressed by file:// URLs, raw and percent-encoded - the same directory as the plain pathname
    plus_names = ["t1+t2", "a+b c", "x y+z", "p+"]
    nplus = 16 if n <= 400 else 96
    for i in range(n + nplus):
        plus = i >= n
        sb, base = make_sandbox(R, f"d{i}", True)
        if plus:
            base = os.path.join(os.path.dirname(base), plus_names[i % len(plus_names)])
            os.makedirs(base)
        kind, data = variants[i % len(variants)] if i < 2 * len(variants) or plus else rng.choice(variants)
        as_gz = data is not None and rng.random() < 0.15
        if data is not None:
            if as_gz:
                with gzip.open(os.path.join(base, "info.gz"), "wb") as f:
                    f.write(data)
            else:
                with open(os.path.join(base, "info"), "wb") as f:
                    f.write(data)
        r = rng.random() if not plus else 2.0
        target = base if plus or rng.random() < 0.85 else os.path.join(sb, "w", "missing", "ds")
        if plus:
            # ... and 'precomputed://' + the plain absolute pathname (the prefix is a prefix, not a set of
            # characters to strip: the pathname starts with '/')
            url = ["file://" + target, "file://" + urllib.parse.quote(target),
                   "precomputed://file://" + urllib.parse.quote(target),
                   "precomputed://" + target][(i - n) // len(plus_names) % 4]
        elif r < 0.3:
            url = target
        elif r < 0.4:
            url = target + "/"
        elif r < 0.5:
            url = "file://" + target
        elif r < 0.58:
            url = "precomputed://file://" + urllib.parse.quote(target)
        elif r < 0.64:
            url = "precomputed://" + target
        elif r < 0.70:
            url = "file://localhost" + target
        elif r < 0.75:
            url = "file://otherhost" + target
        elif r < 0.80:
            url = "file://" + target.replace("w", "%77", 1) + rng.choice(["", "%ff", "%C3%A9", "%zz"])
        elif r < 0.85:
            url = rng.choice(["ftp://x/y", "s3://bucket/ds", "c:" + target, "FILE://" + target, "File:" + target,
                              "file:" + target, " \t" + target, target + "?q=1", target + "#frag", "//host" + target,
                              target.replace("/w/", "/w\n/", 1)])
        else:
            url = "file://" + target + rng.choice(["?x", "#y", "/./", "//"])
        opts = {}
        if rng.random() < 0.5:
            opts["flat"] = rng.random() < 0.5
        if rng.random() < 0.5:
            opts["gzip"] = rng.random() < 0.5
        if rng.random() < 0.3:
            opts["compresslevel"] = rng.choice([1, 9, 5])
        if rng.random() < 0.3:
            opts["sharding"] = rng.choice([True, None, False, 1])
        snap0 = snapshot(sb)
        try:
            res = ["ok", describe_accessor(accessor.get_accessor_for_url(url, opts))]
        except accessor.URLError:
            res = ["URLError"]
        except Exception as exc:  # noqa: BLE001
            res = classify_exception(exc)
            if res[0] == "Crash" and isinstance(exc, ValueError):
                res = ["Crash", "ValueError"]
            if res[0] == "Crash" and isinstance(exc, AttributeError):
                res = ["Crash", "TypeError"]           # the model has no AttributeError constructor
        pn = run_impl(lambda: accessor.convert_file_url_to_pathname(url))
        if pn == ["Crash", "URLError"]:
            pn = ["URLError"]
        jobs.append(dict(plus=plus, target=target, sb=sb, base=base, url=url, opts=opts, res=res, pn=pn, kind=kind, as_gz=as_gz, at_base=(pn[0] == "ok" and isinstance(pn[1], str) and os.path.normpath(pn[1] or ".") == base),
                         data=data, snap0=snap0, snap1=snapshot(sb)))
    reqs = []
    for j in jobs:
        o = j["opts"]
        wopts = [bool(o.get("flat", False)), bool(o.get("gzip", True)), o.get("compresslevel", 9),
                 bool(o.get("sharding")), "sharding" in o]
        tb, itb = [], []
        t0 = model_fs(j["snap0"], j["sb"])
        if j["data"] is not None:
            itb.append([j["data"], parse_info_oracle(j["data"])])
            if j["as_gz"]:
                p = b(os.path.join(j["base"], "info.gz"))
                t0 = [[k, [Atom("gz"), 9, j["data"]] if k == p else v] for k, v in t0]
        reqs.append(("dispatch", [b(j["url"]), wopts, tb, itb, t0, [b"", b"/", False, False], []]))
        reqs.append(("pathname", b(j["url"])))
    rep = R.model.batch(reqs)
    for k, j in enumerate(jobs):
        m, mp = rep[2 * k], rep[2 * k + 1]
        case = {"dispatch": j["url"].replace(j["sb"], "<sb>"), "options": {k2: repr(v) for k2, v in j["opts"].items()},
                "info": j["kind"] + ("(gz)" if j["as_gz"] else "")}
        R.case(case, nontrivial=j["snap0"] != j["snap1"] or j["res"][0] == "ok")
        R.count(f"dispatch:{j['res'][0] if j['res'][0] != 'ok' else j['res'][1][0]}")
        # pathname
        mpn = ["ok", mp[1].decode("utf-8", "surrogateescape")] if str(mp[0]) == "ok" else [str(x) for x in mp]
        if mpn != j["pn"]:
            R.disagree("convert_file_url_to_pathname vs model", case, j["pn"], mpn)
        tag = str(m[0])
        if tag == "URLError":
            mres, mtree = ["URLError"], None
        elif tag == "local":
            d = m[1]
            mtree = m[2]
            if str(d[0]) == "ok":
                sel = d[1]
                if str(sel[0]) == "file":
                    c = sel[1]
                    mres = ["ok", ["file", [c[0], c[1] == "true", c[2] == "true", c[3]]]]
                else:
                    mres = ["ok", ["sharded-file", sel[1]]]
            elif str(d[0]) == "unmodelled":
                R.count("dispatch:unmodelled")
                continue
            else:
                mres = [str(x) for x in d]
        else:
            R.disagree("dispatch branch", case, j["res"], [str(m[0])])
            continue
        if mres != j["res"]:
            R.disagree("get_accessor_for_url decision vs model", case, j["res"], mres)
        elif mtree is not None:
            dd = compare_tree(mtree, j["snap1"], j["sb"])
            if dd:
                R.disagree("get_accessor_for_url tree vs model", case, [str(x)[:160] for x in dd[:3]], "model")
        # oracle: a file:// URL (raw or percent-encoded) and the plain pathname address the same directory
        if j["plus"]:
            R.count("dispatch:plus-in-path")
            got_base = None
            if j["res"][0] == "ok":
                got_base = j["res"][1][1][0] if j["res"][1][0] == "file" else j["res"][1][1]
            if j["pn"] != ["ok", j["target"]] or (j["res"][0] == "ok" and got_base != b(j["target"])):
                R.violation("a file:// URL (or 'precomputed://' + pathname) and the plain pathname of the same "
                            "directory address different directories", case, {"pathname": j["pn"], "accessor_base": got_base,
                                                  "directory": j["target"].replace(j["sb"], "<sb>")})
        # oracle: sharded accessor iff forced or the info declares sharding for all scales
        if j["res"][0] == "ok" and j["data"] is not None and not j["as_gz"] and j["at_base"]:
            declared = info_declares_sharding(j["data"])
            forced = bool(j["opts"].get("sharding"))
            is_sh = j["res"][1][0] == "sharded-file"
            if is_sh != (declared or forced):
                R.violation("local URL dispatched to the sharded accessor although the info does not declare "
                            "sharding for all scales (or the converse)", case, {"impl": j["res"], "declared": declared})


def large_part(R, quick):
    """One chunk and one file of 16 MiB + 12381 bytes (not a multiple of any block size) under the flat/deep x
    gzip/plain combinations: what is fetched (through another accessor object) is what was stored.  Oracle
    only: buffers of this size are not sent to the model."""
    from neuroglancer_scripts.file_accessor import FileAccessor
    n = (1 << 24) + 12381
    unit = bytes((7 * k + k // 251) % 256 for k in range(4093))
    buf = (unit * (n // len(unit) + 1))[:n - 16] + b"<<end-of-buffer>"
    assert len(buf) == n
    R.notes.append("buffers above 16 MiB (one chunk, one file per layout x gzip combination): oracle only "
                   "(fetch = store, size on disk), not sent to the model")
    for ci, (flat, gz, lvl) in enumerate([(False, True, 1), (True, False, 9), (False, False, 9), (True, True, 6)]):
        sb, base = make_sandbox(R, f"big{ci}", True)
        case = {"accessor": "file", "cfg": {"flat": flat, "gzip": gz, "level": lvl}, "buffer_bytes": n}
        R.case(case, nontrivial=True)
        w = FileAccessor(base, flat=flat, gzip=gz, compresslevel=lvl)
        co = (0, 300, 0, 300, 0, 187)
        outs = {"store_chunk": run_impl(lambda: w.store_chunk(buf, "1mm", co)),
                "store_file": run_impl(lambda: w.store_file("mesh/big", buf))}
        rd = FileAccessor(base, flat=not flat, gzip=not gz)
        for what, got in (("chunk", run_impl(lambda: rd.fetch_chunk("1mm", co))),
                          ("file", run_impl(lambda: rd.fetch_file("mesh/big")))):
            R.count(f"fa:large:{what}:{got[0]}")
            if outs["store_" + what] != ["ok", None] or got[0] != "ok" or bytes(got[1]) != buf:
                R.violation(f"a {what} of more than 16 MiB is not fetched back as stored", case,
                            {"store": _short(outs["store_" + what]),
                             "fetched_bytes": len(got[1]) if got[0] == "ok" else got,
                             "stored_bytes": n})
        if not gz:
            rel = "/".join(py_chunk_rel(flat, ("1mm",), co))
            for path in (os.path.join(base, rel), os.path.join(base, "mesh", "big")):
                size = os.path.getsize(path) if os.path.isfile(path) else None
                if size != n:
                    R.violation("size on disk of an uncompressed stored buffer above 16 MiB", case,
                                {"path": path.replace(sb, "<sb>"), "size": size, "stored_bytes": n})
        shutil.rmtree(sb, ignore_errors=True)


def witnesses(R):
    """The witnesses of the defects that were repaired in /repo (commits d12856d, 7463fc5),
    replayed on every run as fixed inputs: each must be refused and leave no trace."""
    from neuroglancer_scripts.file_accessor import FileAccessor
    from neuroglancer_scripts.sharded_file_accessor import ShardedFileAccessor
    sb, base = make_sandbox(R, "wit", True)
    checks = [
        ("FileAccessor.store_file('') with gzip", lambda: FileAccessor(base, gzip=True).store_file("", b"abc"),
         base + ".gz"),
        ("FileAccessor.store_chunk with key '../esc'",
         lambda: FileAccessor(base, gzip=False).store_chunk(b"zz", "../esc", (0, 1, 0, 1, 0, 1)),
         os.path.join(sb, "w", "esc")),
        ("ShardedFileAccessor.fetch_file('../sentinel')",
         lambda: ShardedFileAccessor(base).fetch_file("../sentinel"), None),
        ("ShardedFileAccessor.store_file('../new')",
         lambda: ShardedFileAccessor(base).store_file("../new", b"x"), os.path.join(sb, "w", "new")),
    ]
    # one name under two MIME classes (repaired by _drop_other_form): the latest bytes are read,
    # only one form exists, and overwrite=False under the other class is refused
    acc = FileAccessor(base, gzip=True)
    co = (0, 64, 0, 64, 0, 64)
    seq = [run_impl(lambda: acc.store_chunk(b"old", "k", co, mime_type="image/jpeg")),
           run_impl(lambda: acc.store_chunk(b"new", "k", co, mime_type="application/octet-stream")),
           run_impl(lambda: acc.fetch_chunk("k", co)),
           run_impl(lambda: acc.store_file("f", b"one", mime_type="application/json")),
           run_impl(lambda: acc.store_file("f", b"two", mime_type="text/plain", overwrite=False)),
           run_impl(lambda: acc.fetch_file("f"))]
    case = {"regression": "one name stored under two MIME classes (gzip=True): store_chunk(b'old', jpeg); "
                          "store_chunk(b'new', octet-stream); fetch_chunk; store_file('f', b'one', json); "
                          "store_file('f', b'two', text/plain, overwrite=False); fetch_file('f')"}
    R.case(case, nontrivial=True)
    cpath = os.path.join(base, "k", "0-64", "0-64", "0-64")
    twins = [p for p in (cpath, os.path.join(base, "f")) if os.path.exists(p) and os.path.exists(p + ".gz")]
    want = [["ok", None], ["ok", None], ["ok", b"new"], ["ok", None], ["AccessErr"], ["ok", b"one"]]
    if seq != want or twins:
        R.violation("a name stored under two MIME classes: the latest bytes are not read back / a stale twin of "
                    "the other form survives / overwrite=False did not refuse", case,
                    {"impl": _short(seq), "expected": _short(want), "both_forms_exist": twins})
    # stratified two-step histories on one name (round-4 seeds): a second store with overwrite and
    # DIFFERENT bytes of the SAME length must replace the content (plain and .gz forms, files and
    # chunks); a refused no-overwrite store must leave the first content readable
    for gzflag in (False, True):
        for mime in ("application/octet-stream", "image/jpeg"):
            a2 = FileAccessor(os.path.join(sb, "w", f"two-{int(gzflag)}-{mime[-4:]}"), gzip=gzflag)
            c2 = (64, 128, 0, 64, 0, 64)
            got = [run_impl(lambda: a2.store_chunk(b"AAAA", "k", c2, mime_type=mime)),
                   run_impl(lambda: a2.store_chunk(b"BBBB", "k", c2, mime_type=mime)),
                   run_impl(lambda: a2.fetch_chunk("k", c2)),
                   run_impl(lambda: a2.store_chunk(b"CCCC", "k", c2, mime_type=mime, overwrite=False)),
                   run_impl(lambda: a2.fetch_chunk("k", c2)),
                   run_impl(lambda: a2.store_file("f", b"1111", mime_type=mime)),
                   run_impl(lambda: a2.store_file("f", b"2222", mime_type=mime)),
                   run_impl(lambda: a2.fetch_file("f")),
                   run_impl(lambda: a2.file_exists("f")),
                   run_impl(lambda: a2.store_file("f", b"3333", mime_type=mime, overwrite=True)),
                   run_impl(lambda: a2.fetch_file("f"))]
            exp = [["ok", None], ["ok", None], ["ok", b"BBBB"], ["AccessErr"], ["ok", b"BBBB"],
                   ["ok", None], ["AccessErr"], ["ok", b"1111"], ["ok", True], ["ok", None], ["ok", b"3333"]]
            c3 = {"regression": "same-length overwrite / refused no-overwrite store then read", "gzip": gzflag, "mime": mime}
            R.case(c3, nontrivial=True)
            if got != exp:
                R.violation("two stores on one name: the latest permitted store is not what is read back, or a "
                            "refused store damaged the stored content", c3,
                            {"impl": _short(got), "expected": _short(exp)})
    for what, fn, leftover in checks:
        out = run_impl(fn)
        case = {"regression": what}
        R.case(case, nontrivial=True)
        if out != ["Refused"] or (leftover and os.path.exists(leftover)):
            R.violation("a name or key leaving the dataset directory is not refused", case,
                        {"impl": _short(out), "left": leftover if leftover and os.path.exists(leftover) else None})


def selfcheck(R):
    """The extracted specification agrees with the Python restatements."""
    rng = R.rng
    names = []
    for _ in range(150):
        names.append(spell(rng, rng.choice(CLEAN_POOL)) if rng.random() < 0.5 else dirty_name(rng, "/tmp/x/w/ds"))
    rep = R.model.batch([("spec_norm", b(n)) for n in names])
    for n, r in zip(names, rep):
        want = py_norm(n)
        got = None if r == "none" else tuple(p.decode() for p in r[1].split(b"/")[1:])
        if want != got:
            R.violation("extracted spec_norm disagrees with the Python restatement (harness self-check)",
                        {"name": n}, {"spec": repr(got), "py": repr(want)})
    cs = [(rng.choice(KEYS), gen_coords(rng)) for _ in range(150)]
    rep = R.model.batch([("spec_paths", [b(k), c]) for k, c in cs])
    for (k, c), r in zip(cs, rep):
        if r[0].decode() != "/" + "/".join(py_chunk_rel(True, k, c)) or \
           r[1].decode() != "/" + "/".join(py_chunk_rel(False, k, c)):
            R.violation("extracted spec_chunk_rel disagrees with the Python restatement (harness self-check)",
                        {"key": k, "coords": c}, {"spec": [r[0], r[1]]})


def run(R):
    R.rule = RULE
    SAFE_ROOT[0] = R.tmp
    quick = R.tier == "quick"
    R.notes.append("names: valid UTF-8 without NUL, components <= 200 bytes; base directory absolute and canonical; "
                   "permissions, symlinks, case-insensitive file systems outside the model")
    R.notes.append("gzip is an oracle: the model stores tagged contents (gz level payload); the harness checks that "
                   "the real file is a gzip stream (magic, CM=8, XFL matching the level) that gunzips to the payload")
    witnesses(R)
    selfcheck(R)
    file_accessor_part(R, 560 if quick else 10000)
    sharded_part(R, 200 if quick else 3000)
    dispatch_part(R, 240 if quick else 4000)
    large_part(R, quick)


def replay(R, payload):
    """Re-run a recorded case; True iff the failure is still observed."""
    R2 = R
    case = payload.get("case", {})
    before = len(R2.violations) + len(R2.disagreements)
    if case.get("accessor") == "file" and "ops" in case and all(not (isinstance(x, str) and x.startswith("<"))
                                                                   for o in case["ops"] for x in o):
        from neuroglancer_scripts.file_accessor import FileAccessor
        cfg = case["cfg"]
        sb, base = make_sandbox(R2, "replay", False)
        acc = FileAccessor(base, flat=cfg["flat"], gzip=cfg["gzip"], compresslevel=cfg["level"])
        ops = [[bytes.fromhex(x[1:]) if isinstance(x, str) and x.startswith("x") and i in (2, 3) and o[0] in ("sf", "sc")
                and not (o[0] == "sf" and i == 3) else x for i, x in enumerate(o)] for o in case["ops"]]
        outs = [apply_op(acc, o) for o in ops]
        rep = R2.model.call("spec_run", [cfg["flat"], [wire_op(o) for o in ops]])
        if history_guard(cfg["flat"], ops):
            return any(not out_matches(s, o) for s, o in zip(rep[0], outs))
        return False
    # otherwise: re-run the whole check and see whether anything is reported
    run(R2)
    return len(R2.violations) + len(R2.disagreements) > before
