"""C13 — re-encoding a dataset preserves its voxels exactly for lossless targets.

End-to-end: multi-scale sources produced by the real pipeline, destinations
with another encoding / layout / sharding / wider data type, --copy-info on
and off, source also served over loopback HTTP; the real convert-chunks
command; both trees decoded and compared scale by scale; SHA-256 of the
source tree before and after.
"""
import hashlib
import http.server
import json
import os
import shutil
import threading
from fractions import Fraction

import numpy as np

from harness import pipeline
from harness.props.c01 import nearest_sat, frac_of_float

RULE = ("sources: random volumes (shapes 3..20, 1..3 channels, 5 data types) converted to 1..3 scales with "
        "target chunk sizes 2/4/8 under random storage options; destinations: other encoding, layout, gzip, "
        "sharding parameters, same or wider (or narrower: documented rounding/clipping) data type; copy-info; "
        "http source. non-trivial = >= 2 scales or >= 2 chunks and source != destination configuration")

NG = ["uint8", "uint16", "uint32", "uint64", "float32"]


def tree_hash(d):
    h = hashlib.sha256()
    for root, dirs, files in os.walk(d):
        dirs.sort()
        for f in sorted(files):
            p = os.path.join(root, f)
            h.update(os.path.relpath(p, d).encode())
            h.update(open(p, "rb").read())
    return h.hexdigest()


class _Quiet(http.server.SimpleHTTPRequestHandler):
    def log_message(self, *a):
        pass


def serve_dir(d):
    handler = lambda *a, **k: _Quiet(*a, directory=d, **k)   # noqa: E731
    srv = http.server.ThreadingHTTPServer(("127.0.0.1", 0), handler)
    t = threading.Thread(target=srv.serve_forever, daemon=True)
    t.start()
    return srv, f"http://127.0.0.1:{srv.server_address[1]}/"


def storage_opts(kind):
    opts, acc = [], {}
    if "flat" in kind:
        opts.append("--flat")
        acc["flat"] = True
    if not kind.endswith("gz"):
        opts.append("--no-gzip")
        acc["gzip"] = False
    return opts, acc


def make_source(R, rng, d, i, force_kind=None):
    """Returns (url/dir, info, acc_opts, kind) or None."""
    shape = [rng.randrange(3, 21) for _ in range(3)]
    if rng.random() < 0.3:
        shape[rng.randrange(3)] = 1
    dt = rng.choice(NG)
    nch = rng.choice([1, 1, 2, 3])
    n = int(np.prod(shape)) * nch
    if dt == "float32":
        pool = [0.5, -1.5, 3.25, 1e6, 70000.7]
        if i % 2 == 0:
            # values at and above the top of the integer target ranges (saturation in convert-chunks)
            pool += [4294967040.0, 2.0 ** 32, 1e12, 2.0 ** 63, 2.0 ** 64, 3e19, float("inf"), -1e12, 65535.5, 65536.0]
            R.count("source:float32-huge-values")
        vals = np.array([rng.choice(pool) if rng.random() < 0.3 else rng.uniform(-10, 300)
                         for _ in range(n)], dtype=dt)
    else:
        hi = min(int(np.iinfo(dt).max), 2 ** 52)
        vals = np.array([rng.choice([0, 1, hi, hi - 1, 255, 256, 65535, 65536]) % (hi + 1) if rng.random() < 0.4
                         else rng.randrange(hi + 1) for _ in range(n)], dtype=dt)
    arr = vals.reshape(shape + ([nch] if nch > 1 else []))
    if rng.random() < 0.4:
        # background: whole chunks of zeros (an object on an empty background)
        cut = [rng.randrange(0, max(1, n_ // 2 + 1)) for n_ in shape]
        arr[cut[0]:, cut[1]:, ...] = 0
        R.count("source:zero-background")
    nii = os.path.join(d, "src.nii")
    out = os.path.join(d, "src")
    kind = force_kind or rng.choice(["deep-gz", "flat", "flat-gz", "deep", "sharded"])
    vox = (1.0, 1.0, 1.0)
    if kind != "sharded" and rng.random() < 0.5:     # anisotropic voxels -> anisotropic chunk sizes
        vox = rng.choice([(1.0, 1.0, 2.0), (1.0, 1.0, 4.0), (2.0, 1.0, 1.0), (1.0, 4.0, 1.0), (0.5, 1.0, 2.0)])
    pipeline.write_nifti(nii, arr, affine=np.diag(list(vox) + [1.0]))
    gen = ["--generate-info"]
    if kind == "sharded":
        gen += ["--sharding", rng.choice(["1,1,0", "2,1,1", "0,2,0"]), "--no-gzip"]
    steps = [("volume_to_precomputed", gen + [nii, out])]
    enc = "compressed_segmentation" if dt in ("uint32", "uint64") and rng.random() < 0.4 else "raw"
    gs = [os.path.join(out, "info_fullres.json"), out, "--target-chunk-size", rng.choice([2, 4, 8]),
          "--max-scales", rng.choice([1, 2, 3])]
    if enc != "raw":
        gs += ["--encoding", enc]
    opts, acc = storage_opts(kind)
    method = "stride" if dt == "uint64" or rng.random() < 0.5 else "average"
    for name, args in steps + [("generate_scales_info", gs),
                               ("volume_to_precomputed", [nii, out] + opts),
                               ("compute_scales", [out, "--downscaling-method", method] + opts)]:
        rc, so, se = pipeline.run_script(name, args, inprocess=(kind != "sharded"))
        if rc not in (0, 4):
            R.count(f"source:{name}:failed")
            return None
    info = json.load(open(os.path.join(out, "info")))
    return out, info, acc, kind


def make_source_direct(R, rng, d, i, force=None):
    """A source dataset written WITHOUT the package (raw chunks, flat layout, no gzip, info as JSON),
    so that it is complete whatever the package's writer does; with an object on a zero background."""
    out = os.path.join(d, "src")
    dt = rng.choice(NG)
    if force and force.get("dtype"):
        dt = force["dtype"]
    nch = rng.choice([1, 1, 2])
    scales = []
    size = [rng.randrange(4, 21) for _ in range(3)]
    if force:
        size = list(force["size"])
    levels = {}
    for k in range(rng.choice([1, 2]) if not (force and force.get("levels")) else force["levels"]):
        cs = [rng.choice([2, 4, 8]) for _ in range(3)]
        if force:
            cs = list(force["chunk"])
        sz = [max(1, -(-x // 2 ** k)) for x in size]
        key = f"{2 ** k}mm"
        scales.append({"key": key, "size": sz, "chunk_sizes": [cs], "encoding": "raw",
                       "resolution": [10 ** 6 * 2 ** k] * 3, "voxel_offset": [0, 0, 0]})
        if dt == "float32" and force and force.get("special"):
            pool = [float("nan"), float("inf"), float("-inf"), -0.0, 0.0, 1e-45, -1e-40, 3.4028234663852886e38, 1.5, -2.25]
            a = np.array([rng.choice(pool) for _ in range(nch * sz[0] * sz[1] * sz[2])], dtype=dt)
        elif dt == "float32" and force and force.get("huge"):
            pool = [4294967040.0, 2.0 ** 32, 1e12, 2.0 ** 63, 2.0 ** 64, 3e19, float("inf"), 65535.5, 7.5, 255.5]
            a = np.array([rng.choice(pool) for _ in range(nch * sz[0] * sz[1] * sz[2])], dtype=dt)
        elif dt == "float32":
            a = np.array([rng.uniform(1, 300) for _ in range(nch * sz[0] * sz[1] * sz[2])], dtype=dt)
        else:
            hi = min(int(np.iinfo(dt).max), 2 ** 52)
            a = np.array([1 + rng.randrange(hi) for _ in range(nch * sz[0] * sz[1] * sz[2])], dtype=dt)
        a = a.reshape(nch, sz[2], sz[1], sz[0])
        a[:, sz[2] // 2:, :, :] = 0            # half of the volume is background
        if force and force.get("slab_x"):
            # a segmentation-like volume: background everywhere except a slab of one label along x, so that the
            # FIRST chunk of a scale and the LAST chunk of the next coarser one are equal (all background)
            x0s, x1s = [v // 2 ** k for v in force["slab_x"]]
            a[...] = 0
            a[:, :, :, x0s:x1s] = 7
        if dt == "float32" and force and force.get("special"):
            a[:, :cs[2], :cs[1], :cs[0]] = np.nan      # one chunk holds nothing but NaN (outside the field of view)
        levels[key] = a
        os.makedirs(os.path.join(out, key))
        extra_cs = None
        if not force and rng.random() < 0.4:
            extra_cs = [rng.choice([2, 4, 8]) for _ in range(3)]
            if extra_cs != cs:
                scales[-1]["chunk_sizes"].append(extra_cs)      # a second, complete chunking of the same voxels
            else:
                extra_cs = None
        for cc in (pipeline.chunk_grid(sz, extra_cs) if extra_cs else []):
            x0, x1, y0, y1, z0, z1 = cc
            with open(os.path.join(out, key, f"{x0}-{x1}_{y0}-{y1}_{z0}-{z1}"), "wb") as f:
                f.write(np.ascontiguousarray(a[:, z0:z1, y0:y1, x0:x1]).astype(np.dtype(dt).newbyteorder("<")).tobytes())
        for cc in pipeline.chunk_grid(sz, cs):
            x0, x1, y0, y1, z0, z1 = cc
            with open(os.path.join(out, key, f"{x0}-{x1}_{y0}-{y1}_{z0}-{z1}"), "wb") as f:
                f.write(np.ascontiguousarray(a[:, z0:z1, y0:y1, x0:x1]).astype(np.dtype(dt).newbyteorder("<")).tobytes())
    info = {"type": "image", "data_type": dt, "num_channels": nch, "scales": scales}
    with open(os.path.join(out, "info"), "w") as f:
        json.dump(info, f)
    R.count("source:written-directly(zero background)")
    return out, info, {"flat": True, "gzip": False}, "flat", levels


def api_sequence(R, rng):
    """Several conversions through the library API in ONE process with the default options: state must
    not leak from one call to the next (a sharded --copy-info conversion followed by an unsharded one)."""
    from neuroglancer_scripts.scripts import convert_chunks as cc
    d = os.path.join(R.tmp, "apiseq")
    os.makedirs(d)
    a = make_source(R, rng, os.path.join(d, "a"), 0, force_kind="sharded") if os.makedirs(os.path.join(d, "a")) is None else None
    b = make_source(R, rng, os.path.join(d, "b"), 1, force_kind="flat") if os.makedirs(os.path.join(d, "b")) is None else None
    case = {"api_sequence": "sharded --copy-info, then unsharded", "ok_sources": [bool(a), bool(b)]}
    R.case(case, nontrivial=True)
    if not a or not b:
        R.count("apiseq:source-failed")
        return
    import logging
    logging.disable(logging.CRITICAL)
    try:
        try:
            cc.convert_chunks(a[0], os.path.join(d, "dst-a"), copy_info=True)
        except Exception as e:  # noqa: BLE001
            R.violation("library call convert_chunks(sharded source, copy_info=True) failed", case,
                        {"exc": f"{type(e).__name__}: {e}"[:200]})
            return
        dstb = os.path.join(d, "dst-b")
        try:
            cc.convert_chunks(b[0], dstb, copy_info=True)
        except Exception as e:  # noqa: BLE001
            R.violation("a second conversion in the same process failed (state leaked from the first call?)",
                        case, {"exc": f"{type(e).__name__}: {e}"[:300]})
            return
    finally:
        logging.disable(logging.NOTSET)
    try:
        _, src_scales = pipeline.read_dataset(b[0], b[2])
        _, dst_scales = pipeline.read_dataset(dstb, {})
        for k in src_scales:
            if k not in dst_scales or src_scales[k].tobytes() != dst_scales[k].tobytes():
                R.violation("second conversion of the sequence: destination differs from its source", case, {"scale": k})
                break
    except Exception as e:  # noqa: BLE001
        R.violation("second conversion of the sequence: destination unreadable", case,
                    {"exc": f"{type(e).__name__}: {e}"[:200]})
    R.count("apiseq:done")


def run(R):
    R.rule = RULE
    rng = R.rng
    api_sequence(R, rng)
    # fixed geometries whose shards use non-contiguous minishard numbers (grid 3x4x2 with (m,s,p) = (2,2,0):
    # shard 2 holds minishards {0, 2}; grid 3x3x2 with (3,1,0))
    for w, (size, sharding) in enumerate([((6, 8, 4), (2, 2, 0)), ((6, 6, 4), (3, 1, 0))]):
        d = os.path.join(R.tmp, f"witness{w}")
        os.makedirs(d)
        force = {"size": size, "chunk": (2, 2, 2), "sharding": sharding}
        src_dir, info, src_acc, src_kind, src_scales = make_source_direct(R, rng, d, w, force)
        _convert(R, rng, d, 0, src_dir, info, src_acc, src_kind, src_scales, force)
        R.count("dest:sharded-with-unused-minishard-slots")
    # float32 sources whose values reach and exceed the top of the integer target ranges
    for w, dst_dtype in enumerate(["uint32", "uint64", "uint16"]):
        d = os.path.join(R.tmp, f"top{w}")
        os.makedirs(d)
        force = {"size": (5, 4, 6), "chunk": (4, 4, 4), "dtype": "float32", "huge": True,
                 "dst_kind": rng.choice(["deep-gz", "flat"]), "dst_dtype": dst_dtype}
        src_dir, info, src_acc, src_kind, src_scales = make_source_direct(R, rng, d, w, force)
        _convert(R, rng, d, 0, src_dir, info, src_acc, src_kind, src_scales, force)
        R.count("dest:float32-top-of-range->" + dst_dtype)
    # float32 -> float32 must be bit-exact, NaN, infinities, negative zero and denormals included
    for w in range(2):
        d = os.path.join(R.tmp, f"special{w}")
        os.makedirs(d)
        force = {"size": (5, 4, 6), "chunk": (4, 4, 4), "dtype": "float32", "special": True,
                 "dst_kind": ["deep-gz", "flat"][w], "dst_dtype": "float32"}
        src_dir, info, src_acc, src_kind, src_scales = make_source_direct(R, rng, d, w, force)
        _convert(R, rng, d, 0, src_dir, info, src_acc, src_kind, src_scales, force)
        R.count("dest:float32-special-values-bit-exact")
    # a sharded destination spread over 128 shard files (16x4x4 chunks, two chunks per shard, visited far apart)
    d = os.path.join(R.tmp, "manyshards")
    os.makedirs(d)
    force = {"size": (32, 8, 8), "chunk": (2, 2, 2), "sharding": (0, 7, 0), "dst_kind": "sharded"}
    src_dir, info, src_acc, src_kind, src_scales = make_source_direct(R, rng, d, 0, force)
    _convert(R, rng, d, 0, src_dir, info, src_acc, src_kind, src_scales, force)
    R.count("dest:sharded-128-shard-files")
    # a label volume (background + one slab) into compressed_segmentation scales with DIFFERENT block sizes (and
    # a raw / compressed mix): the last chunk written for one scale equals the first chunk of the next
    for w, blocks in enumerate([([4, 4, 4], [8, 8, 8]), ([8, 8, 8], [2, 4, 8])]):
        d = os.path.join(R.tmp, f"slab{w}")
        os.makedirs(d)
        force = {"size": (32, 16, 16), "chunk": (8, 8, 8), "dtype": "uint32", "levels": 2, "slab_x": (8, 16),
                 "dst_kind": ["deep-gz", "flat"][w], "dst_dtype": ["uint32", "uint64"][w], "cseg_blocks": blocks}
        src_dir, info, src_acc, src_kind, src_scales = make_source_direct(R, rng, d, w, force)
        _convert(R, rng, d, 0, src_dir, info, src_acc, src_kind, src_scales, force)
        R.count("dest:uniform-chunks-across-scales-with-different-block-sizes")
    # a destination whose info announces one scale more than the source has
    d = os.path.join(R.tmp, "extrascale")
    os.makedirs(d)
    force = {"size": (9, 6, 5), "chunk": (4, 4, 4), "dtype": "uint16", "dst_kind": "deep-gz", "dst_dtype": "uint16",
             "extra_dest_scale": True}
    src_dir, info, src_acc, src_kind, src_scales = make_source_direct(R, rng, d, 0, force)
    _convert(R, rng, d, 0, src_dir, info, src_acc, src_kind, src_scales, force)
    n = 24 if R.tier == "quick" else 500
    for i in range(n):
        d = os.path.join(R.tmp, f"c{i}")
        os.makedirs(d)
        if i % 3 == 2:
            src_dir, info, src_acc, src_kind, src_scales = make_source_direct(R, rng, d, i)
            older = _older_generation(src_dir, info)
            for j in range(2):
                _convert(R, rng, d, j, src_dir, info, src_acc, src_kind, src_scales, older=older if j == 0 else None)
            _damaged_source(R, rng, d, src_dir, info, src_acc, src_kind)
            _copy_info_into_populated(R, rng, d, src_dir, src_kind)
            continue
        src = make_source(R, rng, d, i)
        if src is None:
            R.case({"source": "failed"})
            continue
        src_dir, info, src_acc, src_kind = src
        try:
            _, src_scales = pipeline.read_dataset(src_dir, src_acc)
        except Exception as e:  # noqa: BLE001
            R.case({"source": "unreadable"})
            R.count("source:unreadable")
            R.notes.append(f"source dataset {i} unreadable ({type(e).__name__}); covered by C06/C05")
            continue
        for j in range(2):
            _convert(R, rng, d, j, src_dir, info, src_acc, src_kind, src_scales)
        if i % 2 == 0:
            _damaged_source(R, rng, d, src_dir, info, src_acc, src_kind)
        else:
            _copy_info_into_populated(R, rng, d, src_dir, src_kind)


def _older_generation(src_dir, info):
    """Copy of a directly written source (raw, flat, no gzip) in which the lowest bit of every voxel is
    flipped: the same dataset description, other voxel values."""
    older = src_dir + "-older"
    shutil.copytree(src_dir, older)
    isz = np.dtype(info["data_type"]).itemsize
    for s in info["scales"]:
        sd = os.path.join(older, s["key"])
        for fn in os.listdir(sd):
            raw = np.fromfile(os.path.join(sd, fn), dtype=f"<u{isz}")
            (raw ^ 1).tofile(os.path.join(sd, fn))
    return older


def _copy_info_into_populated(R, rng, d, src_dir, src_kind):
    """convert-chunks --copy-info into a destination that already carries an info (left by the conversions
    above, in general with another data type / encoding): the command has to refuse (the info is stored
    without permission to overwrite) and leave the destination as it is."""
    dst = os.path.join(d, "dst0")
    if src_kind == "sharded" or not os.path.exists(os.path.join(dst, "info")):
        return
    before = tree_hash(dst)
    rc, so, se = pipeline.run_script("convert_chunks", [src_dir, dst, "--copy-info"], inprocess=True)
    case = {"second_run": "--copy-info into a destination that already has an info", "source": src_kind}
    R.case(case, nontrivial=True)
    R.count("copy-info-into-populated:" + ("refused" if rc != 0 else "rc0"))
    if rc == 0:
        R.violation("convert-chunks --copy-info exited 0 on a destination that already had an info "
                    "(chunks re-encoded under a description that is not the stored one)", case,
                    {"destination_changed": tree_hash(dst) != before})
    elif tree_hash(dst) != before:
        R.violation("a refused convert-chunks --copy-info modified the destination", case, {})


def _damaged_source(R, rng, d, src_dir, info, src_acc, src_kind):
    """A copy of the source with one chunk file deleted or cut short: the conversion cannot produce a
    destination equal to the source, so it has to fail instead of exiting 0."""
    if src_kind == "sharded":
        return
    bad = os.path.join(d, "src-damaged")
    shutil.copytree(src_dir, bad)
    files = []
    for s in info["scales"]:
        for root, _d, fs in os.walk(os.path.join(bad, s["key"])):
            files += [os.path.join(root, f) for f in fs]
    if not files:
        return
    victim = rng.choice(sorted(files))
    how = rng.choice(["delete", "truncate"])
    if how == "delete" or os.path.getsize(victim) < 2:
        os.unlink(victim)
    else:
        with open(victim, "r+b") as fh:
            fh.truncate(os.path.getsize(victim) // 2)
    dst = os.path.join(d, "dst-damaged")
    opts, _acc = storage_opts(src_kind)
    rc, so, se = pipeline.run_script("convert_chunks", [bad, dst, "--copy-info"] + opts, inprocess=True)
    case = {"source": {"kind": src_kind, "damage": how, "file": os.path.relpath(victim, bad)}, "dest": "copy-info"}
    R.case(case, nontrivial=True)
    R.count(f"damaged-source:{how}:" + ("error" if rc != 0 else "rc0"))
    if rc == 0:
        R.violation("convert-chunks exited 0 although a chunk of the source is missing or truncated (the "
                    "destination cannot equal the source)", case, {})


def _convert(R, rng, d, j, src_dir, info, src_acc, src_kind, src_scales, force=None, older=None):
    dst = os.path.join(d, f"dst{j}")
    # destination kinds in rotation (every kind occurs in every run), not at random
    kinds = ["sharded-gz", "deep-gz", "flat", "sharded", "flat-gz", "deep"]
    _convert.counter = getattr(_convert, "counter", 0) + 1
    dst_kind = kinds[_convert.counter % len(kinds)]
    if force:
        dst_kind = force.get("dst_kind", "sharded")
    copy_info = rng.random() < 0.3 and not dst_kind.startswith("sharded") and not force
    R.count(f"dest-kind:{dst_kind}")
    src_dt = info["data_type"]
    dinfo = json.loads(json.dumps(info))
    if not copy_info:
        wider = {"uint8": ["uint8", "uint16", "uint32", "uint64", "float32"], "uint16": ["uint16", "uint32", "uint64", "float32", "uint8"],
                 "uint32": ["uint32", "uint64", "uint16"], "uint64": ["uint64", "uint32"],
                 "float32": ["float32", "uint16", "uint8", "uint32", "uint64", "uint32"]}
        dinfo["data_type"] = rng.choice(wider[src_dt][:3] + wider[src_dt])
        if force and force.get("dst_dtype"):
            dinfo["data_type"] = force["dst_dtype"]
        for s in dinfo["scales"]:
            s.pop("sharding", None)
            s.pop("compressed_segmentation_block_size", None)
            if dinfo["data_type"] in ("uint32", "uint64") and rng.random() < 0.5:
                s["encoding"] = "compressed_segmentation"
                s["compressed_segmentation_block_size"] = [rng.choice([2, 4, 8]) for _ in range(3)]
            else:
                s["encoding"] = "raw"
            if force and force.get("cseg_blocks"):
                s["encoding"] = "compressed_segmentation"
                s["compressed_segmentation_block_size"] = list(force["cseg_blocks"][dinfo["scales"].index(s)])
            if dst_kind.startswith("sharded"):
                cs = s["chunk_sizes"][0]
                if len(set(cs)) != 1 or len(s["chunk_sizes"]) != 1:
                    dst_kind = "deep-gz"
                else:
                    enc = "gzip" if dst_kind.endswith("gz") else "raw"
                    s["sharding"] = {"@type": "neuroglancer_uint64_sharded_v1", "minishard_bits": rng.choice([0, 1, 2, 3]),
                                     "shard_bits": rng.choice([0, 1, 2]), "preshift_bits": rng.choice([0, 1]),
                                     "hash": "identity", "minishard_index_encoding": enc, "data_encoding": enc}
                    if force and force.get("sharding"):
                        m_, s_, p_ = force["sharding"]
                        s["sharding"].update(minishard_bits=m_, shard_bits=s_, preshift_bits=p_)
        if not dst_kind.startswith("sharded"):
            for s in dinfo["scales"]:
                s.pop("sharding", None)
        if force and force.get("extra_dest_scale"):
            # the destination announces a scale the source does not have
            last_s = dinfo["scales"][-1]
            extra = json.loads(json.dumps(last_s))
            extra["key"] = "extra_" + last_s["key"]
            extra["size"] = [max(1, -(-v // 2)) for v in last_s["size"]]
            extra["resolution"] = [2 * v for v in last_s["resolution"]]
            dinfo["scales"].append(extra)
        os.makedirs(dst)
        with open(os.path.join(dst, "info"), "w") as f:
            json.dump(dinfo, f)
    opts, dst_acc = storage_opts(dst_kind if not dst_kind.startswith("sharded") else "deep")
    if dst_kind.startswith("sharded"):
        opts, dst_acc = [], {}
    # an older generation of the dataset (other voxel values) already sits in the destination, stored in the
    # OTHER form (plain vs .gz): the conversion below has to replace it
    if older and not copy_info and not dst_kind.startswith("sharded"):
        flipped = [o for o in opts if o != "--no-gzip"] + ([] if "--no-gzip" in opts else ["--no-gzip"])
        rc0, _so, _se = pipeline.run_script("convert_chunks", [older, dst] + flipped, inprocess=True)
        R.count("destination:holds-an-older-generation-in-the-other-form" + ("" if rc0 == 0 else ":pre-run-failed"))
    via_http = src_kind == "flat" and rng.random() < 0.7
    before = tree_hash(src_dir)
    srv = None
    src_url = src_dir
    if via_http:
        srv, src_url = serve_dir(src_dir)
    from neuroglancer_scripts import precomputed_io
    calls = []
    o_w, o_r = precomputed_io.PrecomputedIO.write_chunk, precomputed_io.PrecomputedIO.read_chunk
    # sharded destinations are flushed by an exit handler: run those as real subprocesses
    inproc = not dst_kind.startswith("sharded") and not (copy_info and src_kind == "sharded")

    def spy_w(self, chunk, scale_key, chunk_coords):
        calls.append(("w", scale_key, tuple(int(x) for x in chunk_coords)))
        return o_w(self, chunk, scale_key, chunk_coords)

    def spy_r(self, scale_key, chunk_coords):
        calls.append(("r", scale_key, tuple(int(x) for x in chunk_coords)))
        return o_r(self, scale_key, chunk_coords)
    if inproc:
        precomputed_io.PrecomputedIO.write_chunk, precomputed_io.PrecomputedIO.read_chunk = spy_w, spy_r
    dst_url = dst
    if not dst_kind.startswith("sharded") and _convert.counter % 5 == 0:
        dst_url = "precomputed://" + os.path.abspath(dst)      # the prefix followed by a plain pathname
        R.count("dest-url:precomputed://<absolute path>")
    try:
        # (run below the scratch directory: a defect that turns the destination into a relative path must not
        #  write into the harness's own working directory)
        rc, so, se = pipeline.run_script("convert_chunks", ([src_url, dst_url] + (["--copy-info"] if copy_info else []) + opts),
                                         inprocess=inproc, cwd=d)
    finally:
        precomputed_io.PrecomputedIO.write_chunk, precomputed_io.PrecomputedIO.read_chunk = o_w, o_r
        if srv:
            srv.shutdown()
            srv.server_close()
    case = {"source": {"kind": src_kind, "data_type": src_dt, "num_channels": info["num_channels"],
                       "scales": [[s["size"], s["chunk_sizes"][0], s["encoding"]] for s in info["scales"]]},
            "dest": {"kind": dst_kind, "data_type": dinfo["data_type"], "copy_info": copy_info,
                     "encodings": [s["encoding"] for s in dinfo["scales"]],
                     "sharding": [bool(s.get("sharding")) for s in dinfo["scales"]]},
            "http_source": via_http}
    nontriv = len(info["scales"]) >= 2 or any(any(a > b for a, b in zip(s["size"], s["chunk_sizes"][0])) for s in info["scales"])
    R.case(case, nontrivial=nontriv)
    R.count(f"{src_kind}->{dst_kind}" + (":http" if via_http else "") + (":copy-info" if copy_info else ""))
    R.count(f"dtype:{src_dt}->{dinfo['data_type']}")
    R.count("chunks:" + ("anisotropic" if any(len(set(x["chunk_sizes"][0])) > 1 for x in info["scales"]) else "cubic"))
    R.count("dest-encodings:" + ("mixed" if len({x["encoding"] for x in dinfo["scales"]}) > 1 else "uniform"))
    if inproc and rc == 0:
        from harness.common import Atom
        scs = [[x["key"].encode(), x["size"], [list(c) for c in x["chunk_sizes"]], [0, 0, 0]]
               for x in (info if copy_info else dinfo)["scales"]]
        order = R.model.call("conv_order", scs)
        want = []
        for k, c in order:
            want += [("r", k.decode(), tuple(c)), ("w", k.decode(), tuple(c))]
        if calls != want:
            j = next((t for t, (a, b) in enumerate(zip(calls, want)) if a != b), min(len(calls), len(want)))
            R.disagree("order of read_chunk/write_chunk calls vs conv_order of the model", case if False else
                       {"dest": dst_kind, "copy_info": copy_info},
                       list(calls[j]) if j < len(calls) else "missing", list(want[j]) if j < len(want) else "missing")
    after = tree_hash(src_dir)
    if after != before:
        R.violation("the source dataset was modified by convert-chunks", case, {})
    if force and force.get("extra_dest_scale"):
        # nothing can be converted into the extra scale: the command must not report success over a destination
        # whose info announces chunks that were never written
        R.count("dest:announces-a-scale-the-source-lacks:" + ("refused" if rc != 0 else "rc0"))
        if rc == 0:
            try:
                pipeline.read_dataset(dst, dst_acc)
            except Exception as e:  # noqa: BLE001
                R.violation("convert-chunks exited 0 although the destination announces a scale that was not "
                            "written (its chunks cannot be read)", case, {"exc": f"{type(e).__name__}: {e}"[:300]})
        return
    if rc != 0:
        R.violation("convert-chunks failed", case, {"rc": rc, "stderr": se[-700:]})
        return
    try:
        dinfo_r, dst_scales = pipeline.read_dataset(dst, dst_acc)
    except Exception as e:  # noqa: BLE001
        R.violation("the destination cannot be read back", case, {"exc": f"{type(e).__name__}: {e}"[:300]})
        return
    ddt = np.dtype(dinfo_r["data_type"])
    for s in info["scales"]:
        key = s["key"]
        if key not in dst_scales:
            R.violation("a scale is missing from the destination", case, {"scale": key})
            continue
        a, b = src_scales[key], dst_scales[key]
        if a.shape != b.shape:
            R.violation("destination scale has another shape", case, {"scale": key})
            continue
        if ddt.kind in "ui":
            conv = np.vectorize(lambda v: nearest_sat(Fraction(int(v)) if a.dtype.kind in "ui" else frac_of_float(v), ddt),
                                otypes=[object])
            want = conv(a)
            bad = np.argwhere(b.astype(object) != want)
        else:
            want = a.astype(np.float32)
            bad = np.argwhere(b.view(np.uint32) != want.view(np.uint32))
        if len(bad):
            idx = tuple(int(t) for t in bad[0])
            R.violation("destination voxel differs from the converted source voxel", case,
                        {"scale": key, "index_czyx": list(idx), "source": str(a[idx]), "dest": str(b[idx]),
                         "want": str(want[idx]), "n_bad": int(len(bad))})


def replay(R, payload):
    return True
