"""Child interpreter of the C04/C05 harness: writes one small sharded dataset
the way the command-line tools use the accessor (default buffering strategy,
possibly WITHOUT an explicit close(): the accessor registers close() with
atexit) and exits.  Run with the package of the tree under test on PYTHONPATH,
optionally with PYTHONOPTIMIZE=1.  Argument: a JSON file
  {"dir":..., "info":..., "ops": [[key, [xmin,xmax,...], "hex"], ...],
   "close": bool, "strategy": null | "in memory" | "on disk", "result": path}
The per-store outcomes are written to "result" before the interpreter exits."""
import json
import sys


def main():
    with open(sys.argv[1]) as f:
        spec = json.load(f)
    import numpy as np
    from neuroglancer_scripts import sharded_file_accessor as sfa
    from neuroglancer_scripts.sharded_base import ShardedIOError
    kw = {} if spec["strategy"] is None else {"strategy": spec["strategy"]}
    outs = []
    with np.errstate(all="ignore"):
        acc = sfa.ShardedFileAccessor(spec["dir"], **kw)
        acc.info = spec["info"]
        for key, box, hexpl in spec["ops"]:
            try:
                acc.store_chunk(bytes.fromhex(hexpl), key, tuple(box))
                outs.append(["ok", "none"])
            except (ShardedIOError, OSError):
                outs.append(["IOErr"])
            except Exception as exc:  # noqa: BLE001
                outs.append(["Crash", type(exc).__name__])
        closed = "not-called"
        if spec["close"]:
            try:
                acc.close()
                closed = ["ok", "none"]
            except (ShardedIOError, OSError):
                closed = ["IOErr"]
            except Exception as exc:  # noqa: BLE001
                closed = ["Crash", type(exc).__name__]
    with open(spec["result"], "w") as f:
        json.dump({"outs": outs, "closed": closed, "optimize": sys.flags.optimize}, f)
    # no explicit close when spec["close"] is false: atexit does it


if __name__ == "__main__":
    main()
