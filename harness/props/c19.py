"""C19 — all-in-one conversion equals the step-by-step pipeline; steps are
repeatable; exit status 0 means everything was written and is readable.

End-to-end with subprocess invocations of the command modules on small
synthetic volumes; datasets decoded and compared with each other.
"""
import json
import os
import shutil

import numpy as np

from harness import pipeline

RULE = ("random small volumes (one long axis 130..300 so that the default 64-voxel target chunk gives >= 2 "
        "scales; other axes 1..6; 1..3 channels; uint8/uint16/uint32/uint64/float32) x option sets "
        "(type, encoding, downscaling method, gzip/flat/sharding); all-in-one vs documented step sequence; "
        "repeated data-writing steps; scale-stats interleaved. non-trivial = >= 2 scales")


def decode_all(url, acc):
    info, scales = pipeline.read_dataset(url, acc)
    return info, scales


def same(a, b):
    if set(a) != set(b):
        return f"scale keys differ: {sorted(a)} vs {sorted(b)}"
    for k in a:
        if a[k].shape != b[k].shape or a[k].dtype != b[k].dtype:
            return f"scale {k}: shape/dtype differ"
        if a[k].tobytes() != b[k].tobytes():
            idx = np.argwhere(a[k] != b[k])
            return f"scale {k}: {len(idx)} voxels differ, first at (c,z,y,x)={idx[0].tolist() if len(idx) else '?'}"
    return None


def run(R):
    R.rule = RULE
    rng = R.rng
    # stratified design: every (type, method) pair occurs; storage/encoding/dtype vary at random
    design = [(t, m) for t in (None, "image", "segmentation") for m in (None, "average", "majority", "stride")]
    rng.shuffle(design)
    for i in range(8 if R.tier == "quick" else 64):
        _slices_workflow(R, rng, i)
    n = 48 if R.tier == "quick" else 600
    for i in range(n):
        t, m = design[i % len(design)]
        # most runs in-process (the command's main() return value is the exit status); sharded runs and
        # every 9th run as real subprocesses
        _one(R, rng, i, t, m, subproc=(i % 9 == 4))


def _slices_workflow(R, rng, i):
    """The slice-stack workflow (generate info, generate-scales-info, slices-to-precomputed, compute-scales)
    against the all-in-one conversion of the same volume given as a NIfTI file."""
    from PIL import Image
    from harness.props.c15 import letter_coord
    d = os.path.join(R.tmp, f"sl{i}")
    os.makedirs(d)
    shape = [rng.randrange(2, 6) for _ in range(3)]
    shape[rng.randrange(3)] = rng.choice([130, 140])
    vol = np.frombuffer(rng.randbytes(int(np.prod(shape))), dtype="uint8").reshape(shape)      # [x, y, z], RAS+
    nii = os.path.join(d, "v.nii")
    pipeline.write_nifti(nii, vol)
    code = ["RIA", "LAS", "PSR", "RAS", "LPS", "SAL", "IPR", "ARS"][i % 8]
    AXn = {"R": 0, "L": 0, "A": 1, "P": 1, "S": 2, "I": 2}
    w, h, n = shape[AXn[code[0]]], shape[AXn[code[1]]], shape[AXn[code[2]]]
    stack = np.zeros((n, h, w), dtype="uint8")
    for x in range(shape[0]):
        for y in range(shape[1]):
            for z in range(shape[2]):
                u = (x, y, z)
                stack[letter_coord(code[2], shape, u), letter_coord(code[1], shape, u),
                      letter_coord(code[0], shape, u)] = vol[x, y, z]
    sdir = os.path.join(d, "slices")
    os.makedirs(sdir)
    for k in range(n):
        Image.fromarray(stack[k], mode="L").save(os.path.join(sdir, f"s{k:04d}.png"))
    method = rng.choice(["average", "stride", "majority"])
    A, S = os.path.join(d, "A"), os.path.join(d, "S")
    case = {"slices_workflow": True, "shape": shape, "orientation": code, "method": method}
    R.case(case, nontrivial=True)
    rcA, _so, seA = pipeline.run_script("volume_to_precomputed_pyramid", [nii, A, "--downscaling-method", method],
                                        inprocess=True)
    steps = [("volume_to_precomputed", ["--generate-info", nii, S]),
             ("generate_scales_info", [os.path.join(S, "info_fullres.json"), S]),
             ("slices_to_precomputed", [sdir, S, "--input-orientation", code]),
             ("compute_scales", [S, "--downscaling-method", method])]
    rcs = []
    for name, args in steps:
        rc, so, se = pipeline.run_script(name, args, inprocess=True)
        rcs.append((name, rc, se[-200:] if rc not in (0, 4) else ""))
    okS = all(rc in (0, 4) for _n, rc, _e in rcs)
    R.count(f"slices-workflow:{code}:A={'ok' if rcA == 0 else 'fail'}:S={'ok' if okS else 'fail'}")
    if rcA != 0 or not okS:
        R.violation("slice-stack workflow or all-in-one conversion failed on a plain 8-bit volume", case,
                    {"all_in_one": rcA, "steps": rcs})
        return
    try:
        infoA, scA = decode_all(A, {})
        infoS, scS = decode_all(S, {})
    except Exception as e:  # noqa: BLE001
        R.violation("slice-stack workflow: exit status 0 but the output is not readable", case,
                    {"exc": f"{type(e).__name__}: {e}"[:200]})
        return
    why = same(scA, scS)
    if why:
        R.violation("the slice-stack workflow and the all-in-one conversion of the same volume decode differently",
                    case, {"why": why})
    shutil.rmtree(d, ignore_errors=True)


def _one(R, rng, i, dtype_opt, method, subproc):
    d = os.path.join(R.tmp, f"w{i}")
    os.makedirs(d)
    shape = [rng.randrange(1, 7) for _ in range(3)]
    shape[rng.randrange(3)] = rng.choice([130, 150, 257, 300])
    cubic_grid = i == 5
    if cubic_grid:
        # 3 x 3 x 3 chunks of 64 voxels, written into sharded storage: shards whose minishards have runs of
        # unused identifiers in the middle
        shape = [rng.choice([130, 150]) for _ in range(3)]
    dt = rng.choice(["uint8", "uint16", "uint32", "uint64", "float32"])
    nch = rng.choice([1, 1, 2, 3])
    if cubic_grid:
        dt, nch = rng.choice(["uint8", "uint16"]), 1
    # one run in six is a JPEG pipeline (8-bit, 1 or 3 channels)
    force_jpeg = i % 6 == 3 and dtype_opt != "segmentation"
    if force_jpeg:
        dt, nch = "uint8", rng.choice([1, 3])
    n = int(np.prod(shape)) * nch
    if cubic_grid:
        vals = np.frombuffer(rng.randbytes(n * np.dtype(dt).itemsize), dtype=dt)
    elif dt == "float32":
        vals = np.array([rng.uniform(0, 1000) for _ in range(n)], dtype=dt)
    else:
        hi = min(int(np.iinfo(dt).max), 2 ** 50)
        vals = np.array([rng.choice([0, 1, 2, 3, hi, hi - 1]) if rng.random() < 0.6 else rng.randrange(hi + 1)
                         for _ in range(n)], dtype=dt)
    arr = vals.reshape(shape + ([nch] if nch > 1 else []))
    nii = os.path.join(d, "v.nii")
    # reading options, identical for both pipelines: header scaling, --ignore-scaling, --input-min/max
    slope = inter = None
    rd_opts = []
    if dt in ("uint8", "uint16") and rng.random() < 0.4 and not force_jpeg:
        slope, inter = rng.choice([(2.0, 0.0), (0.5, 10.0), (3.0, -1.0)])
        if rng.random() < 0.5:
            rd_opts.append("--ignore-scaling")
    if dt in ("uint8", "uint16", "float32") and rng.random() < 0.2 and not force_jpeg:
        rd_opts += ["--input-min", rng.choice([0.0, 10.0]), "--input-max", rng.choice([255.0, 1000.0])]
    storage = rng.choice(["deep-gz", "flat", "flat-gz", "deep", "deep-gz", "flat", "sharded"])
    if cubic_grid:
        storage = "sharded"
    # anisotropic voxel sizes: consecutive scales then have different chunk sizes (sharded storage needs
    # cubic chunks: isotropic there)
    vox = (1.0, 1.0, 1.0) if storage == "sharded" else rng.choice([(1.0, 1.0, 1.0), (1.0, 1.0, 1.0), (1.0, 2.0, 2.0), (2.0, 2.0, 1.0), (2.0, 1.0, 2.0),
                      (1.0, 1.0, 4.0), (0.5, 1.0, 1.0)])
    affine = np.diag(list(vox) + [1.0])
    pipeline.write_nifti(nii, arr, affine=affine, slope=slope, inter=inter)

    enc = "compressed_segmentation" if dt in ("uint32", "uint64") and rng.random() < 0.5 else None
    if (dt == "uint8" and nch in (1, 3) and dtype_opt != "segmentation" and slope is None and not rd_opts
            and (force_jpeg or rng.random() < 0.5)):
        # lossy, but deterministic: both pipelines must decode the same voxels.  (Header scaling and
        # --input-min/max turn the data into float32, which JPEG cannot hold: plain 8-bit volumes only.)
        enc = "jpeg"
    if dt == "uint64" and method in (None, "average") and dtype_opt != "segmentation":
        dt = "uint32"             # uint64 averaging is the C07 finding; kept out of C19
        arr = (arr % (2 ** 32)).astype(dt)
        pipeline.write_nifti(nii, arr, affine=affine)
    inproc = not subproc and storage != "sharded"
    common, acc = [], {}
    if "flat" in storage:
        common.append("--flat")
        acc["flat"] = True
    if storage in ("flat", "deep", "sharded"):
        common.append("--no-gzip")
        acc["gzip"] = False
    sharding = rng.choice(["1,1,0", "2,0,1", "0,1,0"]) if storage == "sharded" else None
    if cubic_grid:
        sharding = rng.choice(["0,0,0", "1,1,0"])
        R.count("sharded:3x3x3-chunk-grid")
    ds_opts = (["--downscaling-method", method] if method else [])
    if method in (None, "average") and rng.random() < 0.4:
        ds_opts += ["--outside-value", rng.choice([0, 1.5, 200])]
    te_opts = (["--type", dtype_opt] if dtype_opt else []) + (["--encoding", enc] if enc else [])
    R.count(f"type={dtype_opt}:method={method}")
    R.count("subprocess" if not inproc else "in-process")
    R.count("voxels:" + ("isotropic" if len(set(vox)) == 1 else "anisotropic") + (":jpeg" if enc == "jpeg" else ""))
    R.count("read-options:" + ("scaled" if slope else "plain") + (":ignore" if "--ignore-scaling" in rd_opts else "")
            + (":minmax" if "--input-max" in rd_opts else "") + (":outside" if "--outside-value" in ds_opts else ""))
    case = {"read_options": [str(x) for x in rd_opts], "slope_inter": [slope, inter],
            "downscaling_options": [str(x) for x in ds_opts], "shape": shape, "data_type": dt, "channels": nch, "type": dtype_opt, "encoding": enc,
            "method": method, "storage": storage, "sharding": sharding, "voxel_size": list(vox)}

    # ---- all-in-one
    A = os.path.join(d, "A")
    a_args = rd_opts + [nii, A] + common + ds_opts + te_opts + (["--sharding", sharding] if sharding else [])
    if sharding:
        # the all-in-one command has no --sharding option: only the step-by-step half is exercised
        rcA, soA, seA = None, "", ""
    else:
        rcA, soA, seA = pipeline.run_script("volume_to_precomputed_pyramid", a_args, inprocess=inproc)
    # ---- step by step
    B = os.path.join(d, "B")
    steps = [("volume_to_precomputed", ["--generate-info"] + rd_opts + [nii, B] + (["--sharding", sharding, "--no-gzip"] if sharding else [])),
             ("generate_scales_info", [os.path.join(B, "info_fullres.json"), B] + te_opts),
             ("volume_to_precomputed", rd_opts + [nii, B] + common),
             ("compute_scales", [B] + common + ds_opts),
             ("scale_stats", [B])]
    rcs = []
    for name, args in steps:
        rc, so, se = pipeline.run_script(name, args, inprocess=inproc)
        rcs.append((name, rc, se[-300:] if rc else ""))
    okB = all(rc in (0, 4) for _n, rc, _e in rcs)
    R.count(f"{storage}:A={'ok' if rcA == 0 else 'fail'}:B={'ok' if okB else 'fail'}")
    nontriv = False
    infoA = infoB = None
    if rcA == 0:
        try:
            infoA, scA = decode_all(A, acc)
            nontriv = len(infoA["scales"]) >= 2
            _complete(R, case, A, infoA, scA, "all-in-one")
        except Exception as e:  # noqa: BLE001
            R.violation("all-in-one command exited 0 but its output is not fully readable", case,
                        {"exc": f"{type(e).__name__}: {e}"[:300]})
            scA = None
    if okB:
        try:
            infoB, scB = decode_all(B, acc)
            nontriv = nontriv or len(infoB["scales"]) >= 2
            _complete(R, case, B, infoB, scB, "step-by-step")
        except Exception as e:  # noqa: BLE001
            R.violation("step-by-step commands exited 0 but the output is not fully readable", case,
                        {"exc": f"{type(e).__name__}: {e}"[:300]})
            scB = None
    R.case(case, nontrivial=nontriv)
    if rcA is None:
        if not okB:
            R.violation("step-by-step sharded pipeline failed", case, {"steps": rcs})
        shutil.rmtree(d, ignore_errors=True)
        return
    if (rcA == 0) != okB:
        R.violation("all-in-one and step-by-step disagree on success", case,
                    {"all_in_one_rc": rcA, "all_in_one_err": seA[-400:], "steps": rcs})
        return
    if rcA != 0:
        R.count("both-failed")
        R.extra.setdefault("both_failed", []).append({"case": case, "err": seA[-200:]})
        return
    if scA is None or scB is None:
        return
    ia = json.loads(json.dumps(infoA))
    ib = json.loads(json.dumps(infoB))
    if ia != ib:
        R.violation("info of the all-in-one run differs from the step-by-step info", case,
                    {"A": ia, "B": ib})
    why = same(scA, scB)
    if why:
        R.violation("decoded voxels of the all-in-one run differ from the step-by-step run", case, {"why": why})

    # ---- the all-in-one command a second time, with ANOTHER volume, into the same destination: a success
    #      status must mean that the destination now holds the new volume's pyramid
    if i % 4 == 2:
        shape2 = [max(1, x - 1) if x < 100 else x + 7 for x in shape]
        arr2 = (np.arange(int(np.prod(shape2)) * nch) % 251).astype(arr.dtype).reshape(shape2 + ([nch] if nch > 1 else []))
        nii2 = os.path.join(d, "v2.nii")
        pipeline.write_nifti(nii2, arr2, affine=affine)
        a2_args = [nii2, A] + common + ds_opts + te_opts
        rc2, so2, se2 = pipeline.run_script("volume_to_precomputed_pyramid", a2_args, inprocess=inproc)
        R.count("second-all-in-one-into-same-destination:" + ("rc0" if rc2 == 0 else "refused"))
        if rc2 == 0:
            try:
                info2, sc2 = decode_all(A, acc)
                ok2 = info2["scales"][0]["size"] == list(shape2)
            except Exception:  # noqa: BLE001
                ok2 = False
            if not ok2:
                R.violation("a second all-in-one run with another volume exited 0 but the destination does not "
                            "hold that volume's pyramid", case, {"second_shape": shape2})
        else:
            _i3, sc3 = decode_all(A, acc)
            why = same(scA, sc3)
            if why:
                R.violation("a refused second all-in-one run changed the destination", case, {"why": why})

    # ---- generate-scales-info a second time, with other options, on the same destination: either it fails and
    #      leaves the info alone, or the info on disk is the one asked for now
    if i % 4 == 1:
        info_before = open(os.path.join(B, "info")).read()
        g2 = [os.path.join(B, "info_fullres.json"), B, "--target-chunk-size", 32, "--type", "segmentation"]
        rcg, sog, seg = pipeline.run_script("generate_scales_info", g2, inprocess=inproc)
        info_after = open(os.path.join(B, "info")).read()
        R.count("second-generate-scales-info:" + ("rc0" if rcg == 0 else "refused"))
        if rcg == 0:
            ja = json.loads(info_after)
            if ja.get("type") != "segmentation" or ja["scales"][0]["chunk_sizes"][0] != [32, 32, 32]:
                R.violation("a second generate-scales-info with other options exited 0 but the info on disk is "
                            "not the one it was asked to produce", case, {"type": ja.get("type"),
                                                                          "chunk_sizes": ja["scales"][0]["chunk_sizes"]})
        elif info_after != info_before:
            R.violation("a refused generate-scales-info changed the info", case, {})
        if info_after != info_before:
            with open(os.path.join(B, "info"), "w") as f:
                f.write(info_before)

    # ---- repeat data-writing steps on their own output
    if storage != "sharded":
        for name, args in (steps[2], steps[3], steps[3]):
            rc, so, se = pipeline.run_script(name, args, inprocess=inproc)
            if rc != 0:
                R.violation(f"repeating {name} on its own output failed", case, {"rc": rc, "stderr": se[-300:]})
                return
        _, scB2 = decode_all(B, acc)
        why = same(scB, scB2)
        if why:
            R.violation("repeating data-writing steps changed the decoded contents", case, {"why": why})
        # convert-chunks onto a fresh copy with --copy-info, twice
        C = os.path.join(d, "C")
        for _ in range(2):
            rc, so, se = pipeline.run_script("convert_chunks", [B, C, "--copy-info"] + common, inprocess=inproc)
            if rc != 0:
                # second run: info exists -> refusal to overwrite is acceptable only if reported as failure
                break
        try:
            _, scC = decode_all(C, acc)
            # JPEG: the copy re-encodes decoded voxels (generation loss is expected, not compared)
            why = same(scB, scC) if enc != "jpeg" else None
            if why:
                R.violation("convert-chunks --copy-info output differs from its source", case, {"why": why})
        except Exception as e:  # noqa: BLE001
            R.violation("convert-chunks --copy-info output unreadable", case, {"exc": f"{type(e).__name__}: {e}"[:200]})
    # the first scale gets a SECOND chunking (legal in the format; written through the I/O layer), then the
    # dataset is copied with convert-chunks: exit status 0 must mean every chunk of every chunking is there
    if storage != "sharded" and enc != "jpeg" and i % 4 == 3:
        infoM = json.loads(json.dumps(infoB))
        cs0 = infoM["scales"][0]["chunk_sizes"][0]
        extra = [max(1, c // 2) for c in cs0]
        infoM["scales"][0]["chunk_sizes"].append(extra)
        M = os.path.join(d, "M")
        shutil.copytree(B, M)
        with open(os.path.join(M, "info"), "w") as f:
            json.dump(infoM, f)
        pioM = pipeline.fresh_io(M, acc)
        s0 = infoM["scales"][0]
        for (x0, x1, y0, y1, z0, z1) in pipeline.chunk_grid(s0["size"], extra):
            pioM.write_chunk(np.ascontiguousarray(scB[s0["key"]][:, z0:z1, y0:y1, x0:x1]), s0["key"],
                             (x0, x1, y0, y1, z0, z1))
        M2 = os.path.join(d, "M2")
        rc, so, se = pipeline.run_script("convert_chunks", [M, M2, "--copy-info"] + common, inprocess=inproc)
        R.count("convert-two-chunkings:" + ("rc0" if rc == 0 else "failed"))
        if rc == 0:
            try:
                _, scM = decode_all(M2, acc)
                why = same(scB, scM)
                if why:
                    R.violation("convert-chunks of a scale with two chunkings exited 0 but the contents differ", case,
                                {"why": why})
            except Exception as e:  # noqa: BLE001
                R.violation("convert-chunks of a scale with two chunkings exited 0 but a chunk is missing or "
                            "unreadable", case, {"exc": f"{type(e).__name__}: {e}"[:200], "chunkings": [cs0, extra]})
        else:
            R.violation("convert-chunks of a scale with two chunkings failed", case, {"rc": rc, "stderr": se[-300:]})
    # convert-chunks into a destination whose info declares ANOTHER compressed_segmentation block size
    if enc == "compressed_segmentation" and storage != "sharded":
        Dd = os.path.join(d, "D")
        os.makedirs(Dd)
        dinfo = json.loads(json.dumps(infoB))
        for x in dinfo["scales"]:
            x["compressed_segmentation_block_size"] = rng.choice([[4, 4, 4], [16, 8, 4], [2, 2, 2]])
        with open(os.path.join(Dd, "info"), "w") as f:
            json.dump(dinfo, f)
        rc, so, se = pipeline.run_script("convert_chunks", [B, Dd] + common, inprocess=inproc)
        R.count("convert-to-other-block-size:" + ("rc0" if rc == 0 else "failed"))
        if rc == 0:
            try:
                _, scD = decode_all(Dd, acc)
                why = same(scB, scD)
                if why:
                    R.violation("convert-chunks to another compressed_segmentation block size exited 0 but the "
                                "contents differ", case, {"why": why})
            except Exception as e:  # noqa: BLE001
                R.violation("convert-chunks to another compressed_segmentation block size exited 0 but the output "
                            "is not readable", case, {"exc": f"{type(e).__name__}: {e}"[:200]})
        else:
            R.violation("convert-chunks to another compressed_segmentation block size failed", case,
                        {"rc": rc, "stderr": se[-300:]})
    # convert-chunks into a SHARDED destination (real subprocess: flushed by the exit handler); exit
    # status 0 must mean every chunk is there and equal
    if storage != "sharded" and i % 4 == 1 and all(len(set(x["chunk_sizes"][0])) == 1 for x in infoB["scales"]):
        S = os.path.join(d, "S")
        os.makedirs(S)
        sinfo = json.loads(json.dumps(infoB))
        for x in sinfo["scales"]:
            x["sharding"] = {"@type": "neuroglancer_uint64_sharded_v1", "minishard_bits": 1, "shard_bits": 1,
                             "preshift_bits": 0, "hash": "identity", "minishard_index_encoding": "raw",
                             "data_encoding": "raw"}
        with open(os.path.join(S, "info"), "w") as f:
            json.dump(sinfo, f)
        rc, so, se = pipeline.run_script("convert_chunks", [B, S], inprocess=False)
        R.count("sharded-convert-step")
        if rc == 0:
            try:
                _, scS = decode_all(S, {})
                why = same(scB, scS) if enc != "jpeg" else None
                if why:
                    R.violation("convert-chunks into a sharded destination exited 0 but the contents differ", case,
                                {"why": why})
            except Exception as e:  # noqa: BLE001
                R.violation("convert-chunks into a sharded destination exited 0 but the output is not readable",
                            case, {"exc": f"{type(e).__name__}: {e}"[:200]})
        else:
            R.violation("convert-chunks into a sharded destination failed", case, {"rc": rc, "stderr": se[-300:]})
    shutil.rmtree(d, ignore_errors=True)


def _complete(R, case, base, info, scales, which):
    """exit status 0 => every scale present with the full shape."""
    for s in info["scales"]:
        k = s["key"]
        if k not in scales:
            R.violation(f"{which}: exit status 0 but scale {k} is missing", case, {})


def replay(R, payload):
    return True
