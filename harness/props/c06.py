"""C06 — each pyramid level equals the whole previous level downscaled once.

Correspondence: dyadic_pyramid.compute_dyadic_downscaling / compute_dyadic_scales
(and scripts.compute_scales through the real accessors)
  vs  coq/theories/Pyramid/{PyrTiling,PyrCompute}.v (ops tile_level, pyramid, ds_whole).
Oracle: every level read back is compared with an independent whole-level
reference downscale (NumPy/Python, exact integers) of the previous level as
read back; every run is done twice with np.empty poisoned by 0x00 and 0xFF.
Outcome classes: exact / error / silently wrong.  "error" satisfies the
property; "silently wrong" is ALWAYS a violation (C06_tiling_sound holds without
a guard since /repo e7c7a72 refuses the half-chunk-1 stretch up front).
"""
import copy
import json
import os

import numpy as np

from harness.common import model_outcome
from harness.props import pyr_common as pc

RULE = ("(a) hand-made (old size, new size, old chunk, new chunk) transitions on both sides of compat, sizes 1..14 "
        "per axis, chunk sizes 1..16 incl. non powers of two, plus a stream with inconsistent new sizes; "
        "(b) generator outputs for sizes 1..70, resolution ratios 2^k*{1,0.7,1.3,1.5}, targets 1..16, whole pyramid "
        "through an in-memory reader/writer; (c) the same through the real accessors (file deep/flat, gzip on/off, "
        "sharded), raw and compressed_segmentation. 3 methods, uint8/16/32/64, 1..2 channels, each run twice with "
        "np.empty poisoned 0x00 / 0xFF. non-trivial = at least 2 new chunks or at least 2 old chunks per new chunk")

DTYPES = {"uint8": 2 ** 8 - 1, "uint16": 2 ** 16 - 1, "uint32": 2 ** 32 - 1, "uint64": 2 ** 64 - 1}


def rand_vol(rng, shape, dtype, method):
    top = DTYPES[dtype]
    if method == "average":
        top = min(top, 2 ** 32 - 1)            # C07's exactness guard for float64 averaging
    n = int(np.prod(shape))
    mode = rng.random()
    if method == "majority" or mode < 0.3:
        pal = [rng.randrange(0, top + 1) for _ in range(rng.choice([2, 3, 5]))]
        vals = [rng.choice(pal) for _ in range(n)]
    elif mode < 0.6:
        vals = [rng.choice([0, 1, 2, 3, top - 1, top]) for _ in range(n)]
    else:
        vals = [rng.randrange(0, top + 1) for _ in range(n)]
    return np.array(vals, dtype=np.dtype(dtype)).reshape(shape)


def stretch_axis(os_, ns, oc, nc):
    return oc // pc.py_axis_f(os_, ns) == 1 and min(nc, ns) >= 3


def geom_pos_py(os3, ns3, oc3, nc3, C):
    return all(v > 0 for v in list(os3) + list(ns3) + list(oc3) + list(nc3)) and C > 0


def stretch_class(os3, ns3, oc3, nc3):
    return any(stretch_axis(*t) for t in zip(os3, ns3, oc3, nc3))


def gen_axis(rng, side):
    f = rng.choice([1, 2])
    os_ = rng.randrange(1, 13) if f == 1 else rng.randrange(2, 15)
    ns = os_ if f == 1 else pc.ceil_div(os_, 2)
    oc = rng.choice([1, 2, 2, 3, 4, 4, 5, 6, 8])
    h = oc // f
    if side == "compat" and h >= 1:
        nc = rng.choice([h, 2 * h])
        if f * h != oc:
            oc = f * h
    elif side == "stretch" and rng.random() < 0.5:
        oc = f
        nc = rng.choice([3, 4, 4, 8])
    else:
        nc = rng.choice([1, 2, 3, 4, 6, 8, 16])
    return os_, ns, oc, nc


def gen_handmade(rng):
    side = rng.choice(["compat", "compat", "any", "stretch"])
    ax = [gen_axis(rng, side if (side != "stretch" or i == 0) else "compat") for i in range(3)]
    rng.shuffle(ax)
    os3, ns3, oc3, nc3 = (list(t) for t in zip(*ax))
    if rng.random() < 0.04:                      # inconsistent sizes: ValueError expected
        a = rng.randrange(3)
        ns3[a] = max(1, ns3[a] + rng.choice([-1, 1, 2]))
    return os3, ns3, oc3, nc3


def transition(R, case, os3, ns3, oc3, nc3, method, dtype, C, vol, known_region=None):
    """One transition through MemIO, twice poisoned; model + reference comparison.
    Returns (class, new level as read back or None)."""
    info = pc.two_scale_info(os3, ns3, oc3, nc3, dtype, C)
    runs = []
    for byte in (0x00, 0xFF):
        out, io = pc.run_transition(info, 0, method, vol, byte)
        runs.append((byte, out, io))
    rep = R.model.call("tile_level", [pc.Atom(method), os3, ns3, oc3, nc3, C, [int(v) for v in vol.ravel()]])
    mod = model_outcome(rep)
    preds = R.model.call("geom_preds", [os3, ns3, oc3, nc3, C])
    m_compat, m_guard, m_stretch, m_zero = (preds[i] == "true" for i in (2, 3, 4, 5))
    # --- correspondence
    for byte, out, io in runs:
        if out[0] == "ok":
            if mod[0] != "ok":
                R.disagree("compute_dyadic_downscaling vs tile_level (outcome)", case, out[:1], mod)
                break
            pz = pc.poison_value(byte, dtype)
            mch = pc.model_chunks(mod[1], pz)
            ich = [(co, [int(v) for v in a.ravel()]) for co, a in out[1]]
            if [(co, d) for co, d, _ in mch] != ich:
                R.disagree("compute_dyadic_downscaling vs tile_level (chunks)", case,
                           [c for c, _ in ich][:4], [c for c, _, _ in mch][:4])
                break
        elif out != mod:
            R.disagree("compute_dyadic_downscaling vs tile_level (error class)", case, out, mod)
            break
    # --- oracle on the implementation
    f3 = [pc.py_axis_f(a, b) for a, b in zip(os3, ns3)]
    sizes_ok = ns3 == [pc.ceil_div(a, f) for a, f in zip(os3, f3)]
    (b0, out0, io0), (b1, out1, io1) = runs
    if out0[0] != "ok" or out1[0] != "ok":
        cls = "error"
        new = None
        if out0[0] != out1[0]:
            R.violation("outcome depends on the content of uninitialised memory", case, [out0[:2], out1[:2]])
    else:
        g0, full0 = io0.assemble("new")
        g1, full1 = io1.assemble("new")
        ref = pc.ref_downscale(vol, f3, method) if sizes_ok else None
        if not (full0 and full1) or not np.array_equal(g0, g1):
            cls = "wrong"
            detail = "unwritten voxels (result depends on the np.empty poison)"
        elif ref is None or ref.shape != g0.shape or not np.array_equal(g0, ref):
            cls = "wrong"
            detail = "differs from the whole-level reference"
        else:
            cls = "exact"
        new = g0
        if cls == "wrong":
            R.violation("new scale written without error but wrong: " + detail, case,
                        {"wrong_voxels": int((g0 != ref).sum()) if ref is not None and ref.shape == g0.shape else None,
                         "half_chunk_1_stretch_geometry": stretch_class(os3, ns3, oc3, nc3)})
    # --- the proved predicates, checked against what the implementation did
    if m_compat and cls == "error":
        # an error is not wrong data, but the implementation no longer does what tiling_exact proves of the model
        R.disagree("compat geometry not tiled exactly (tiling_exact is proved for the model)", case, runs[0][1][:2], "exact")
    if (cls == "exact") != m_compat and geom_pos_py(os3, ns3, oc3, nc3, C):
        # C06_ok_iff_compat: on positive geometries "no error" coincides with compat
        if cls != "wrong":
            R.disagree("outcome class vs compat (C06_ok_iff_compat is proved for the model)", case, cls, m_compat)
    if stretch_class(os3, ns3, oc3, nc3) != m_stretch:
        R.disagree("stretch_class: extracted predicate vs Python restatement", case,
                   stretch_class(os3, ns3, oc3, nc3), m_stretch)
    if m_stretch and sizes_ok and not m_zero and cls != "error":
        R.violation("half chunk of 1 facing an extent >= 3 was not refused", case, cls)
    pyc = all(pc.py_compat_axis(*t) for t in zip(os3, ns3, oc3, nc3)) and sizes_ok
    if pyc != m_compat:
        R.disagree("compat: extracted predicate vs Python restatement", case, pyc, m_compat)
    R.count(f"transition:{method}:{cls}")
    if cls == "error":
        R.count("error:" + runs[0][1][-1])
    return cls, new


def write_level0(io, info, vol):
    s = info["scales"][0]
    cx, cy, cz = s["chunk_sizes"][0]
    sx, sy, sz = s["size"]
    for x in range(0, sx, cx):
        for y in range(0, sy, cy):
            for z in range(0, sz, cz):
                co = (x, min(x + cx, sx), y, min(y + cy, sy), z, min(z + cz, sz))
                io.write_chunk(np.ascontiguousarray(vol[:, co[4]:co[5], co[2]:co[3], co[0]:co[1]]), s["key"], co)


def read_level(io, info, li):
    """Whole level through read_chunk; (array, None) or (None, outcome)."""
    s = info["scales"][li]
    cx, cy, cz = s["chunk_sizes"][0]
    sx, sy, sz = s["size"]
    out = np.zeros((info["num_channels"], sz, sy, sx), dtype=np.dtype(info["data_type"]))
    for x in range(0, sx, cx):
        for y in range(0, sy, cy):
            for z in range(0, sz, cz):
                co = (x, min(x + cx, sx), y, min(y + cy, sy), z, min(z + cz, sz))
                r = pc.outcome_bc(lambda: io.read_chunk(s["key"], co))
                if r[0] != "ok":
                    return None, r
                out[:, co[4]:co[5], co[2]:co[3], co[0]:co[1]] = r[1]
    return out, None


def gen_pyramid_input(rng, max_vox):
    from neuroglancer_scripts import dyadic_pyramid as dp
    for _ in range(200):
        size = [rng.randrange(1, 71) for _ in range(3)]
        rng.shuffle(size)
        while size[0] * size[1] * size[2] > max_vox:
            a = max(range(3), key=lambda i: size[i])
            size[a] = max(1, size[a] // 2)
        if rng.random() < 0.25:
            res = [1, 1, 1]
        else:
            res = [float(2 ** rng.choice([0, 0, 1, 2, 3, 5]) * rng.choice([1, 1, 0.7, 1.3, 1.5])) for _ in range(3)]
        target = 2 ** rng.randrange(0, 5)
        info = pc.base_info(size, res)
        try:
            dp.fill_scales_for_dyadic_pyramid(info, target_chunk_size=target)
        except AssertionError:
            continue
        keys = [s["key"] for s in info["scales"]]
        if len(keys) < 2 or len(set(keys)) != len(keys):
            continue
        return size, res, target, info
    raise RuntimeError("no pyramid input found")


def geoms_of(info):
    sc = info["scales"]
    return [(sc[i]["size"], sc[i + 1]["size"], sc[i]["chunk_sizes"][0], sc[i + 1]["chunk_sizes"][0])
            for i in range(len(sc) - 1)]


def judge_levels(R, case, info, levels, method, err):
    """levels[i] = level i as read back (level 0 = input).  Applies the oracle to
    every computed level; returns the class of the pyramid."""
    worst = "exact"
    for li in range(1, len(levels)):
        os3, ns3, oc3, nc3 = geoms_of(info)[li - 1]
        f3 = [pc.py_axis_f(a, b) for a, b in zip(os3, ns3)]
        ref = pc.ref_downscale(levels[li - 1], f3, method)
        if levels[li] is None:
            break
        if ref.shape != levels[li].shape or not np.array_equal(ref, levels[li]):
            worst = "wrong"
            R.violation("scale written without error but different from the previous scale downscaled once",
                        {**case, "level": li},
                        {"wrong_voxels": int((ref != levels[li]).sum()) if ref.shape == levels[li].shape else None})
    if err is not None and worst == "exact":
        worst = "error"
    return worst


def run(R):
    from neuroglancer_scripts import accessor, downscaling, dyadic_pyramid as dp, precomputed_io
    from neuroglancer_scripts.scripts import compute_scales
    import logging
    logging.disable(logging.CRITICAL)
    R.rule = RULE
    rng = R.rng
    quick = R.tier == "quick"

    # ---------------------------------------------------------- corpus: the former silent-wrong witnesses
    # (findings/C06.json is empty since /repo e7c7a72; these must now end in an error)
    for os3, ns3, oc3, nc3 in (([9, 5, 1], [5, 3, 1], [8, 2, 2], [8, 4, 4]),
                               ([1, 6, 8], [1, 3, 8], [2, 2, 8], [4, 4, 8]),
                               ([4, 7, 3], [4, 7, 3], [4, 1, 2], [4, 4, 2])):
        for method in ("average", "stride", "majority"):
            vol = rand_vol(rng, (1, os3[2], os3[1], os3[0]), "uint8", method)
            case = {"corpus": "former-length1-broadcast", "os": os3, "ns": ns3, "oc": oc3, "nc": nc3,
                    "method": method, "dtype": "uint8", "C": 1, "data": vol.tobytes().hex()}
            R.case(case, nontrivial=True)
            cls, _ = transition(R, case, os3, ns3, oc3, nc3, method, "uint8", 1, vol)
            R.count("former-witness:" + cls)
    from neuroglancer_scripts import dyadic_pyramid as _dp
    winfo = pc.base_info([65, 5, 1], [1, 8, 32])
    _dp.fill_scales_for_dyadic_pyramid(winfo, target_chunk_size=4)
    wvol = rand_vol(rng, (1, 1, 5, 65), "uint8", "average")
    wio = pc.MemIO(copy.deepcopy(winfo))
    wio.fill_level(winfo["scales"][0]["key"], wvol)
    with pc.poisoned(0xFF):
        wout = pc.outcome_bc(lambda: _dp.compute_dyadic_scales(wio, pc.get_ds("average")))
    wcase = {"corpus": "former-generated-witness", "size": [65, 5, 1], "resolution": [1, 8, 32], "target": 4}
    R.case(wcase, nontrivial=True)
    wlv = [wvol]
    for li in range(1, len(winfo["scales"])):
        got, full = wio.assemble(winfo["scales"][li]["key"])
        if not full:
            break
        wlv.append(got)
    R.count("former-generated-witness:" + judge_levels(R, wcase, winfo, wlv, "average", None if wout[0] == "ok" else wout))

    # ---------------------------------------------------------- (a) hand-made transitions
    for _ in range(1300 if quick else 22000):
        os3, ns3, oc3, nc3 = gen_handmade(rng)
        method = rng.choice(["average", "majority", "stride"])
        dtype = rng.choice(["uint8", "uint8", "uint16", "uint32"] + ([] if method == "average" else ["uint64"]))
        C = rng.choice([1, 1, 2])
        vol = rand_vol(rng, (C, os3[2], os3[1], os3[0]), dtype, method)
        case = {"os": os3, "ns": ns3, "oc": oc3, "nc": nc3, "method": method, "dtype": dtype, "C": C,
                "data": vol.tobytes().hex() if vol.size <= 64 else "seeded"}
        nchunks = int(np.prod([pc.ceil_div(a, b) for a, b in zip(ns3, nc3)]))
        multi = any(nc > (oc // pc.py_axis_f(a, b) or 1) for a, b, oc, nc in zip(os3, ns3, oc3, nc3))
        R.case(case, nontrivial=nchunks >= 2 or multi)
        transition(R, case, os3, ns3, oc3, nc3, method, dtype, C, vol)

    # ---------------------------------------------------------- (a') unreadable source chunks
    _unreadable_source_stream(R, rng, quick)

    # ---------------------------------------------------------- (a'') one downscaler object, several datasets
    _shared_downscaler_stream(R, rng, quick)

    # ---------------------------------------------------------- (a3) float32 with non-finite / special values
    _special_float_stream(R, rng, quick)

    # ---------------------------------------------------------- (b) generator outputs, whole pyramid in memory
    for k in range(190 if quick else 3500):
        size, res, target, info = gen_pyramid_input(rng, 2500 if k % 3 else 9000)
        method = rng.choice(["average", "majority", "stride"])
        dtype = rng.choice(["uint8", "uint16", "uint32"] + ([] if method == "average" else ["uint64"]))
        C = rng.choice([1, 1, 2])
        info["data_type"] = dtype
        info["num_channels"] = C
        vol = rand_vol(rng, (C, size[2], size[1], size[0]), dtype, method)
        case = {"size": size, "resolution": res, "target": target, "method": method, "dtype": dtype, "C": C,
                "via": "compute_dyadic_scales/MemIO"}
        R.case(case, nontrivial=len(info["scales"]) >= 2)
        results = []
        for byte in (0x00, 0xFF):
            io = pc.MemIO(copy.deepcopy(info))
            io.fill_level(info["scales"][0]["key"], vol)
            with pc.poisoned(byte):
                out = pc.outcome_bc(lambda: dp.compute_dyadic_scales(io, pc.get_ds(method)))
            levels = [vol]
            for li in range(1, len(info["scales"])):
                got, full = io.assemble(info["scales"][li]["key"])
                present = any(kk == info["scales"][li]["key"] for kk, _ in io.store)
                levels.append(got if (full and (out[0] == "ok" or present)) else None)
                if levels[-1] is None:
                    break
            results.append((byte, out, levels))
        (b0, out0, lv0), (b1, out1, lv1) = results
        err = None if out0[0] == "ok" else out0
        if out0[:1] != out1[:1] or len(lv0) != len(lv1) or any(
                (a is None) != (b is None) or (a is not None and not np.array_equal(a, b)) for a, b in zip(lv0, lv1)):
            R.violation("result depends on the content of uninitialised memory", case, [out0[:2], out1[:2]])
        cls = judge_levels(R, case, info, lv0, method, err)
        R.count(f"pyramid-mem:{cls}")
        if err is not None:
            R.count("pyramid-error:" + err[-1])
        # model: the whole pyramid, same poison
        if vol.size <= 2600:
            scales = [[s["size"], s["chunk_sizes"][0]] for s in info["scales"]]
            rep = R.model.call("pyramid", [pc.Atom(method), C, pc.poison_value(0x00, dtype), scales,
                                           [int(v) for v in vol.ravel()]])
            mod = model_outcome(rep)
            if out0[0] == "ok":
                want = ["ok", [[C, list(reversed(a.shape[1:])), [int(v) for v in a.ravel()]] for a in lv0[1:]]]
                if mod != want:
                    R.disagree("compute_dyadic_scales vs pyramid (levels)", case, "impl levels", str(mod)[:300])
            elif mod != out0:
                R.disagree("compute_dyadic_scales vs pyramid (error class)", case, out0, mod[:2])
            R.count("pyramid-model-compared")

    # ---------------------------------------------------------- (c) real accessors
    layouts = [("deep-gzip", {}), ("flat-gzip", {"flat": True}), ("deep-plain", {"gzip": False}),
               ("flat-plain", {"flat": True, "gzip": False}), ("sharded", {})]
    for k in range(36 if quick else 360):
        lname, opts = layouts[k % len(layouts)]
        method = ["average", "majority", "stride"][k % 3]
        size, res, target, info = gen_pyramid_input(rng, 1500)
        if lname == "sharded":
            res = [1, 1, 1]
            info = pc.base_info(size, res)
            info["scales"][0]["sharding"] = {"@type": "neuroglancer_uint64_sharded_v1", "minishard_bits": rng.choice([0, 1, 2]),
                                             "shard_bits": rng.choice([0, 1]), "hash": "identity",
                                             "minishard_index_encoding": "raw", "data_encoding": rng.choice(["raw", "gzip"]),
                                             "preshift_bits": rng.choice([0, 1])}
            dp.fill_scales_for_dyadic_pyramid(info, target_chunk_size=target)
            if len(info["scales"]) < 2:
                continue
        enc = "raw"
        dtype = rng.choice(["uint8", "uint16", "uint32"])
        if method != "average" and rng.random() < 0.4:
            enc, dtype = "compressed_segmentation", rng.choice(["uint32", "uint64"])
        C = 1 if enc == "compressed_segmentation" else rng.choice([1, 2])
        info["data_type"] = dtype
        info["num_channels"] = C
        info["type"] = "segmentation" if enc == "compressed_segmentation" else "image"
        for s in info["scales"]:
            s["encoding"] = enc
            if enc == "compressed_segmentation":
                s["compressed_segmentation_block_size"] = [8, 8, 8]
        vol = rand_vol(rng, (C, size[2], size[1], size[0]), dtype, method)
        d = os.path.join(R.tmp, f"ds{k}")
        case = {"size": size, "resolution": res, "target": target, "method": method, "dtype": dtype, "C": C,
                "encoding": enc, "layout": lname, "via": "scripts.compute_scales"}
        R.case(case, nontrivial=True)

        def build_and_run():
            acc = accessor.get_accessor_for_url(d, dict(opts, sharding=True) if lname == "sharded" else opts)
            if lname == "sharded":
                acc.info = info
            io = precomputed_io.get_IO_for_new_dataset(copy.deepcopy(info), acc)
            write_level0(io, info, vol)
            if lname == "sharded":
                acc.close()
            with pc.poisoned(0xFF):
                compute_scales.compute_scales(d, method, dict(opts, downscaling_method=method))
            return True
        out = pc.outcome_bc(build_and_run)
        levels = [vol]
        rd = pc.outcome_bc(lambda: precomputed_io.get_IO_for_existing_dataset(accessor.get_accessor_for_url(d, opts)))
        if rd[0] == "ok":
            for li in range(1, len(info["scales"])):
                got, e = read_level(rd[1], info, li)
                levels.append(got)
                if got is None:
                    break
        if out[0] == "ok" and (len(levels) != len(info["scales"]) or levels[-1] is None):
            R.violation("compute_scales finished without error but a scale cannot be read back", case, {})
        cls = judge_levels(R, case, info, levels, method, None if out[0] == "ok" else out)
        R.count(f"pyramid-{lname}:{cls}")
        R.count(f"encoding:{enc}")
        if out[0] != "ok":
            R.count(f"accessor-error:{lname}:{out[-1]}")
        # the same input through the in-memory route must give the same class
        mio = pc.MemIO(copy.deepcopy(info))
        mio.fill_level(info["scales"][0]["key"], vol)
        with pc.poisoned(0xFF):
            mout = pc.outcome_bc(lambda: dp.compute_dyadic_scales(mio, pc.get_ds(method)))
        if (mout[0] == "ok") != (out[0] == "ok"):
            R.disagree("real accessor vs in-memory route (outcome)", case, out[:2], mout[:2])
        elif out[0] == "ok":
            for li in range(1, len(info["scales"])):
                got, full = mio.assemble(info["scales"][li]["key"])
                if levels[li] is None or not np.array_equal(got, levels[li]):
                    R.disagree("real accessor vs in-memory route (level data)", {**case, "level": li}, None, None)
                    break

    # ---------------------------------------------------------- (c2) fixed infos with an unprocessable transition
    _unprocessable_pyramids_stream(R, rng, quick)

    # ---------------------------------------------------------- read_chunk: validation / missing chunk classes
    size, cs = [7, 5, 3], [4, 2, 2]
    rinfo = pc.two_scale_info(size, size, cs, cs)
    rinfo["scales"] = rinfo["scales"][:1]
    rd = os.path.join(R.tmp, "readchunk")
    rio = precomputed_io.get_IO_for_new_dataset(rinfo, accessor.get_accessor_for_url(rd))
    write_level0(rio, rinfo, rand_vol(rng, (1, 3, 5, 7), "uint8", "stride"))
    coords = []
    for _ in range(400 if quick else 5000):
        lo = [rng.choice([0, c, 0, c, 2 * c, -c, 1, s, s - 1, 3 * c] if rng.random() < 0.5 else [0, c]) for c, s in zip(cs, size)]
        hi = [min(l + c, s) if rng.random() < 0.8 else l + rng.choice([0, 1, c]) for l, c, s in zip(lo, cs, size)]
        coords.append((lo, hi))
    reps = R.model.batch([("read_chunk", [size, cs, lo, hi]) for lo, hi in coords])
    for (lo, hi), rep in zip(coords, reps):
        impl = pc.outcome_bc(lambda: list(reversed(rio.read_chunk("old", (lo[0], hi[0], lo[1], hi[1], lo[2], hi[2])).shape[1:])))
        mod = model_outcome(rep)
        case = {"read_chunk": [lo, hi], "size": size, "chunk": cs}
        R.case(case)
        R.count("read_chunk:" + impl[0 if impl[0] == "ok" else -1])
        if impl != mod:
            R.disagree("PrecomputedIO.read_chunk vs read_chunk (outcome / shape)", case, impl, mod)

    # ---------------------------------------------------------- whole-level reference: model vs NumPy
    reqs, refs = [], []
    for _ in range(150 if quick else 4000):
        sh = [rng.randrange(1, 8) for _ in range(3)]
        f3 = [rng.choice([1, 2]) for _ in range(3)]
        method = rng.choice(["average", "majority", "stride"])
        C = rng.choice([1, 2])
        vol = rand_vol(rng, (C, sh[2], sh[1], sh[0]), "uint32", method)
        reqs.append(("ds_whole", [pc.Atom(method), f3, C, sh, [int(v) for v in vol.ravel()]]))
        r = pc.ref_downscale(vol, f3, method)
        impl = pc.get_ds(method).downscale(vol, f3)
        refs.append((method, f3, sh, r, impl))
    for (method, f3, sh, r, impl), rep in zip(refs, R.model.batch(reqs)):
        case = {"ds_whole": method, "factors": f3, "shape": sh}
        R.case(case)
        if [int(v) for v in r.ravel()] != rep[2] or list(reversed(r.shape[1:])) != rep[1]:
            R.disagree("reference downscale: NumPy restatement vs model", case, None, None)
        if impl.shape != r.shape or not np.array_equal(impl, r):
            R.violation("downscaler differs from the documented statistic on a whole array (C07's concern)", case, {})
    _whole_level_oracle(R, rng, quick)
    R.notes.append("averaging is compared on values < 2^32 (float64 sums exact, C07); float32 data and uint64 averaging "
                   "are outside the model-compared domain; the whole-level oracle below also covers float32 and "
                   "--outside-value through the package's own downscaler applied to the entire previous scale")
    R.notes.append("chunks of the previous scale are assumed complete (the whole level was written); encodings are "
                   "assumed lossless (raw, compressed_segmentation: C02/C03)")
    logging.disable(logging.NOTSET)
    if os.environ.get("VERIF_DEBUG"):
        import collections
        print(collections.Counter(v["what"] for v in R.violations))
        for v in R.violations[:5]:
            print(v)
        print(collections.Counter(v["what"] for v in R.disagreements))
        for v in R.disagreements[:5]:
            print(v)


def _unreadable_source_stream(R, rng, quick):
    """Source scale as a chunk store with failing reads (C06_fails_on_unreadable_source): some chunks of
    the old grid raise DataAccessError / InvalidFormatError when compute_dyadic_downscaling reads them.
    Model: op tile_level_src.  Oracle: on a compat pair the transition must fail, with the class of a
    read that failed; whatever the geometry, a run that does not raise must still equal the reference."""
    for _ in range(260 if quick else 6000):
        for _try in range(50):
            os3, ns3, oc3, nc3 = gen_handmade(rng)
            f3 = [pc.py_axis_f(a, b) for a, b in zip(os3, ns3)]
            if ns3 == [pc.ceil_div(a, f) for a, f in zip(os3, f3)]:
                break
        pyc = all(pc.py_compat_axis(*t) for t in zip(os3, ns3, oc3, nc3))
        if not pyc and rng.random() < 0.7:
            continue                      # mostly compat pairs: there the failure is mandatory
        method = rng.choice(["average", "majority", "stride"])
        C = rng.choice([1, 2])
        vol = rand_vol(rng, (C, os3[2], os3[1], os3[0]), "uint8", method)
        grid = [(x, min(x + oc3[0], os3[0]), y, min(y + oc3[1], os3[1]), z, min(z + oc3[2], os3[2]))
                for x in range(0, os3[0], oc3[0]) for y in range(0, os3[1], oc3[1]) for z in range(0, os3[2], oc3[2])]
        nbad = rng.choice([1, 1, 1, 2, 3])
        bad = {co: rng.choice(["AccessErr", "AccessErr", "FormatErr"]) for co in rng.sample(grid, min(nbad, len(grid)))}
        info = pc.two_scale_info(os3, ns3, oc3, nc3, "uint8", C)
        out, io = pc.run_transition(info, 0, method, vol, 0xFF, unreadable=bad)
        rep = R.model.call("tile_level_src", [pc.Atom(method), os3, ns3, oc3, nc3, C, [int(v) for v in vol.ravel()],
                                              [[[co[0], co[2], co[4]], pc.Atom(k)] for co, k in sorted(bad.items())]])
        mod = model_outcome(rep)
        case = {"unreadable_source": sorted([list(co), k] for co, k in bad.items()), "os": os3, "ns": ns3,
                "oc": oc3, "nc": nc3, "method": method, "C": C}
        R.case(case, nontrivial=len(grid) >= 2)
        cls = out[0] if out[0] == "ok" else out[-1]
        R.count(f"unreadable-source:{'compat' if pyc else 'other'}:{cls}")
        # correspondence
        if out[0] == "ok":
            ich = [(co, [int(v) for v in a.ravel()]) for co, a in out[1]]
            mch = [(co, d) for co, d, _ in pc.model_chunks(mod[1], pc.poison_value(0xFF, "uint8"))] if mod[0] == "ok" else mod
            if mch != ich:
                R.disagree("compute_dyadic_downscaling vs tile_level_src (unreadable source chunks)", case, "ok", str(mod)[:200])
        elif out != mod:
            R.disagree("compute_dyadic_downscaling vs tile_level_src (error class)", case, out, mod[:2])
        # oracle
        if pyc:
            if out[0] == "ok":
                R.violation("transition finished without error although a chunk of the source scale is unreadable",
                            case, {"written_chunks": len(out[1])})
            elif out not in (["AccessErr"], ["FormatErr"]) or out[0] not in set(bad.values()):
                R.violation("unreadable source chunk: the failure is not the error of a failed read", case, out)
        elif out[0] == "ok":
            got, full = io.assemble("new")
            ref = pc.ref_downscale(vol, f3, method)
            if not full or ref.shape != got.shape or not np.array_equal(got, ref):
                R.violation("new scale written without error but wrong (unreadable source chunks present)", case, {})


def _shared_downscaler_stream(R, rng, quick):
    """ONE downscaler object (library use: ds = get_downscaler(m); for each dataset:
    compute_dyadic_scales(io, ds)) builds the pyramids of several datasets of DIFFERENT data types in one
    process, in fixed (stratified) orders; the later datasets hold values the earlier types cannot
    represent.  Every level of every pyramid must equal the whole previous level downscaled once
    (independent reference); the levels of the earlier pyramids are re-checked after the later ones."""
    from neuroglancer_scripts import downscaling, dyadic_pyramid as dp
    orders = {"average": [("uint8", "uint16"), ("uint16", "uint8"), ("uint8", "uint32", "uint16"),
                          ("uint8", "float32"), ("float32", "uint16"), ("uint32", "uint8", "float32")],
              "majority": [("uint8", "uint16"), ("uint32", "uint8", "uint64")],
              "stride": [("uint8", "uint16"), ("uint64", "uint8", "uint32")]}
    reps = 1 if quick else 12
    for method, olist in orders.items():
        for order in olist * reps:
            ds = downscaling.get_downscaler(method, None, {})          # one object for the whole batch
            done = []
            for pos, dtype in enumerate(order):
                size = [rng.choice([5, 8, 9, 13]), rng.choice([4, 7, 8]), rng.choice([1, 3, 6])]
                rng.shuffle(size)
                C = rng.choice([1, 2])
                info = pc.base_info(size, [1, 1, 1], data_type=dtype, num_channels=C)
                dp.fill_scales_for_dyadic_pyramid(info, target_chunk_size=rng.choice([2, 4]))
                n = C * size[0] * size[1] * size[2]
                if dtype == "float32":
                    vals = [rng.choice([0.25, 1.5, 2.5, 1e6 + 0.5, -3.25, 300.75]) if rng.random() < 0.5
                            else rng.uniform(-5, 70000) for _ in range(n)]
                else:
                    top = min(DTYPES[dtype], 2 ** 32 - 1) if method == "average" else DTYPES[dtype]
                    vals = [rng.choice([top, top - 1, top // 2 + 1, 256, 257, 65536, 70000, 0, 1]) % (top + 1)
                            if rng.random() < 0.6 else rng.randrange(top + 1) for _ in range(n)]
                vol = np.array(vals, dtype=np.dtype(dtype)).reshape(C, size[2], size[1], size[0])
                io = pc.MemIO(copy.deepcopy(info))
                io.fill_level(info["scales"][0]["key"], vol)
                with pc.poisoned(0xFF):
                    out = pc.outcome_bc(lambda: dp.compute_dyadic_scales(io, ds))
                case = {"shared_downscaler": method, "order": list(order), "position": pos, "dtype": dtype,
                        "size": size, "C": C}
                R.case(case, nontrivial=pos >= 1)
                R.count(f"shared-downscaler:{method}:{dtype}:pos{pos}:{out[0] if out[0] == 'ok' else out[-1]}")
                if out[0] != "ok":
                    R.violation("isotropic pyramid not processed when the downscaler object was used before", case, out)
                    continue
                done.append((case, info, io, vol))
                # every dataset processed so far (recipe: re-check earlier results after later calls)
                for case_k, info_k, io_k, vol_k in done:
                    prev = vol_k
                    for li in range(1, len(info_k["scales"])):
                        got, full = io_k.assemble(info_k["scales"][li]["key"])
                        f3 = [pc.py_axis_f(a, b) for a, b in zip(info_k["scales"][li - 1]["size"],
                                                                   info_k["scales"][li]["size"])]
                        want = _indep_whole(prev, f3, method, None)
                        if not full or want.shape != got.shape or want.tobytes() != np.ascontiguousarray(got).tobytes():
                            R.violation("a scale differs from the whole previous scale downscaled once when ONE "
                                        "downscaler object serves several datasets", {**case_k, "level": li,
                                                                                       "checked_after_position": pos},
                                        {"voxels_differing": int((want != got).sum()) if want.shape == got.shape else -1,
                                         "example_expected": want.ravel()[:4].tolist(), "example_stored": got.ravel()[:4].tolist()})
                            break
                        prev = got


def _special_float_stream(R, rng, quick):
    """float32 volumes holding +inf / -inf / NaN regions (ragged masks), -0.0, denormals and FLT_MAX, through
    the real compute_dyadic_scales with each method (stratified), compared NaN-aware and bitwise with the
    independent whole-level reference: the mean of an all-inf block is inf, inf and -inf average to NaN,
    all NaN voxels of a block count as ONE value in a majority vote (np.unique groups them)."""
    from neuroglancer_scripts import dyadic_pyramid as dp
    plan = [("average", "inf-regions"), ("majority", "nan-mask"), ("stride", "all"), ("average", "all"),
            ("majority", "nan-and-inf"), ("average", "nan-mask")]
    for k in range(len(plan) * (2 if quick else 25)):
        method, flavour = plan[k % len(plan)]
        size = [rng.choice([6, 9, 12]), rng.choice([5, 8, 10]), rng.choice([2, 4, 7])]
        rng.shuffle(size)
        C = 1 + (k % 2)
        info = pc.base_info(size, [1, 1, 1], data_type="float32", num_channels=C)
        dp.fill_scales_for_dyadic_pyramid(info, target_chunk_size=rng.choice([2, 4]))
        n = C * size[0] * size[1] * size[2]
        labels = [1.0, 2.0, 7.5, 300.25]
        vol = np.array([rng.choice(labels) if method == "majority" else rng.uniform(-50, 50) for _ in range(n)],
                       dtype=np.float32).reshape(C, size[2], size[1], size[0])
        specials = {"inf-regions": [np.inf, -np.inf], "nan-mask": [np.nan], "nan-and-inf": [np.nan, np.inf, -np.inf],
                    "all": list(pc.SPECIAL_F32)}[flavour]
        if method == "majority":
            # -0.0 and 0.0 are one label for np.unique and its representative is unspecified: keep zeros out
            specials = [v for v in specials if v != 0.0]
        # ragged regions (different extents per row) plus scattered voxels
        for _r in range(3):
            v = rng.choice(specials)
            z0, y0, x0 = (rng.randrange(sh) for sh in vol.shape[1:])
            for y in range(y0, vol.shape[2]):
                vol[:, z0:, y, x0:x0 + 1 + rng.randrange(vol.shape[3])] = v
        flat = vol.reshape(-1)
        for _r in range(max(2, n // 5)):
            flat[rng.randrange(n)] = rng.choice(specials)
        io = pc.MemIO(copy.deepcopy(info))
        io.fill_level(info["scales"][0]["key"], vol)
        with np.errstate(all="ignore"), pc.poisoned(0x00):
            out = pc.outcome_bc(lambda: dp.compute_dyadic_scales(io, pc.get_ds(method)))
        case = {"special_floats": flavour, "method": method, "size": size, "C": C,
                "data": vol.tobytes().hex() if vol.size <= 400 else "seeded"}
        R.case(case, nontrivial=True)
        R.count(f"special-floats:{method}:{flavour}:{out[0] if out[0] == 'ok' else out[-1]}")
        if out[0] != "ok":
            R.violation("float32 pyramid with non-finite values not processed", case, out)
            continue
        prev = vol
        for li in range(1, len(info["scales"])):
            got, full = io.assemble(info["scales"][li]["key"])
            f3 = [pc.py_axis_f(a, b) for a, b in zip(info["scales"][li - 1]["size"], info["scales"][li]["size"])]
            with np.errstate(all="ignore"):
                want = _indep_whole(prev, f3, method, None)
            if not full or not pc.same_values_bitwise(want, got):
                bad = ~((want == got) | (np.isnan(want) & np.isnan(got))) if want.shape == got.shape else None
                R.violation("float32 scale with non-finite / special values differs from the whole previous scale "
                            "downscaled once", {**case, "level": li},
                            {"voxels_differing": int(bad.sum()) if bad is not None else -1,
                             "expected": want[bad][:4].tolist() if bad is not None else None,
                             "stored": got[bad][:4].tolist() if bad is not None else None})
                break
            prev = got


def _unprocessable_pyramids_stream(R, rng, quick):
    """Deterministic (not drawn): generator outputs that contain a transition compute_dyadic_downscaling
    rejects - broadcast ValueError, "Unsupported combination of chunk sizes" ValueError, ZeroDivisionError
    (the open C08 regions) - plus one processable control, each ALWAYS run through the real compute-scales
    command (scripts.compute_scales.main on a dataset on disk) AND through the library function
    (compute_dyadic_scales on an accessor-backed PrecomputedIO).  Oracle, the last sentence of the property:
    a non-zero status / an exception, or a complete pyramid in which every scale is the previous one
    downscaled once.  Status 0 with a missing or wrong scale is a violation."""
    from neuroglancer_scripts import accessor, dyadic_pyramid as dp, precomputed_io
    from neuroglancer_scripts.scripts import compute_scales
    fixed = [([40, 40, 40], [1000, 4000, 16000], 4, "average"),     # third transition: ValueError
             ([40, 40, 40], [1000, 4000, 16000], 4, "stride"),
             ([3, 33, 3], [1, 3, 6], 4, "majority"),                 # first transition: could not broadcast
             ([65, 5, 1], [1, 8, 32], 4, "average"),                 # last transition: unsupported chunk sizes
             ([65, 5, 1], [1, 8, 32], 4, "stride"),
             ([3, 3, 3], [1, 1, 4], 1, "stride"),                    # first transition: ZeroDivisionError
             ([17, 6, 12], [1, 4, 2], 2, "average"),                 # mixed
             ([33, 20, 9], [1, 1, 1], 8, "average")]                 # control: processable
    for k, (size, res, target, method) in enumerate(fixed):
        info = pc.base_info(size, res)
        dp.fill_scales_for_dyadic_pyramid(info, target_chunk_size=target)
        keys = [sc["key"] for sc in info["scales"]]
        vol = rand_vol(rng, (1, size[2], size[1], size[0]), "uint8", method)
        geoms = geoms_of(info)
        predicted = [pc.py_geom_class(*g) for g in geoms]
        for route in ("command", "library"):
            d = os.path.join(R.tmp, f"unproc{k}-{route}")
            acc = accessor.get_accessor_for_url(d)
            io = precomputed_io.get_IO_for_new_dataset(copy.deepcopy(info), acc)
            write_level0(io, info, vol)
            case = {"fixed_unprocessable": True, "route": route, "size": size, "resolution": res, "target": target,
                    "method": method, "predicted_transitions": predicted}
            R.case(case, nontrivial=True)
            with pc.poisoned(0xFF):
                if route == "command":
                    out = pc.outcome_bc(lambda: compute_scales.main(["compute-scales", d, "--downscaling-method", method]))
                    ok = out[0] == "ok" and not out[1]
                else:
                    out = pc.outcome_bc(lambda: dp.compute_dyadic_scales(
                        precomputed_io.get_IO_for_existing_dataset(accessor.get_accessor_for_url(d)), pc.get_ds(method)))
                    ok = out[0] == "ok"
            R.count(f"fixed-unprocessable:{route}:" + ("status0" if ok else (out[-1] if out[0] != "ok" else f"rc{out[1]}")))
            if len(set(keys)) != len(keys):
                continue
            if not ok:
                if all(c == "exact" for c in predicted):
                    R.violation("a processable pyramid was refused", case, out[:2])
                continue
            # status 0: the pyramid has to be complete and right
            rd = precomputed_io.get_IO_for_existing_dataset(accessor.get_accessor_for_url(d))
            prev = vol
            for li in range(1, len(info["scales"])):
                got, err = read_level(rd, info, li)
                f3 = [pc.py_axis_f(a, b) for a, b in zip(info["scales"][li - 1]["size"], info["scales"][li]["size"])]
                want = pc.ref_downscale(prev, f3, method)
                if got is None:
                    R.violation("compute-scales reported success (status 0 / no exception) but a scale of the pyramid "
                                "is missing: an unprocessable pair of scales must fail with an error", {**case, "level": li},
                                {"read_back": err})
                    break
                if got.shape != want.shape or not np.array_equal(got, want):
                    R.violation("compute-scales reported success but a scale differs from the previous scale "
                                "downscaled once", {**case, "level": li}, {})
                    break
                prev = got


def _whole_level_oracle(R, rng, quick):
    """The property, literally: after the real commands ran, every scale must equal the selected
    downscaling method applied to the ENTIRE previous scale as one array (the package's own downscaler
    object, with the same options, on the whole level) - whatever the chunking.  Covers --outside-value,
    float32 data and anisotropic voxel sizes, which the model-compared streams leave out."""
    import json as _json
    from harness import pipeline
    from neuroglancer_scripts import downscaling
    n = 40 if quick else 500
    for i in range(n):
        d = os.path.join(R.tmp, f"wl{i}")
        os.makedirs(d)
        shape = [rng.choice([1, 2, 3, 5, 8, 9, 13, 17, 21, 33, rng.randrange(1, 40)]) for _ in range(3)]
        dt = rng.choice(["uint8", "uint16", "float32", "uint32"])
        nch = rng.choice([1, 1, 2])
        n_el = int(np.prod(shape)) * nch
        if dt == "float32":
            arr = np.array([rng.choice([0.0, 1.5, 2.5, 1e6, -3.25]) if rng.random() < 0.3 else rng.uniform(-5, 300)
                            for _ in range(n_el)], dtype=dt)
            if i % 2 == 0:
                # non-finite and special values as whole regions and as scattered voxels (ratio maps, masked
                # backgrounds): an all-inf block must average to inf, NaN must be able to win a majority vote
                flat = arr.reshape(-1)
                for _r in range(3):
                    v = rng.choice([np.inf, -np.inf, np.nan, np.inf, np.nan])
                    st = rng.randrange(n_el)
                    flat[st:st + max(2, n_el // 5)] = v
                for _r in range(max(1, n_el // 6)):
                    flat[rng.randrange(n_el)] = rng.choice(pc.SPECIAL_F32[:3] + pc.SPECIAL_F32[5:])
        else:
            hi = int(np.iinfo(dt).max)
            arr = np.array([rng.choice([0, 1, hi, hi - 1]) if rng.random() < 0.3 else rng.randrange(min(hi, 1000) + 1)
                            for _ in range(n_el)], dtype=dt)
        arr = arr.reshape(shape + ([nch] if nch > 1 else []))
        vox = rng.choice([(1.0, 1.0, 1.0), (1.0, 1.0, 1.0), (1.0, 2.0, 4.0), (1.0, 1.0, 2.0), (2.0, 1.0, 1.0), (1.0, 4.0, 1.0)])
        nii = os.path.join(d, "v.nii")
        pipeline.write_nifti(nii, arr, affine=np.diag(list(vox) + [1.0]))
        out = os.path.join(d, "out")
        method = rng.choice(["average", "average", "majority", "stride", "auto"])
        # "auto" (the default: no --downscaling-method) means averaging for an image dataset
        ov = rng.choice([None, 0.0, 1.5, 255.0, -3.0]) if method in ("average", "auto") else None
        opts = (["--downscaling-method", method] if method != "auto" else []) + \
            (["--outside-value", ov] if ov is not None else [])
        store = rng.choice([[], ["--flat"], ["--no-gzip"]])
        steps = [("volume_to_precomputed", ["--generate-info", nii, out]),
                 ("generate_scales_info", [os.path.join(out, "info_fullres.json"), out,
                                           "--target-chunk-size", rng.choice([2, 4, 8])]),
                 ("volume_to_precomputed", [nii, out] + store),
                 ("compute_scales", [out] + opts + store)]
        case = {"whole_level_oracle": True, "shape": shape, "dtype": dt, "channels": nch, "voxel_size": list(vox),
                "method": method, "outside_value": ov, "storage": store}
        failed = None
        damage = rng.choice([None] * 5 + ["delete", "truncate"])
        damaged = None
        for name, args in steps:
            if name == "compute_scales" and damage:
                damaged = _damage_one_source_chunk(rng, out, damage)
                case["source_chunk_damage"] = [damage, damaged]
            rc, so, se = pipeline.run_script(name, args, inprocess=True)
            if rc not in (0, 4):
                failed = (name, se[-200:])
                break
        R.case(case, nontrivial=True)
        if damaged:
            # a chunk of the full-resolution scale is gone or cut short: the second scale cannot be the
            # downscaling of the whole first scale, so the tool has to fail
            n_sc = len(_json.load(open(os.path.join(out, "info")))["scales"])
            R.count(f"whole-level:source-chunk-{damage}:" + ("error" if failed else "rc0") + f":scales={min(n_sc, 2)}")
            if not failed and n_sc > 1:
                R.violation("compute-scales exited 0 although a chunk of the source scale is missing or truncated",
                            case, {"damaged_file": damaged})
            continue
        if failed:
            # "If a pair of scales cannot be processed, the tool fails with an error": acceptable
            R.count(f"whole-level:{failed[0]}:error")
            continue
        acc = {"flat": "--flat" in store, "gzip": "--no-gzip" not in store}
        try:
            info, scales = pipeline.read_dataset(out, acc)
        except Exception as e:  # noqa: BLE001
            R.violation("compute-scales exited 0 but a scale cannot be read back", case, {"exc": f"{type(e).__name__}: {e}"[:200]})
            continue
        ds = downscaling.get_downscaler("average" if method == "auto" else method, info, {"outside_value": ov})
        R.count(f"whole-level:{method}:ov={ov}:ok")
        for a, b in zip(info["scales"], info["scales"][1:]):
            factors = [1 if x == y else 2 for x, y in zip(a["size"], b["size"])]
            want = ds.downscale(scales[a["key"]], factors)
            got = scales[b["key"]]
            indep = _indep_whole(scales[a["key"]], factors, "average" if method == "auto" else method, ov)
            if not pc.same_values_bitwise(indep, np.ascontiguousarray(want).astype(indep.dtype, copy=False)):
                R.violation("the package's downscaler applied to the whole previous scale differs from the "
                            "independent reference for the selected method and outside value", case,
                            {"from": a["key"], "to": b["key"], "factors": factors,
                             "voxels_differing": int((indep != want).sum()) if indep.shape == want.shape else -1})
                break
            if not pc.same_values_bitwise(np.ascontiguousarray(want), np.ascontiguousarray(got).astype(want.dtype, copy=False)):
                nbad = int((want != got).sum()) if want.shape == got.shape else -1
                R.violation("a scale differs from the downscaling of the whole previous scale", case,
                            {"from": a["key"], "to": b["key"], "factors": factors, "voxels_differing": nbad,
                             "chunk_sizes": [a["chunk_sizes"][0], b["chunk_sizes"][0]]})
                break


def _indep_whole(prev, factors, method, ov):
    """Reference for one whole level, written without the package: stride and majority from
    pyr_common.ref_downscale; averaging pairwise along z, y, x in float64 (exact for integer types
    up to 32 bits), the last odd slice paired with itself or with the outside value, then round half
    to even and saturate for integer types."""
    if method in ("stride", "majority"):
        return pc.ref_downscale(prev, factors, method)
    a = prev.astype(np.float64)
    for axis, f in ((1, factors[2]), (2, factors[1]), (3, factors[0])):
        if f != 2:
            continue
        a = np.moveaxis(a, axis, 0)
        if a.shape[0] % 2:
            last = a[-1:] if ov is None else np.full_like(a[-1:], float(ov))
            a = np.concatenate([a, last], axis=0)
        with np.errstate(all="ignore"):          # inf + -inf = NaN is the expected value, not a fault
            a = 0.5 * (a[0::2] + a[1::2])
        a = np.moveaxis(a, 0, axis)
    if prev.dtype.kind in "ui":
        ii = np.iinfo(prev.dtype)
        return np.clip(np.rint(a), ii.min, ii.max).astype(prev.dtype)
    return a.astype(prev.dtype)


def _damage_one_source_chunk(rng, out, how):
    import json as _json
    scales = _json.load(open(os.path.join(out, "info")))["scales"]
    if len(scales) < 2:
        return None        # nothing is computed from the source scale
    key0 = scales[0]["key"]
    files = []
    for root, _d, fs in os.walk(os.path.join(out, key0)):
        files += [os.path.join(root, f) for f in fs]
    if not files:
        return None
    f = rng.choice(sorted(files))
    if how == "delete":
        os.unlink(f)
    else:
        n = os.path.getsize(f)
        if n < 2:
            os.unlink(f)
        else:
            with open(f, "r+b") as fh:
                fh.truncate(n // 2)
    return os.path.relpath(f, out)


def replay(R, payload):
    case = payload.get("case", {})
    if case.get("fixed_unprocessable"):
        import logging
        logging.disable(logging.CRITICAL)
        _unprocessable_pyramids_stream(R, R.rng, True)
        logging.disable(logging.NOTSET)
        return bool(R.violations)
    if "special_floats" in case:
        import logging
        logging.disable(logging.CRITICAL)
        _special_float_stream(R, R.rng, True)          # the whole stratified stream (a second or two)
        logging.disable(logging.NOTSET)
        return bool(R.violations)
    if "shared_downscaler" in case:
        import logging
        logging.disable(logging.CRITICAL)
        _shared_downscaler_stream(R, R.rng, True)      # the whole stratified stream (a few seconds)
        logging.disable(logging.NOTSET)
        return bool(R.violations)
    if "os" in case:
        method, dtype, C = case.get("method", "stride"), case.get("dtype", "uint8"), case.get("C", 1)
        os3 = case["os"]
        if case.get("data", "seeded") != "seeded":
            vol = np.frombuffer(bytes.fromhex(case["data"]), dtype=np.dtype(dtype)).reshape(C, os3[2], os3[1], os3[0])
        else:
            vol = rand_vol(R.rng, (C, os3[2], os3[1], os3[0]), dtype, method)
        transition(R, case, os3, case["ns"], case["oc"], case["nc"], method, dtype, C, vol)
        return bool(R.violations or R.disagreements)
    return True
