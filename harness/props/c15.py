"""C15 — slice stacks are assembled with the requested anatomical orientation.

Correspondence: the slices-to-precomputed command (run for real on PNG / TIFF
slices written with Pillow) read back through a fresh accessor +
PrecomputedIO.read_chunk  vs  coq/theories/Pipe/SlSlices.v (which voxel of
which file every output voxel is read from, which chunks are written, how the
run ends), utils.permute / invert_permutation vs the model.
Oracle: an index map written from the meaning of the orientation letters
(R/L = X, A/P = Y, S/I = Z; R, A, S = increasing) applied to the input
pixels, and the extracted `designated`.
The orientation tables are regenerated from the live package and compared
with coq/generated/Tables.v first (harness/tables.py).
"""
import contextlib
import io
import itertools
import json
import os
import subprocess

from harness import tables
from harness.common import outcome_of, model_outcome, Atom, PY

RULE = ("all 48 codes x sizes whose slice count is smaller than / equal to / a multiple of / not a multiple "
        "of the chunk depth x chunk sizes 1..5 x storage options (deep/flat, gzip/plain, sharded); PNG and "
        "TIFF slices, 8/16-bit grey and RGB, one or two directories; pixel values random. "
        "non-trivial = at least two slice groups or a non-identity orientation")

AX = {"R": 0, "L": 0, "A": 1, "P": 1, "S": 2, "I": 2}
POSITIVE = set("RAS")
ALL_CODES = ["".join(p) for t in itertools.product("LR", "AP", "IS") for p in itertools.permutations(t)]


def letter_coord(letter, size, u):
    a = AX[letter]
    return u[a] if letter in POSITIVE else size[a] - 1 - u[a]


def expected_volume(code, size, stacks, np):
    """stacks: list (per directory) of arrays [file, row, col, ch].  Returns
    the array [c, z, y, x] the property designates."""
    nch = sum(s.shape[3] for s in stacks)
    out = np.zeros((nch, size[2], size[1], size[0]), dtype=stacks[0].dtype)
    for z in range(size[2]):
        for y in range(size[1]):
            for x in range(size[0]):
                u = (x, y, z)
                col = letter_coord(code[0], size, u)
                row = letter_coord(code[1], size, u)
                sl = letter_coord(code[2], size, u)
                c0 = 0
                for s in stacks:
                    out[c0:c0 + s.shape[3], z, y, x] = s[sl, row, col, :]
                    c0 += s.shape[3]
    return out


NAME_POOL = ["s1", "s2", "s3", "s9", "s10", "s11", "s20", "s100", "s1_2", "s01", "S5", "a10", "a9", "s"]


def slice_names(rng, n, fmt, scheme):
    """File names for n slices.  The documented stack order is the LEXICOGRAPHIC order of the names
    ("slices from the input directory are sorted in lexicographic order"): slice k of the stack is the
    k-th name in that order.  'unpadded' picks names on which numeric and lexicographic order differ."""
    if scheme == "padded" or n > len(NAME_POOL):
        return [f"s{k:04d}.{fmt}" for k in range(n)]
    return sorted(f"{b}.{fmt}" for b in rng.sample(NAME_POOL, n))


def write_slices(dirpath, stack, fmt, np, names=None, as8=()):
    """stack [file, row, col, ch] -> image files with sortable names.  File numbers in `as8` are stored
    as 8-bit images although the stack array is 16-bit (a stack whose slices differ in pixel type)."""
    from PIL import Image
    os.makedirs(dirpath, exist_ok=True)
    for k in range(stack.shape[0]):
        img = stack[k].astype(np.uint8) if k in as8 else stack[k]
        name = os.path.join(dirpath, names[k] if names else f"s{k:04d}.{fmt}")
        if img.shape[2] == 1 and img.dtype not in (np.uint8, np.uint16):
            import tifffile
            tifffile.imwrite(name, np.ascontiguousarray(img[:, :, 0]))
        elif img.shape[2] == 1:
            a = img[:, :, 0]
            if a.dtype == np.uint8:
                Image.fromarray(a, mode="L").save(name)
            else:
                Image.fromarray(a.astype("<u2"), mode="I;16").save(name)
        else:
            Image.fromarray(img.astype(np.uint8), mode="RGB").save(name)


def convert_values(arr, out_dt, np):
    """Value conversion the property of C11 prescribes (round to nearest, ties
    to even, saturate at the bounds of an integer output type; nearest float32
    for a float output), computed value by value on Python numbers."""
    out_t = np.dtype(out_dt)
    if arr.dtype == out_t:
        return arr
    flat = arr.ravel().tolist()
    if np.issubdtype(out_t, np.integer):
        ii = np.iinfo(out_t)
        res = [min(max(round(v), int(ii.min)), int(ii.max)) for v in flat]
    else:
        res = flat
    return np.array(res, dtype=out_t).reshape(arr.shape)


# pixel type of the slices -> data_type values of the dataset it is converted into, with the value stream
PIXEL_CASES = [
    ("int16", "uint16", "nonneg"), ("int16", "uint16", "signed"), ("int16", "uint8", "signed"),
    ("float32", "uint32", "float"), ("float32", "uint16", "float"), ("float32", "float32", "float"),
    ("uint32", "float32", "small"), ("uint32", "uint32", "big"), ("uint16", "float32", "nonneg"),
    ("uint16", "uint32", "nonneg"), ("uint8", "float32", "nonneg"), ("int8", "uint8", "signed"),
    ("int32", "uint32", "signed"), ("int32", "uint64", "signed"), ("uint32", "uint64", "big"),
    ("uint16", "uint8", "nonneg"), ("float64", "float32", "float"), ("int16", "float32", "signed"),
]


def pixel_values(rng, dt, stream, count, np):
    info = np.iinfo(dt) if np.issubdtype(np.dtype(dt), np.integer) else None
    out = []
    for _ in range(count):
        if stream == "float":
            out.append(rng.choice([0.0, 0.5, 1.5, 2.5, -0.5, -3.25, 254.5, 255.5, 65535.5, 65536.0, 4294967295.0,
                                   5e9, float(rng.randrange(0, 70000)), rng.uniform(-10, 70000)]))
        elif stream == "small":
            out.append(rng.choice([0, 1, 255, 65535, 2 ** 24, rng.randrange(0, 2 ** 24)]))
        elif stream == "big":
            out.append(rng.choice([0, 2 ** 31, 2 ** 32 - 1, rng.randrange(0, 2 ** 32)]))
        elif stream == "signed":
            out.append(rng.choice([int(info.min), -1, 0, 1, int(info.max), rng.randrange(int(info.min), int(info.max) + 1)]))
        else:
            out.append(rng.choice([0, 1, int(info.max), rng.randrange(0, int(info.max) + 1)]))
    return out


def make_info(dest, size, chunk, nch, dtype, sharding=None, cseg_block=None):
    scale = {"key": "full", "size": list(size), "resolution": [1000, 1000, 1000], "voxel_offset": [0, 0, 0],
             "chunk_sizes": [list(chunk)], "encoding": "raw"}
    if cseg_block:
        scale["encoding"] = "compressed_segmentation"
        scale["compressed_segmentation_block_size"] = list(cseg_block)
    if sharding:
        scale["sharding"] = sharding
    info = {"type": "image", "data_type": dtype, "num_channels": nch, "scales": [scale]}
    os.makedirs(dest, exist_ok=True)
    with open(os.path.join(dest, "info"), "w") as f:
        json.dump(info, f)


def read_dataset(dest, size, chunk, nch, dtype, opts, np):
    """Reassemble scale 0 through a fresh accessor; absent chunks are reported."""
    from neuroglancer_scripts import accessor as ngacc, precomputed_io
    acc = ngacc.get_accessor_for_url(dest, opts)
    pio = precomputed_io.get_IO_for_existing_dataset(acc)
    vol = np.zeros((nch, size[2], size[1], size[0]), dtype=dtype)
    present = np.zeros((size[2], size[1], size[0]), dtype=bool)
    coords_present = []
    for z0 in range(0, size[2], chunk[2]):
        for y0 in range(0, size[1], chunk[1]):
            for x0 in range(0, size[0], chunk[0]):
                c = (x0, min(x0 + chunk[0], size[0]), y0, min(y0 + chunk[1], size[1]),
                     z0, min(z0 + chunk[2], size[2]))
                try:
                    data = pio.read_chunk("full", c)
                except Exception:  # noqa: BLE001
                    continue
                vol[:, c[4]:c[5], c[2]:c[3], c[0]:c[1]] = data
                present[c[4]:c[5], c[2]:c[3], c[0]:c[1]] = True
                coords_present.append(list(c))
    return vol, present, coords_present


def model_volume(vmap, size, nch, stacks, dtype, np):
    """Voxel map of the model (x fastest, then y, z, c) -> array + mask."""
    vol = np.zeros((nch, size[2], size[1], size[0]), dtype=dtype)
    present = np.zeros((nch, size[2], size[1], size[0]), dtype=bool)
    it = iter(vmap)
    for c in range(nch):
        for z in range(size[2]):
            for y in range(size[1]):
                for x in range(size[0]):
                    s = next(it)
                    if isinstance(s, Atom):
                        continue
                    d, f, r, col, ch = s
                    vol[c, z, y, x] = stacks[d][f, r, col, ch]
                    present[c, z, y, x] = True
    return vol, present


def run(R):
    import numpy as np
    os.environ["TQDM_DISABLE"] = "1"
    from neuroglancer_scripts import utils as ngutils
    from neuroglancer_scripts.scripts import slices_to_precomputed
    R.rule = RULE
    rng = R.rng
    quick = R.tier == "quick"

    # ------------------------------------------------------------ tables (DESIGN 3.4)
    tie = tables.check(R, "C15")
    R.count(f"tables:{tie}")
    live_codes = list(getattr(slices_to_precomputed, "POSSIBLE_AXIS_ORIENTATIONS", ALL_CODES))
    if sorted(live_codes) != sorted(ALL_CODES):
        R.violation("the set of accepted orientation codes is not the 48 codes", {"codes": live_codes}, {})

    # ------------------------------------------------------------ permute / invert_permutation
    perms = [list(p) for n in range(1, 5) for p in itertools.permutations(range(n))]
    perms += [[0, 0, 1], [2, 2, 2], [0, 3, 1], [-1, 0, 1], [1, 2, 3]]
    replies = R.model.batch([("invert_permutation", p) for p in perms])
    for p, rep in zip(perms, replies):
        is_perm = sorted(p) == list(range(len(p)))
        impl = outcome_of(lambda: [int(v) for v in ngutils.invert_permutation(p)])
        mod = model_outcome(rep)
        case = {"p": p}
        R.case(case, nontrivial=len(p) >= 3)
        R.count("invert_permutation:" + ("perm" if is_perm else "not-a-permutation"))
        if is_perm or (impl[0] != "ok") or mod[0] != "ok":
            # for non-permutations NumPy leaves unset entries uninitialised: only the error class is compared
            if (impl != mod) and (is_perm or impl[0] != mod[0] and not (impl[0] == "ok" and mod == ["Crash", "IndexError"])):
                R.disagree("invert_permutation", case, impl, mod)
        if is_perm and (impl[0] != "ok" or [impl[1][i] for i in p] != list(range(len(p)))):
            R.violation("invert_permutation is not the inverse", case, {"impl": impl})
    pc = []
    for _ in range(60):
        n = rng.randrange(0, 5)
        seq = [rng.randrange(100) for _ in range(n)]
        p = [rng.randrange(-n - 1, n + 1) for _ in range(rng.randrange(0, 5))]
        pc.append((seq, p))
    replies = R.model.batch([("permute", [s, p]) for s, p in pc])
    for (s, p), rep in zip(pc, replies):
        impl = outcome_of(lambda: list(ngutils.permute(s, p)))
        case = {"seq": s, "p": p}
        R.case(case)
        if impl != model_outcome(rep):
            R.disagree("permute", case, impl, model_outcome(rep))
    sl = []
    for _ in range(400):
        n = rng.randrange(0, 7)
        stop = rng.choice([None, rng.randrange(-n - 2, n + 3), rng.randrange(-n - 2, n + 3)])
        sl.append((n, rng.randrange(-n - 2, n + 3), stop, rng.choice([1, -1])))
    replies = R.model.batch([("slice_indices", [n, a, Atom("none") if b is None else b, st]) for n, a, b, st in sl])
    for (n, a, b, st), rep in zip(sl, replies):
        want = list(range(n))[a:b:st]
        R.case({"len": n, "start": a, "stop": b, "step": st})
        R.count("slice:" + ("open-stop" if b is None else "closed"))
        if rep != want:
            R.disagree("Python slice semantics vs slice_indices", {"len": n, "slice": [a, b, st]}, want, rep)

    # ------------------------------------------------------------ conversions
    per_code = 5 if quick else 40
    n_sub = 8 if quick else 60
    jobs = []
    for code in ALL_CODES:
        for k in range(per_code):
            # input axis 2 (slices): relation between slice count and chunk depth
            rel = ["lt", "eq", "mult", "nonmult", "any"][k % 5] if k < 5 else rng.choice(["lt", "eq", "mult", "nonmult", "any"])
            chunk = [rng.randrange(1, 6) for _ in range(3)]
            size = [rng.randrange(1, 7) for _ in range(3)]
            za = AX[code[2]]            # RAS axis that the slice axis maps to
            d = chunk[za]
            if rel == "lt":
                d = chunk[za] = rng.randrange(2, 6)
                size[za] = rng.randrange(1, d)
            elif rel == "eq":
                size[za] = d
            elif rel == "mult":
                size[za] = d * rng.choice([2, 3])
            elif rel == "nonmult":
                d = chunk[za] = rng.randrange(2, 6)
                size[za] = d * rng.choice([1, 2]) + rng.randrange(1, d)
            layout = rng.choice(["grey8", "grey8", "grey16", "rgb", "two-dirs", "three-dirs", "grey8-tif",
                                 "grey16-tif", "rgb+grey", "grey+rgb+grey", "rgb+rgb"])
            storage = rng.choice(["deep-gz", "deep-gz", "flat", "plain", "flat-plain"])
            jobs.append(dict(code=code, size=size, chunk=chunk, rel=rel, layout=layout, storage=storage,
                             sharded=False, case_code=code))
    # sharded storage and odd spellings of the code (always as real subprocesses)
    extra = []
    for code in rng.sample(ALL_CODES, 6 if quick else 24):
        c = rng.randrange(1, 4)
        extra.append(dict(code=code, size=[rng.randrange(1, 6) for _ in range(3)], chunk=[c, c, c], rel="any",
                          layout="grey8", storage="sharded", sharded=True, case_code=code))
    for spelled in ["ras", "Lpi", "RAX", "RA", "RASS", "RRS"]:
        extra.append(dict(code=spelled.upper(), size=[2, 3, 2], chunk=[2, 2, 2], rel="any", layout="grey8",
                          storage="deep-gz", sharded=False, case_code=spelled))
    # slices whose pixel type differs from the dataset's data_type (kind and/or width)
    for k in range(len(PIXEL_CASES) * (2 if quick else 8)):
        src_dt, dst_dt, stream = PIXEL_CASES[k % len(PIXEL_CASES)]
        jobs.append(dict(code=rng.choice(ALL_CODES), size=[rng.randrange(1, 5) for _ in range(3)],
                         chunk=[rng.randrange(1, 4) for _ in range(3)], rel="any",
                         layout=rng.choice(["pixel", "pixel", "pixel-two-dirs"]), storage=rng.choice(["deep-gz", "plain"]),
                         sharded=False, case_code=None, pixel=(src_dt, dst_dt, stream)))
    # stacks whose slices do NOT all have the same pixel type (8-bit and 16-bit files), laid out so that
    # different slice groups are loaded with different block types; stratified, not left to chance
    mixed_codes = ["RAS", "LPI", "ASR", "SRP", "IAL", "PIR", "RSA", "ILP"]
    patterns = ["8-then-16", "16-then-8", "8-16-8", "alternate-groups"]
    for k in range(24 if quick else 96):
        code = mixed_codes[k % len(mixed_codes)] if k < 16 else rng.choice(ALL_CODES)
        d = 1 + k % 3
        ngroups = 2 + (k // 3) % 2
        nslices = d * ngroups + (k % 2 if d > 1 else 0)
        size = [rng.randrange(1, 4) for _ in range(3)]
        chunk = [rng.randrange(1, 4) for _ in range(3)]
        size[AX[code[2]]], chunk[AX[code[2]]] = nslices, d
        jobs.append(dict(code=code, size=size, chunk=chunk, rel="mixed",
                         layout="mixed-depth" if k % 4 else "mixed-depth-two-dirs",
                         storage=rng.choice(["deep-gz", "plain"]), sharded=False, case_code=code,
                         mixed=(patterns[k % len(patterns)], ["uint16", "uint16", "uint32", "float32"][(k // 2) % 4])))
    for j in jobs:
        if j["case_code"] is None:
            j["case_code"] = j["code"]
    sub_idx = set(rng.sample(range(len(jobs)), n_sub))
    jobs = [dict(j, sub=(i in sub_idx)) for i, j in enumerate(jobs)] + [dict(j, sub=True) for j in extra]

    prepared = []
    for idx, j in enumerate(jobs):
        code, size, chunk = j["code"], j["size"], j["chunk"]
        valid = code in ALL_CODES
        if valid:
            w, h, n = size[AX[code[0]]], size[AX[code[1]]], size[AX[code[2]]]
        else:
            w, h, n = size[0], size[1], size[2]
        lay = j["layout"]
        pixel = j.get("pixel")
        ndirs = 3 if lay == "three-dirs" else 2 if lay in ("two-dirs", "pixel-two-dirs", "mixed-depth-two-dirs") else 1
        mixed = j.get("mixed")
        as8_sets = None
        # channels per directory: RGB directories may come before, between or after grey ones
        kchs = {"rgb": [3], "rgb+grey": [3, 1], "grey+rgb+grey": [1, 3, 1], "rgb+rgb": [3, 3]}.get(lay, [1] * ndirs)
        ndirs = len(kchs)
        if pixel:
            dt = pixel[0]
            stacks = [np.array(pixel_values(rng, dt, pixel[2], n * h * w, np), dtype=dt).reshape(n, h, w, 1)
                      for _ in range(ndirs)]
            fmt = "tif"
        elif mixed:
            dt, fmt = "uint16", rng.choice(["png", "tif"])
            d_sl = chunk[AX[code[2]]]
            groups = [list(range(g0, min(g0 + d_sl, n))) for g0 in range(0, n, d_sl)]
            pat = mixed[0]
            if pat == "8-then-16":
                eight = set(groups[0])
            elif pat == "16-then-8":
                eight = set(f for g in groups[1:] for f in g)
            elif pat == "8-16-8":
                eight = set(groups[0]) | set(groups[-1][1:])
            else:
                eight = set(f for gi, g in enumerate(groups) if gi % 2 == 0 for f in g)
            # file numbers are positions in the oriented stack for forward codes and mirrored for reversed
            # ones; either way different groups get different block types
            stacks, as8_sets = [], []
            for di in range(ndirs):
                st = np.array([rng.randrange(65536) for _ in range(n * h * w)], dtype="uint16").reshape(n, h, w, 1)
                e8 = eight if di == 0 else set()
                for f in e8:
                    st[f] = st[f] % 256
                stacks.append(st)
                as8_sets.append(e8)
            R.count(f"mixed-depth:{pat}:groups={len(groups)}")
        else:
            dt = "uint16" if "16" in lay else "uint8"
            hi = 65536 if dt == "uint16" else 256
            stacks = [np.array([[[[rng.randrange(hi) for _ in range(kch)] for _ in range(w)] for _ in range(h)]
                                for _ in range(n)], dtype=dt).reshape(n, h, w, kch) for kch in kchs]
            fmt = "tif" if lay.endswith("tif") else "png"
        # directory names in random order: the channel order is the ORDER GIVEN on the command line,
        # which must not coincide with the lexicographic order of the paths
        tags = rng.sample(["aa", "b1", "m_ch", "zz", "Z0", "k9"], ndirs)
        # environment (stratified): one job in five has slice files that are SYMBOLIC LINKS whose targets
        # are named in another order (the stack order is that of the names in the directory); one in five has
        # directory names made of glob characters, each beside a decoy sibling that the pattern would match and
        # that holds another stack of the same geometry (the directory NAMED on the command line is converted)
        link_job = valid and idx % 5 == 2
        glob_job = valid and idx % 5 == 4
        glob_names = [("s[1]x", "s1x"), ("q?", "qA"), ("w*", "wZZ"), ("m[ab]", "ma"), ("p[!x]", "pz"),
                      ("t[0-9]", "t7")]
        dirs = []
        for di, st in enumerate(stacks):
            base = f"{tags[di]}_{di}"
            as8 = as8_sets[di] if as8_sets else ()
            scheme = rng.choice(["padded", "padded", "unpadded"])
            R.count(f"slice-names:{scheme}")
            names = slice_names(rng, st.shape[0], fmt, scheme)
            if glob_job:
                # TIFF slices under a path containing '?' or '*' cannot be read at all on the unchanged tree:
                # tifffile (behind skimage.io.imread) glob-expands such a path itself and recurses
                # (RecursionError -> RuntimeError).  That is the external reader, reported separately; for TIFF
                # stacks only bracket names are used, PNG stacks get every kind.
                usable = [g for g in glob_names if fmt != "tif" or not set(g[0]) & set("?*")]
                gname, decoy = usable[(idx // 5 + di) % len(usable)]
                base = f"{gname}_{di}"
                alt = (st ^ 1) if np.issubdtype(st.dtype, np.integer) else (st + 1).astype(st.dtype)
                write_slices(os.path.join(R.tmp, f"in{idx}", f"{decoy}_{di}"), alt, fmt, np, names, as8)
                R.count("env:glob-characters-in-directory-name:" + gname)
            dpath = os.path.join(R.tmp, f"in{idx}", base)
            if link_job and st.shape[0] >= 2:
                nfile = st.shape[0]
                perm = list(range(nfile))
                rng.shuffle(perm)
                if perm == sorted(perm):
                    perm.reverse()
                targets = [f"shot_{perm[k]:04d}.{fmt}" for k in range(nfile)]
                write_slices(os.path.join(R.tmp, f"in{idx}", f"acq_{di}"), st, fmt, np, targets, as8)
                os.makedirs(dpath, exist_ok=True)
                for k in range(nfile):
                    os.symlink(os.path.join("..", f"acq_{di}", targets[k]), os.path.join(dpath, names[k]))
                R.count("env:symlinked-slices")
            else:
                write_slices(dpath, st, fmt, np, names, as8)
            j.setdefault("slice_names", []).append(names)
            dirs.append(dpath)
        if link_job or glob_job:
            j["environment"] = "symlinked slice files" if link_job else "glob characters in directory names + decoys"
        if ndirs > 1:
            R.count("dir-order:" + ("lexicographic" if dirs == sorted(dirs) else "not-lexicographic"))
        nch = sum(kchs)
        out_dt = dt
        if pixel:
            out_dt = pixel[1]
        elif mixed:
            out_dt = mixed[1]
        elif rng.random() < 0.1:
            out_dt = rng.choice(["uint16", "float32"]) if dt == "uint8" else rng.choice(["uint8", "uint32"])
        R.count(f"pixel:{dt}->{out_dt}" + (f":{pixel[2]}" if pixel else ""))
        dest = os.path.join(R.tmp, f"out{idx}")
        sharding = None
        if j["sharded"]:
            sharding = {"@type": "neuroglancer_uint64_sharded_v1", "minishard_bits": rng.choice([0, 1]),
                        "shard_bits": rng.choice([0, 1]), "hash": "identity", "minishard_index_encoding": "raw",
                        "data_encoding": "raw", "preshift_bits": rng.choice([0, 1])}
        # label volumes: every other job whose data type allows it is stored with the compressed_segmentation
        # encoding (one-voxel blocks make the same lookup table recur in several blocks and channels)
        cseg_block = None
        if out_dt in ("uint32", "uint64") and idx % 2 == 0:
            cseg_block = [1, 1, 1] if idx % 4 == 0 else [2, 2, 2]
            R.count(f"encoding:compressed_segmentation:{nch}ch")
        make_info(dest, size, chunk, nch, out_dt, sharding, cseg_block)
        opts = []
        st = j["storage"]
        if "flat" in st:
            opts.append("--flat")
        if "plain" in st:
            opts.append("--no-gzip")
        # History: for one non-sharded job in four the destination already holds an OLDER generation of the
        # dataset -- another stack of the same geometry, converted with the other stored form (plain <-> gzip)
        # and the same layout.  The conversion that is checked must fully replace it.
        if valid and not j["sharded"] and idx % 4 == 0:
            pre_dirs = []
            for di, st in enumerate(stacks):
                pst = (st ^ 1) if np.issubdtype(st.dtype, np.integer) else (st + 1).astype(st.dtype)
                pdir = os.path.join(R.tmp, f"in{idx}_pre", os.path.basename(dirs[di]))
                write_slices(pdir, pst, fmt, np, j["slice_names"][di], as8_sets[di] if as8_sets else ())
                pre_dirs.append(pdir)
            pre_opts = [o for o in opts if o != "--no-gzip"] + ([] if "--no-gzip" in opts else ["--no-gzip"])
            pre_code = rng.choice([c2 for c2 in ALL_CODES if AX[c2[0]] == AX[code[0]] and AX[c2[1]] == AX[code[1]]])

            def pre():
                with contextlib.redirect_stdout(io.StringIO()), contextlib.redirect_stderr(io.StringIO()):
                    return slices_to_precomputed.main(["slices-to-precomputed"] + pre_dirs +
                                                      [dest, "--input-orientation", pre_code] + pre_opts)
            pre_out = outcome_of(pre)
            R.count("history:older-generation-in-other-form:" + ("plain-then-gzip" if "--no-gzip" in pre_opts
                                                                  else "gzip-then-plain") + ":" + pre_out[0])
            j["history"] = "older generation (" + pre_code + (", plain" if "--no-gzip" in pre_opts else ", gzip") + ")"
        prepared.append((j, stacks, dirs, dest, nch, dt, out_dt, kchs, opts, (w, h, n)))

    reqs = []
    for j, stacks, dirs, dest, nch, dt, out_dt, kchs, opts, (w, h, n) in prepared:
        reqs.append(("slices_run", [j["code"].encode(), j["size"], j["chunk"], nch,
                                    [[n, h, w, (kch if kch > 1 else Atom("none"))] for kch in kchs]]))
    replies = R.model.batch(reqs)
    # stack order of every directory per the model: lexicographic order of the file names (bytes),
    # offered to the model in shuffled order
    order_reqs = []
    for j, *_rest in prepared:
        for names in j.get("slice_names", []):
            shuffled = list(names)
            rng.shuffle(shuffled)
            order_reqs.append(("slice_order", [nm.encode() for nm in shuffled]))
    order_replies = iter(R.model.batch(order_reqs))

    for (j, stacks, dirs, dest, nch, dt, out_dt, kchs, opts, (w, h, n)), rep in zip(prepared, replies):
        m_orders = [[b.decode() for b in next(order_replies)] for _ in j.get("slice_names", [])]
        observed = {"how": None, "lists": None}
        code, size, chunk = j["code"], j["size"], j["chunk"]
        argv = ["slices-to-precomputed"] + dirs + [dest, "--input-orientation", j["case_code"]] + opts
        if j["sub"]:
            r = subprocess.run([PY, "-m", "neuroglancer_scripts.scripts.slices_to_precomputed"] + argv[1:],
                               stdout=subprocess.PIPE, stderr=subprocess.PIPE, timeout=300,
                               env=dict(os.environ, TQDM_DISABLE="1"))
            if r.returncode == 0:
                impl = ["ok", []]
            elif r.returncode == 2 and b"input_orientation is invalid" in r.stderr:
                impl = ["Refused"]
            else:
                last = r.stderr.decode().strip().splitlines()[-1:] or [""]
                impl = ["Crash", last[0].split(":")[0].split(".")[-1]]
        else:
            # one job in six goes through the public function with explicit file lists, and converts the
            # SAME list objects a second time into a second destination (the caller's lists must still
            # describe the stack in its original order afterwards)
            api_twice = code in ALL_CODES and j["case_code"] == code and rng.random() < 0.17
            dest_b = dest + "_b"
            if api_twice:
                make_info(dest_b, size, chunk, nch, out_dt, None)

            def go():
                with contextlib.redirect_stdout(io.StringIO()), contextlib.redirect_stderr(io.StringIO()):
                    try:
                        if api_twice:
                            from pathlib import Path
                            lists = [sorted(Path(d).iterdir()) for d in dirs]
                            observed["how"] = "sorted(Path(d).iterdir()), as convert_slices_in_directory does"
                            observed["lists"] = [[p.name for p in ll] for ll in lists]
                            o = {"flat": "--flat" in opts, "gzip": "--no-gzip" not in opts}
                            slices_to_precomputed.slices_to_raw_chunks(lists, dest, code, options=dict(o))
                            slices_to_precomputed.slices_to_raw_chunks(lists, dest_b, code, options=dict(o))
                            return 0
                        # spy on the file lists the command really hands to slices_to_raw_chunks
                        orig = slices_to_precomputed.slices_to_raw_chunks

                        def spy(slice_filename_lists, *a, **k):
                            observed["how"] = "lists passed to slices_to_raw_chunks by the command"
                            observed["lists"] = [[os.path.basename(str(p)) for p in ll]
                                                 for ll in slice_filename_lists]
                            return orig(slice_filename_lists, *a, **k)
                        slices_to_precomputed.slices_to_raw_chunks = spy
                        try:
                            return slices_to_precomputed.main(list(argv))
                        finally:
                            slices_to_precomputed.slices_to_raw_chunks = orig
                    except SystemExit as exc:
                        return ("exit", exc.code)
            impl = outcome_of(go)
            if api_twice:
                R.count("api:same-lists-converted-twice")
            if impl == ["ok", 0]:
                impl = ["ok", []]
            elif impl[0] == "ok" and impl[1] == ("exit", 2):
                impl = ["Refused"]
        case = {"code": j["case_code"], "size": size, "chunk": chunk, "layout": j["layout"],
                "storage": j["storage"], "slices_vs_depth": j["rel"], "out_dtype": out_dt,
                "history": j.get("history"), "environment": j.get("environment"),
                "subprocess": j["sub"]}
        n_groups = -(-n // max(1, chunk[AX[code[2]]])) if code in ALL_CODES else 0
        R.case(case, nontrivial=n_groups >= 2 or code != "RAS")
        R.count(f"run:{'fwd' if code[-1:] in POSITIVE else 'rev'}:{j['rel']}:{impl[0] if impl[0] != 'Crash' else impl[1]}")
        R.count(f"layout:{j['layout']}:{j['storage']}")
        if observed["lists"] is None and code in ALL_CODES:
            from pathlib import Path
            observed["how"] = "sorted(Path(d).iterdir()) (subprocess run: not observable inside)"
            observed["lists"] = [[p.name for p in sorted(Path(d).iterdir())] for d in dirs]
        if observed["lists"] is not None:
            R.count("slice-order:" + observed["how"].split(" ")[0].split("(")[0])
            if observed["lists"] != m_orders:
                R.disagree("stack order of the slice files vs slice_order (lexicographic order of the names)",
                           dict(case, observed_by=observed["how"]), observed["lists"], m_orders)
            want_orders = [sorted(names, key=lambda nm: nm.encode()) for names in j.get("slice_names", [])]
            if m_orders != want_orders:
                R.violation("extracted slice_order disagrees with byte-wise lexicographic sorting (self-check)",
                            case, {"model": m_orders, "want": want_orders})
            if observed["lists"] != want_orders:
                R.violation("slices are not stacked in the lexicographic order of their file names, or not "
                            "directory by directory in the order given", dict(case, observed_by=observed["how"]),
                            {"observed": observed["lists"], "lexicographic": want_orders})
        m_coords, m_res = rep[0], model_outcome(rep[1])
        if impl != m_res:
            R.disagree("slices-to-precomputed outcome vs model", case, impl, m_res)
        if len(rep) < 6:
            continue
        m_read, m_des, m_wf = rep[2], rep[3], rep[4] == Atom("true")
        if code not in ALL_CODES:
            if impl != ["Refused"]:
                R.violation("invalid orientation code not refused", case, {"impl": impl})
            continue
        ropts = {"flat": "--flat" in opts, "gzip": "--no-gzip" not in opts}
        vol, present, coords_present = read_dataset(dest, size, chunk, nch, out_dt, ropts, np)
        # --- model vs implementation: which chunks exist, and their content
        if sorted(coords_present) != sorted(m_coords):
            R.disagree("chunks on disk vs chunks written by the model", case, sorted(coords_present)[:6],
                       sorted(m_coords)[:6])
        mvol, mpresent = model_volume(m_read, size, nch, stacks, dt, np)
        mconv = convert_values(mvol, out_dt, np)
        pres4 = np.broadcast_to(present, mpresent.shape)
        if not np.array_equal(pres4, mpresent) or not np.array_equal(np.where(pres4, vol, 0), np.where(mpresent, mconv, 0)):
            R.disagree("converted voxels vs model read_back", case,
                       {"present": int(present.sum())}, {"present": int(mpresent[0].sum())})
        # --- oracle: the property
        expect = expected_volume(code, size, stacks, np)
        dvol, dpres = model_volume(m_des, size, nch, stacks, dt, np)
        if not dpres.all() or not np.array_equal(dvol, expect):
            R.violation("extracted `designated` disagrees with the letter-meaning index map (self-check)",
                        case, {})
        expect = convert_values(expect, out_dt, np)
        if not m_wf:
            R.disagree("c15_wf classification (every generated job is well formed)", case, True, m_wf)
        ok = impl == ["ok", []] and present.all() and np.array_equal(vol, expect)
        if ok and not j["sub"] and api_twice:
            vol_b, present_b, _cp = read_dataset(dest_b, size, chunk, nch, out_dt, ropts, np)
            if not (present_b.all() and np.array_equal(vol_b, expect)):
                R.violation("second conversion of the same file lists (same process) differs from the stack "
                            "oriented as the code designates", case,
                            {"voxels_present": int(present_b.sum()), "wrong": int((vol_b != expect).sum())})
        if not ok:
            wrong = int((np.where(pres4, vol, 0) != np.where(pres4, expect, 0)).sum())
            R.violation("converted volume differs from the stack oriented as the code designates, "
                        "or the conversion failed", case,
                        {"impl": impl, "voxels_present": int(present.sum()), "voxels_total": int(present.size),
                         "wrong_among_present": wrong})


def replay(R, payload):
    """Re-executes the recorded run (generators are deterministic in the seed
    and tier stored in the replay file) and reports whether a failure of the
    recorded class is still observed on the current tree."""
    import random
    R.tier = payload.get("tier", R.tier)
    R.rng = random.Random(f"{R.pid}:{payload.get('seed', 0)}")
    run(R)
    want = payload.get("what")
    if payload.get("kind") == "property-violation":
        return any(v["what"] == want for v in R.violations) if want else bool(R.violations)
    return bool(R.violations or R.disagreements)
