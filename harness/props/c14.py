"""C14 - reading over HTTP gives the same bytes as reading the files locally.

Correspondence: HttpAccessor / ShardedHttpAccessor (HTTP-side logic) /
get_accessor_for_url (http branch) against a loopback static server
(harness/httpd.py)  vs  coq/theories/Store/StHttp.v (serve, http_fetch_*,
hs_fetch, dispatch_http) through fragment D_C12.
Oracle: bytes fetched over HTTP == bytes fetched by the local accessors from
the same directory; sharded accessor iff the info declares sharding for all
scales; failures are errors.
"""
import gzip
import json
import os

from harness import httpd
from harness.common import Atom, classify_exception
from harness.props import c12 as h12
from harness.props.c12 import b

RULE = ("datasets written by the real accessors: plain (flat/deep x gzip on/off x level, info + chunks + extra files) "
        "and sharded (ShardedFileAccessor, parameter triples, raw/gzip data encoding, .shard and legacy .index/.data "
        "obtained by splitting), served by the loopback server configured as the documentation prescribes; every "
        "info + chunk (present, absent) fetched through get_accessor_for_url on http://127.0.0.1:port/... with/without "
        "trailing slash and precomputed:// prefix, and locally; scripted server behaviours (404, 500, 503, dropped "
        "connection, short/over-long range reply, ignored Range, connection lost in the middle of the body with "
        "Content-Length or chunked transfer, damaged Content-Encoding: gzip stream) at every request index of a sharded "
        "fetch and on plain chunk / file / info fetches; multi-scale sharded datasets whose scales have different "
        "sharding specs read through one accessor in both scale orders. "
        "non-trivial = dataset with >= 2 chunks fetched both ways")


BODY_BEHS = ("cut-body", "cut-chunked", "bad-gzip")     # failures after a normal status line


def run_impl(fn):
    try:
        return ["ok", fn()]
    except Exception as exc:  # noqa: BLE001
        return classify_exception(exc)


def tagged_tree(root, level_of=None):
    """Snapshot of `root` as a model tree: *.gz files that are gzip streams
    become (gz level payload)."""
    snap = h12.snapshot(root)
    ent = []
    p = os.path.dirname(root)
    while p != "/":
        ent.append([b(p), Atom("dir")])
        p = os.path.dirname(p)
    for k, v in snap.items():
        if v is None:
            ent.append([b(k), Atom("dir")])
        elif k.endswith(".gz") and v[:2] == b"\x1f\x8b":
            lvl = {2: 9, 4: 1}.get(v[8], 5)
            ent.append([b(k), [Atom("gz"), lvl, gzip.decompress(v)]])
        else:
            ent.append([b(k), [Atom("plain"), v]])
    return ent


def wire_script(script):
    out = []
    for s in script:
        if isinstance(s, tuple):
            out.append([Atom("status"), s[1]])
        else:
            out.append(Atom(s))
    return out


def bout_matches(model_o, impl_o):
    if str(model_o[0]) != "ok":
        return [str(x) for x in model_o] == impl_o
    if impl_o[0] != "ok":
        return False
    v = model_o[1]
    if isinstance(v, Atom):
        return impl_o[1] is (v == "true")
    return isinstance(impl_o[1], (bytes, bytearray)) and h12.blob_matches(v, bytes(impl_o[1]))


def log_matches(model_reqs, log, origin):
    want = []
    for m, url, rng in model_reqs:
        path = url.decode()[len(origin):]
        want.append((str(m), path, None if isinstance(rng, Atom) else (rng[0], rng[1])))
    return want == [(m, p, r) for (m, p, r) in log], want


# ----------------------------------------------------------------- plain datasets

def gen_plain_dataset(rng, root, idx):
    from neuroglancer_scripts.file_accessor import FileAccessor
    flat, gz, lvl = h12.CONFIGS[idx % len(h12.CONFIGS)]
    ds = os.path.join(root, "ds")
    acc = FileAccessor(ds, flat=flat, gzip=gz, compresslevel=lvl)
    # scale keys are free-form path segments: a colon after a leading letter makes the relative path look like
    # "scheme:rest" to anything that resolves it as a URL reference instead of appending it to the base URL
    keys = [("1mm", "2mm"), ("iso:16nm", "2mm"), ("http:32nm", "32nm"), ("1mm", "x:y:z")][idx % 4]
    info = {"type": "image", "scales": [{"key": k} for k in keys]}
    if rng.random() < 0.2:
        info = {"type": "image", "scales": []}
    acc.store_file("info", json.dumps(info).encode(), mime_type="application/json")
    chunks = []
    for key in keys:
        for _ in range(rng.randrange(1, 4)):
            co = h12.gen_coords(rng)
            co = [abs(v) for v in co]
            if (key, tuple(co)) in [(k2, tuple(c2)) for k2, c2 in chunks]:
                continue
            data = h12.gen_content(rng, idx % 9 == 0)
            acc.store_chunk(data, key, tuple(co), mime_type=rng.choice(["application/octet-stream", "image/jpeg"]),
                            overwrite=True)
            chunks.append((key, co))
    extras = []
    for name, mime in (("transform.json", "application/json"), ("mesh/1:0", "application/octet-stream"),
                       ("mesh/frag", "")):
        if rng.random() < 0.6:
            acc.store_file(name, h12.gen_content(rng, False), mime_type=mime, overwrite=True)
            extras.append(name)
    return dict(ds=ds, cfg=(flat, gz, lvl), chunks=chunks, extras=extras)


def plain_part(R, n):
    from neuroglancer_scripts import accessor
    from neuroglancer_scripts.file_accessor import FileAccessor
    from neuroglancer_scripts.http_accessor import HttpAccessor
    rng = R.rng
    reqs, pend = [], []
    for i in range(n):
        root = os.path.join(R.tmp, f"site{i}")
        os.makedirs(root)
        D = gen_plain_dataset(rng, root, i)
        flat = D["cfg"][0]
        site = httpd.Site(root, rewrite=not flat, gzip_static=True)
        tree = tagged_tree(root)
        tb = []
        with httpd.Server(site) as s:
            origin = s.url
            sc = [b(origin), b(root), not flat, True]
            spelling = rng.choice(["/ds", "/ds/", "/ds?x=1", "/ds/#f"])
            url = origin + spelling
            if rng.random() < 0.3:
                url = "precomputed://" + url
            site.reset()
            res = run_impl(lambda: accessor.get_accessor_for_url(url))
            case0 = {"dataset": "plain", "cfg": list(D["cfg"]), "url": spelling}
            itb = [[json_bytes, h12.parse_info_oracle(json_bytes)] for json_bytes in
                   [open(os.path.join(D["ds"], "info"), "rb").read()]]
            reqs.append(("dispatch", [b(url), [False, True, 9, False, False], tb, itb, tree, sc, []]))
            pend.append(("dispatch", case0, res if res[0] != "ok" else ["ok", type(res[1]).__name__,
                                                                         getattr(res[1], "base_url", None)],
                         list(site.log), origin))
            if res[0] != "ok" or not isinstance(res[1], HttpAccessor):
                continue
            acc = res[1]
            local = FileAccessor(D["ds"])
            R.count(f"plain:cfg:{'flat' if flat else 'deep'}:{'gz' if D['cfg'][1] else 'nogz'}")
            fetches = [("chunk", k, co) for k, co in D["chunks"]]
            fetches.append(("chunk", "1mm", [7, 8, 7, 8, 7, 8]))                 # absent
            fetches += [("file", nm, None) for nm in ["info"] + D["extras"] + ["nope"]]
            for kind, k, co in fetches:
                site.reset()
                if kind == "chunk":
                    h = run_impl(lambda: acc.fetch_chunk(k, tuple(co)))
                    loc = run_impl(lambda: local.fetch_chunk(k, tuple(co)))
                    reqs.append(("http_fetch_chunk", [sc, [], tb, tree, b(acc.base_url), b(k), co]))
                else:
                    h = run_impl(lambda: acc.fetch_file(k))
                    loc = run_impl(lambda: local.fetch_file(k))
                    reqs.append(("http_fetch", [sc, [], tb, tree, b(acc.base_url), b(k)]))
                case = {**case0, "fetch": [kind, k, co]}
                pend.append(("fetch", case, h, list(site.log), origin))
                R.case(case, nontrivial=len(D["chunks"]) >= 2)
                R.count(f"plain:{kind}:{h[0]}")
                # oracle: HTTP == local
                if h != loc:
                    R.violation("bytes/outcome fetched over HTTP differ from the local accessor's", case,
                                {"http": h12._short(h), "local": h12._short(loc)})
                if kind == "file":
                    site.reset()
                    e = run_impl(lambda: acc.file_exists(k))
                    le = run_impl(lambda: local.file_exists(k))
                    reqs.append(("http_exists", [sc, [], tree, b(acc.base_url), b(k)]))
                    pend.append(("exists", case, e, list(site.log), origin))
                    if e != le:
                        R.violation("file_exists over HTTP differs from the local accessor's", case,
                                    {"http": e, "local": le})
            # scripted failures on a plain fetch
            for beh in [("status", 404), ("status", 500), ("status", 503), ("status", 403), "drop", ("status", 204),
                        "cut-body", "cut-chunked", "bad-gzip", ("status-json", 503), ("status-json", 404)]:
                k, co = D["chunks"][0]
                site.reset([beh])
                h = run_impl(lambda: acc.fetch_chunk(k, tuple(co)))
                reqs.append(("http_fetch_chunk", [sc, wire_script([beh]), tb, tree, b(acc.base_url), b(k), co]))
                case = {**case0, "fetch": ["chunk", k, co], "behaviour": list(beh) if isinstance(beh, tuple) else beh}
                pend.append(("fetch", case, h, list(site.log), origin))
                R.case(case, nontrivial=True)
                R.count(f"plain:scripted:{beh if isinstance(beh, str) else beh[1]}:{h[0]}")
                if beh != ("status", 204) and h != ["AccessErr"]:
                    R.violation("HTTP / connection failure on a plain dataset not reported as a data-access error",
                                case, {"impl": h12._short(h)})
                site.reset()
                again = run_impl(lambda: acc.fetch_chunk(k, tuple(co)))
                if again != run_impl(lambda: local.fetch_chunk(k, tuple(co))):
                    R.violation("after a failed fetch, the next fetch of the same chunk through the same accessor "
                                "does not return the chunk", case, {"second_fetch": h12._short(again)})
                site.reset([beh])
                e = run_impl(lambda: acc.file_exists("info"))
                reqs.append(("http_exists", [sc, wire_script([beh]), tree, b(acc.base_url), b"info"]))
                pend.append(("exists", case, e, list(site.log), origin))
                want = (["ok", False] if isinstance(beh, tuple) and beh[1] == 404
                        else ["ok", True] if beh == ("status", 204) or beh in BODY_BEHS else ["AccessErr"])
                if e != want:
                    R.violation("file_exists under an HTTP failure: neither False (404) nor a data-access error",
                                case, {"impl": e})
                # the same failure while fetching a file (info, and one extra file when there is one)
                for nm in ["info"] + D["extras"][:1]:
                    site.reset([beh])
                    hf = run_impl(lambda: acc.fetch_file(nm))
                    reqs.append(("http_fetch", [sc, wire_script([beh]), tb, tree, b(acc.base_url), b(nm)]))
                    cf = {**case0, "fetch": ["file", nm, None], "behaviour": list(beh) if isinstance(beh, tuple) else beh}
                    pend.append(("fetch", cf, hf, list(site.log), origin))
                    R.case(cf, nontrivial=True)
                    R.count(f"plain:scripted-file:{beh if isinstance(beh, str) else beh[1]}:{hf[0] if hf[0] != 'Crash' else hf[1]}")
                    if beh != ("status", 204) and hf != ["AccessErr"]:
                        R.violation("HTTP / connection failure while fetching a file of a plain dataset not reported "
                                    "as a data-access error", cf, {"impl": h12._short(hf)})
                    # the SAME accessor object, the server healthy again: the next fetch of that path
                    # returns the file (nothing of the failed reply may survive in the object)
                    site.reset()
                    again = run_impl(lambda: acc.fetch_file(nm))
                    want_again = run_impl(lambda: local.fetch_file(nm))
                    R.count(f"plain:recovery-after:{beh if isinstance(beh, str) else str(beh[0]) + str(beh[1])}:{again[0]}")
                    if again != want_again:
                        R.violation("after a failed fetch, the next fetch of the same path through the same accessor "
                                    "does not return the file", cf,
                                    {"second_fetch": h12._short(again), "local": h12._short(want_again)})
    rep = R.model.batch(reqs)
    for (kind, case, impl, log, origin), m in zip(pend, rep):
        if kind == "dispatch":
            if str(m[0]) != "remote":
                R.disagree("dispatch branch (http)", case, impl, [str(m[0])])
                continue
            d = m[1]
            if str(d[0]) == "ok":
                sel = d[1]
                mres = ["ok", {"http": "HttpAccessor", "sharded-http": "ShardedHttpAccessor"}[str(sel[0])],
                        sel[1].decode()]
            else:
                mres = [str(x) for x in d]
            ok, want = log_matches(m[2], log, origin)
            if mres != impl or not ok:
                R.disagree("get_accessor_for_url (http) vs model", case, [impl, log], [mres, want])
        else:
            ok, want = log_matches(m[1], log, origin)
            if not bout_matches(m[0], impl) or not ok:
                R.disagree(f"HttpAccessor {kind} vs model", case, [h12._short(impl), log], [h12._short(m[0]), want])


# ----------------------------------------------------------------- sharded datasets

TRIPLES = [(0, 0, 0), (0, 1, 1), (0, 2, 0), (1, 1, 1), (0, 0, 2), (2, 1, 1), (0, 3, 1)]


def sharded_info(triple, enc, idx_enc, size):
    p, m, s = triple
    return {"type": "image", "data_type": "uint8", "num_channels": 1,
            "scales": [{"key": "1mm", "size": size, "chunk_sizes": [[64, 64, 64]], "resolution": [1, 1, 1],
                        "voxel_offset": [0, 0, 0], "encoding": "raw",
                        "sharding": {"@type": "neuroglancer_uint64_sharded_v1", "minishard_bits": m,
                                     "shard_bits": s, "hash": "identity", "minishard_index_encoding": idx_enc,
                                     "data_encoding": enc, "preshift_bits": p}}]}


def local_locate(ds, key, co):
    """What the local shard reader computes for a chunk: the (offset, length) of its final
    read_bytes call, or the class of the error raised before it (the model's [locate])."""
    import zlib
    from neuroglancer_scripts import sharded_file_accessor as sfa
    calls = []
    orig = sfa.Shard.read_bytes

    def spy(self, offset, length):
        calls.append((int(offset), int(length)))
        return orig(self, offset, length)
    sfa.Shard.read_bytes = spy
    try:
        try:
            sfa.ShardedFileAccessor(ds).fetch_chunk(key, tuple(co))
        except zlib.error:
            pass
        except Exception as exc:  # noqa: BLE001
            c = classify_exception(exc)
            return Atom("IOErr") if c == ["IOErr"] else [Atom("Crash"), Atom(c[1])]
    finally:
        sfa.Shard.read_bytes = orig
    return [Atom("ok"), calls[-1][0], calls[-1][1]]


def decode_model(m_out, enc):
    """The model's data decoder is the identity: apply the dataset's data encoding."""
    import zlib
    if str(m_out[0]) == "ok" and enc == "gzip":
        try:
            return [Atom("ok"), [Atom("plain"), zlib.decompress(m_out[1][1])]]
        except zlib.error:
            return [Atom("Crash"), Atom("ZlibError")]
    return m_out


def split_legacy(scale_dir, hl):
    for f in os.listdir(scale_dir):
        if f.endswith(".shard"):
            data = open(os.path.join(scale_dir, f), "rb").read()
            stem = f[:-6]
            open(os.path.join(scale_dir, stem + ".index"), "wb").write(data[:hl])
            open(os.path.join(scale_dir, stem + ".data"), "wb").write(data[hl:])
            os.unlink(os.path.join(scale_dir, f))


def sharded_part(R, n):
    import numpy as np
    from neuroglancer_scripts import accessor, sharded_base as sb
    from neuroglancer_scripts.sharded_file_accessor import ShardedFileAccessor
    from neuroglancer_scripts.sharded_http_accessor import ShardedHttpAccessor
    rng = R.rng
    reqs, pend = [], []
    for i in range(n):
        root = os.path.join(R.tmp, f"shsite{i}")
        ds = os.path.join(root, "ds")
        triple = TRIPLES[i % len(TRIPLES)]
        enc = rng.choice(["raw", "gzip"])
        idx_enc = "raw" if rng.random() < 0.8 else "gzip"
        size = [rng.choice([64, 128, 192, 200]), rng.choice([64, 128]), rng.choice([64, 128])]
        info = sharded_info(triple, enc, idx_enc, size)
        w = ShardedFileAccessor(ds)
        w.store_file("info", json.dumps(info).encode(), mime_type="application/json")
        grid = [-(-x // 64) for x in size]
        allc = [[x * 64, x * 64 + 64, y * 64, y * 64 + 64, z * 64, z * 64 + 64]
                for x in range(grid[0]) for y in range(grid[1]) for z in range(grid[2])]
        stored = [c for c in allc if rng.random() < 0.75] or allc[:1]
        content = {}
        for c in stored:
            content[tuple(c)] = h12.gen_content(rng, False) or b"\1"
            w.store_chunk(content[tuple(c)], "1mm", tuple(c))
        import contextlib
        import io
        with contextlib.redirect_stdout(io.StringIO()):      # the writer prints padding notices
            w.close()
        hl = 16 * 2 ** triple[1]
        legacy = rng.random() < 0.4
        if legacy:
            split_legacy(os.path.join(ds, "1mm"), hl)
        # every third non-legacy dataset also carries a STALE legacy .index/.data pair (an older
        # generation with other bytes) beside each .shard: a failure on the .shard object other than
        # "404 not found" must never make the reader fall back to it
        stale = (not legacy) and i % 3 == 0
        if stale:
            import atexit
            import shutil
            old = os.path.join(R.tmp, f"shsite{i}-old")
            w0 = ShardedFileAccessor(old)
            w0.store_file("info", json.dumps(info).encode(), mime_type="application/json")
            for c in stored:
                w0.store_chunk(bytes(255 - x for x in content[tuple(c)]) + b"stale", "1mm", tuple(c))
            with contextlib.redirect_stdout(io.StringIO()):
                w0.close()
            atexit.unregister(w0.close)
            split_legacy(os.path.join(old, "1mm"), hl)
            for fn in os.listdir(os.path.join(old, "1mm")):
                shutil.copy(os.path.join(old, "1mm", fn), os.path.join(ds, "1mm", fn))
            shutil.rmtree(old)
        spec = sb.ShardSpec(triple[1], triple[2], preshift_bits=triple[0])
        vspec = sb.ShardVolumeSpec([64, 64, 64], size)
        rw = sb.CMCReadWrite(spec)
        site = httpd.Site(root, rewrite=False, gzip_static=True)
        tree = tagged_tree(root)
        with httpd.Server(site) as s:
            origin = s.url
            sc = [b(origin), b(root), False, True]
            spelling = rng.choice(["/ds", "/ds/"])
            url = ("precomputed://" if rng.random() < 0.3 else "") + origin + spelling
            case0 = {"dataset": "sharded", "triple": list(triple), "data_encoding": enc, "index_encoding": idx_enc,
                     "legacy": legacy, "stale_legacy_pair": stale, "size": size, "url": spelling}
            site.reset()
            ib = open(os.path.join(ds, "info"), "rb").read()
            res = run_impl(lambda: accessor.get_accessor_for_url(url))
            reqs.append(("dispatch", [b(url), [False, True, 9, False, False], [], [[ib, h12.parse_info_oracle(ib)]],
                                      tree, sc, []]))
            pend.append(("dispatch", case0, res if res[0] != "ok" else ["ok", type(res[1]).__name__, res[1].base_url],
                         list(site.log), origin, None))
            R.count(f"sharded:dispatch:{type(res[1]).__name__ if res[0] == 'ok' else res[0]}")
            # the probing GET of info succeeds, the sharded accessor's own GET of info fails: an error, never
            # a silent fallback to the plain reader
            for beh in [("status", 503), "drop", "cut-body", ("status", 500), "bad-gzip", "cut-chunked",
                        ("status", 404)][i % 2::2] + [("status", 503)][:i % 2]:
                script = ["normal", beh]
                site.reset(script)
                res2 = run_impl(lambda: accessor.get_accessor_for_url(url))
                if res2[0] == "Crash" and res2[1] not in ("ValueError", "TypeError", "AssertionError", "KeyError",
                                                          "IndexError"):
                    res2 = ["Crash", {"JSONDecodeError": "ValueError", "UnicodeDecodeError": "ValueError",
                                      "AttributeError": "TypeError"}.get(res2[1], res2[1])]
                cd = {**case0, "script": ["normal", str(beh)], "what": "second request of get_accessor_for_url fails"}
                R.case(cd, nontrivial=True)
                R.count(f"sharded:dispatch-2nd-fails:{beh if isinstance(beh, str) else beh[1]}:"
                        f"{type(res2[1]).__name__ if res2[0] == 'ok' else res2[0]}")
                reqs.append(("dispatch", [b(url), [False, True, 9, False, False], [], [[ib, h12.parse_info_oracle(ib)]],
                                          tree, sc, wire_script(script)]))
                pend.append(("dispatch", cd,
                             res2 if res2[0] != "ok" else ["ok", type(res2[1]).__name__, res2[1].base_url],
                             list(site.log), origin, None))
                if res2[0] == "ok" and not isinstance(res2[1], ShardedHttpAccessor):
                    R.violation("a failure of the sharded accessor's info request was swallowed: a sharded dataset was "
                                "dispatched to the plain HTTP reader without any error", cd, {"impl": str(res2)[:200]})
                elif res2[0] != "ok" and res2 not in (["AccessErr"], ["IOErr"]):
                    R.violation("a failing info request in get_accessor_for_url surfaced as something else than a "
                                "data-access / I/O error", cd, {"impl": res2})
            if res[0] != "ok" or not isinstance(res[1], ShardedHttpAccessor):
                R.violation("sharded dataset not dispatched to the sharded HTTP reader", case0, {"impl": str(res)[:200]})
                continue
            R.count(f"sharded:{'legacy' if legacy else 'shard+stale-pair' if stale else 'shard'}:{enc}:{idx_enc}")
            targets = rng.sample(allc, min(len(allc), 3))
            for co in targets:
                local = ShardedFileAccessor(ds)
                loc = run_impl(lambda: local.fetch_chunk("1mm", tuple(co)))
                with np.errstate(all="ignore"):
                    cmc = int(vspec.get_cmc(co))
                    skey = rw.get_shard_key(np.uint64(cmc))
                name = hex(int(skey))[2:].rjust(-(-triple[2] // 4), "0")
                scale_url = origin + "/ds/1mm/"
                # number of requests of a fault-free fetch, then every request index x behaviour (sampled)
                acc = accessor.get_accessor_for_url(url)
                site.reset()
                h = run_impl(lambda: acc.fetch_chunk("1mm", tuple(co)))
                nreq = len(site.log)
                case = {**case0, "chunk": co, "stored": tuple(co) in content}
                R.case(case, nontrivial=len(stored) >= 2)
                R.count(f"sharded:fetch:{h[0] if h[0] != 'Crash' else h[1]}")
                wloc = local_locate(ds, "1mm", co)
                if idx_enc == "raw":
                    reqs.append(("hs_fetch", [sc, [], tree, b(scale_url), b(name), hl, cmc, wloc]))
                    pend.append(("hs", case, h, list(site.log), origin, enc))
                # oracle: HTTP == local (two different error classes are both "errors": accepted)
                if h != loc and (h[0] == "ok" or loc[0] == "ok"):
                    R.violation("sharded chunk fetched over HTTP differs from the local accessor's", case,
                                {"http": h12._short(h), "local": h12._short(loc)})
                elif h[0] != "ok" and tuple(co) in content:
                    R.violation("a stored sharded chunk cannot be fetched over HTTP", case, {"http": h12._short(h)})
                elif loc[0] == "ok" and tuple(co) in content and loc[1] != content[tuple(co)]:
                    R.violation("local sharded read differs from what was stored", case, {})
                # scripted behaviours
                behs = [("status", 500), ("status", 404), ("status", 503), "drop", "short", "long", "ignore-range",
                        ("status", 204), "cut-body", "cut-chunked", "bad-gzip"]
                for k in range(nreq):
                    chosen = rng.sample(behs, 4)
                    if stale:
                        # a 404 on the .shard object legitimately means "look for the legacy pair"; a 204
                        # (a non-error status other than 200) is read by the code as "not there" as well:
                        # neither is an HTTP failure in the sense of the property, so with a stale pair on
                        # the server the fallback is not flagged (and the local-locate oracle of the model
                        # comparison, taken from the .shard, would not apply to it)
                        chosen = [x for x in chosen if x not in (("status", 404), ("status", 204))]
                        if k == 0:
                            # refusals of the .shard probe that are NOT "not found" (stratified, always run)
                            chosen += [("status", 403), ("status", 410), ("status", 401)]
                    for beh in chosen:
                        script = ["normal"] * k + [beh]
                        acc2 = accessor.get_accessor_for_url(url)
                        site.reset(script)
                        h2 = run_impl(lambda: acc2.fetch_chunk("1mm", tuple(co)))
                        c2 = {**case, "fault_at": k, "behaviour": list(beh) if isinstance(beh, tuple) else beh}
                        R.case(c2, nontrivial=True)
                        R.count(f"sharded:scripted:{beh if isinstance(beh, str) else beh[1]}:"
                                f"{h2[0] if h2[0] != 'Crash' else h2[1]}")
                        if idx_enc == "raw":
                            reqs.append(("hs_fetch", [sc, wire_script(script), tree, b(scale_url), b(name), hl,
                                                      cmc, wloc]))
                            pend.append(("hs", c2, h2, list(site.log), origin, enc))
                        # oracle: never data that differs from the local read; a failure that changes
                        # the outcome must surface as a data-access / I/O error
                        # the failure is transient: the SAME accessor, the server healthy again, reads what the
                        # fault-free fetch read (= the local read, checked above)
                        site.reset()
                        h3 = run_impl(lambda: acc2.fetch_chunk("1mm", tuple(co)))
                        R.count(f"sharded:refetch:{h3[0] if h3[0] != 'Crash' else h3[1]}")
                        if h3 != h:
                            R.violation("after a failed sharded fetch the same accessor, the server healthy again, "
                                        "reads something else than the fault-free fetch (state of the failed attempt "
                                        "survives)", c2, {"first": h12._short(h2), "second_fetch": h12._short(h3),
                                                          "fault_free": h12._short(h)})
                        if h2[0] == "ok" and h2 != loc:
                            R.violation("server misbehaviour turned into wrong data", c2, {"http": h12._short(h2)})
                        elif h2 != h and h2 not in (["IOErr"], ["AccessErr"]):
                            R.violation("server / connection failure during a sharded fetch surfaced as something "
                                        "else than a data-access / I/O error", c2,
                                        {"http": h12._short(h2), "fault_free": h12._short(h)})
            # one accessor, chunk reads and file reads interleaved: a file read after a (ranged) chunk read
            # must still return the whole file, and the chunk read after it the same chunk
            acc3 = accessor.get_accessor_for_url(url)
            site.reset()
            seq_case = {**case0, "sequence": "file, chunk, file, exists, chunk on one accessor"}
            co3 = stored[0]
            want_chunk = run_impl(lambda: ShardedFileAccessor(ds).fetch_chunk("1mm", tuple(co3)))
            steps = [("file", lambda: acc3.fetch_file("info"), ["ok", ib]),
                     ("chunk", lambda: acc3.fetch_chunk("1mm", tuple(co3)), want_chunk),
                     ("file", lambda: acc3.fetch_file("info"), ["ok", ib]),
                     ("exists", lambda: acc3.file_exists("info"), ["ok", True]),
                     ("exists", lambda: acc3.file_exists("nope"), ["ok", False]),
                     ("chunk", lambda: acc3.fetch_chunk("1mm", tuple(co3)), want_chunk),
                     ("file", lambda: acc3.fetch_file("info"), ["ok", ib])]
            R.case(seq_case, nontrivial=True)
            for si, (what, fn, want3) in enumerate(steps):
                got3 = run_impl(fn)
                R.count(f"sharded:interleaved:{what}:{got3[0]}")
                if got3 != want3:
                    R.violation("interleaved file and chunk reads through one sharded HTTP accessor differ from the "
                                "local reads", {**seq_case, "step": si, "what": what},
                                {"http": h12._short(got3), "local": h12._short(want3)})
                    break
    rep = R.model.batch(reqs)
    for (kind, case, impl, log, origin, enc), m in zip(pend, rep):
        if kind == "dispatch":
            d = m[1] if str(m[0]) == "remote" else None
            if d is None:
                R.disagree("dispatch branch (http)", case, impl, [str(m[0])])
                continue
            if str(d[0]) == "ok":
                sel = d[1]
                mres = ["ok", {"http": "HttpAccessor", "sharded-http": "ShardedHttpAccessor"}[str(sel[0])],
                        sel[1].decode()]
            else:
                mres = [str(x) for x in d]
            ok, want = log_matches(m[2], log, origin)
            if mres != impl or not ok:
                R.disagree("get_accessor_for_url (http, sharded) vs model", case, [impl, log], [mres, want])
        else:
            ok, want = log_matches(m[1], log, origin)
            mo = decode_model(m[0], enc)
            if not bout_matches(mo, impl) or not ok:
                R.disagree("HttpShard fetch vs model", case, [h12._short(impl), log], [h12._short(mo), want])


def special_forms_part(R, quick):
    """Deterministic datasets, read over HTTP through ONE accessor and compared with what was stored and
    with the local read:
    (a) mixed forms within one scale: one shard only as a legacy .index/.data pair, the other shards as
        .shard files beside STALE legacy pairs (an older generation with other bytes) - shards read in both
        orders: the form is a property of each shard, never of the scale;
    (b) a chunk of 16 MiB + 12381 bytes (reads above 2^24 bytes), as a .shard file and as a legacy pair."""
    import contextlib
    import io
    import shutil
    import numpy as np
    from neuroglancer_scripts import accessor, sharded_base as sb
    from neuroglancer_scripts.sharded_file_accessor import ShardedFileAccessor

    def write(ds, info, content):
        w = ShardedFileAccessor(ds)
        w.store_file("info", json.dumps(info).encode(), mime_type="application/json")
        for c, data in content.items():
            w.store_chunk(data, "1mm", c)
        with contextlib.redirect_stdout(io.StringIO()):
            w.close()
        import atexit
        atexit.unregister(w.close)

    def split_one(scale_dir, stem, hl):
        data = open(os.path.join(scale_dir, stem + ".shard"), "rb").read()
        open(os.path.join(scale_dir, stem + ".index"), "wb").write(data[:hl])
        open(os.path.join(scale_dir, stem + ".data"), "wb").write(data[hl:])
        os.unlink(os.path.join(scale_dir, stem + ".shard"))

    # ---- (a)
    size = [128, 128, 64]
    coords = [(x, x + 64, y, y + 64, 0, 64) for x in (0, 64) for y in (0, 64)]
    for ti, triple in enumerate([(0, 1, 1), (0, 0, 2)] if quick else [(0, 1, 1), (0, 0, 2), (1, 1, 1), (0, 3, 1)]):
        info = sharded_info(triple, "raw", "raw", size)
        hl = 16 * 2 ** triple[1]
        spec = sb.ShardSpec(triple[1], triple[2], preshift_bits=triple[0])
        vspec = sb.ShardVolumeSpec([64, 64, 64], size)
        rw = sb.CMCReadWrite(spec)
        content = {c: bytes([17 * (k + 1)]) * (9 + k) for k, c in enumerate(coords)}
        shard_of = {}
        for c in coords:
            with np.errstate(all="ignore"):
                skey = rw.get_shard_key(np.uint64(int(vspec.get_cmc(list(c)))))
            shard_of[c] = hex(int(skey))[2:].rjust(-(-triple[2] // 4), "0")
        stems = sorted(set(shard_of.values()))
        if len(stems) < 2:
            continue
        for li, legacy_stem in enumerate(stems[:2]):
            root = os.path.join(R.tmp, f"mixsite{ti}-{li}")
            ds = os.path.join(root, "ds")
            write(ds, info, content)
            old = os.path.join(R.tmp, f"mixsite{ti}-{li}-old")
            write(old, info, {c: bytes(255 - x for x in d) + b"stale" for c, d in content.items()})
            split_legacy(os.path.join(old, "1mm"), hl)
            for fn in os.listdir(os.path.join(old, "1mm")):
                if not fn.startswith(legacy_stem + "."):
                    shutil.copy(os.path.join(old, "1mm", fn), os.path.join(ds, "1mm", fn))
            shutil.rmtree(old)
            split_one(os.path.join(ds, "1mm"), legacy_stem, hl)
            site = httpd.Site(root, rewrite=False, gzip_static=True)
            with httpd.Server(site) as s:
                url = s.url + "/ds"
                first = [c for c in coords if shard_of[c] == legacy_stem]
                rest = [c for c in coords if shard_of[c] != legacy_stem]
                for oi, order in enumerate([first + rest, rest + first, [first[0], rest[0], first[-1], rest[-1]]]):
                    acc = accessor.get_accessor_for_url(url)
                    local = ShardedFileAccessor(ds)
                    site.reset()
                    case = {"dataset": "sharded, mixed forms in one scale", "triple": list(triple),
                            "legacy_pair_only": legacy_stem, "shard_beside_stale_pair": [x for x in stems if x != legacy_stem],
                            "read_order": [shard_of[c] for c in order]}
                    R.case(case, nontrivial=True)
                    for c in order:
                        got = run_impl(lambda: acc.fetch_chunk("1mm", c))
                        loc = run_impl(lambda: local.fetch_chunk("1mm", c))
                        R.count(f"sharded:mixed-forms:{got[0] if got[0] != 'Crash' else got[1]}")
                        if got != ["ok", content[c]] or loc != ["ok", content[c]]:
                            R.violation("a scale holding one shard as a legacy pair and another as a .shard file "
                                        "(beside a stale pair), read through one accessor: not the stored chunk",
                                        {**case, "chunk": list(c), "shard": shard_of[c]},
                                        {"http": h12._short(got), "local": h12._short(loc),
                                         "stored": h12._short(content[c])})
                            break
    # ---- (b)
    n = (1 << 24) + 12381
    unit = bytes((5 * k + k // 253) % 256 for k in range(4099))
    big = (unit * (n // len(unit) + 1))[:n - 16] + b"<<end-of-buffer>"
    R.notes.append("one chunk of 16 MiB + 12381 bytes per run (sharded, .shard and legacy pair): oracle only "
                   "(HTTP = local = stored), not sent to the model")
    for legacy in (True, False):
        root = os.path.join(R.tmp, f"bigsite{int(legacy)}")
        ds = os.path.join(root, "ds")
        triple = (0, 1, 0)
        co = (0, 64, 0, 64, 0, 64)
        co2 = (64, 128, 0, 64, 0, 64)
        write(ds, sharded_info(triple, "raw", "raw", [128, 64, 64]), {co: big, co2: b"small-neighbour"})
        if legacy:
            split_legacy(os.path.join(ds, "1mm"), 16 * 2 ** triple[1])
        site = httpd.Site(root, rewrite=False, gzip_static=True)
        with httpd.Server(site) as s:
            acc = accessor.get_accessor_for_url(s.url + "/ds")
            case = {"dataset": "sharded, one chunk above 16 MiB", "legacy": legacy, "chunk_bytes": n}
            R.case(case, nontrivial=True)
            for c, want in ((co, big), (co2, b"small-neighbour"), (co, big)):
                got = run_impl(lambda: acc.fetch_chunk("1mm", c))
                loc = run_impl(lambda: ShardedFileAccessor(ds).fetch_chunk("1mm", c))
                R.count(f"sharded:large-chunk:{'legacy' if legacy else 'shard'}:{got[0] if got[0] != 'Crash' else got[1]}")
                if got[0] != "ok" or bytes(got[1]) != want or loc[0] != "ok" or bytes(loc[1]) != want:
                    R.violation("a sharded chunk above 16 MiB read over HTTP is not the stored chunk",
                                {**case, "chunk": list(c)},
                                {"http": h12._short(got), "local": h12._short(loc), "stored_bytes": len(want)})
        shutil.rmtree(root, ignore_errors=True)


def multiscale_part(R, n):
    """Sharded datasets with several scales whose `sharding` objects DIFFER (bit triple, data and
    index encoding), every chunk of every scale read through ONE accessor instance, in both scale
    orders, and compared with the local read and with what was stored."""
    import contextlib
    import io
    import numpy as np
    from neuroglancer_scripts import accessor, sharded_base as sb
    from neuroglancer_scripts.sharded_file_accessor import ShardedFileAccessor
    rng = R.rng
    reqs, pend = [], []
    for i in range(n):
        root = os.path.join(R.tmp, f"mssite{i}")
        ds = os.path.join(root, "ds")
        nscales = 2 + (i % 2)
        triples = rng.sample(TRIPLES, nscales)
        scales, specs = [], {}
        for si in range(nscales):
            key = ["1mm", "2mm", "4mm"][si]
            enc = ["raw", "gzip"][(i + si) % 2]
            idx_enc = "gzip" if (i + si) % 3 == 0 else "raw"
            size = [max(64, 256 >> si), max(64, 128 >> si), 64]
            sc1 = sharded_info(triples[si], enc, idx_enc, size)["scales"][0]
            sc1["key"] = key
            scales.append(sc1)
            specs[key] = (triples[si], enc, idx_enc, size)
        info = {"type": "image", "data_type": "uint8", "num_channels": 1, "scales": scales}
        w = ShardedFileAccessor(ds)
        w.store_file("info", json.dumps(info).encode(), mime_type="application/json")
        content = {}
        for key, (triple, enc, idx_enc, size) in specs.items():
            grid = [-(-x // 64) for x in size]
            for x in range(grid[0]):
                for y in range(grid[1]):
                    c = (x * 64, x * 64 + 64, y * 64, y * 64 + 64, 0, 64)
                    content[(key, c)] = bytes([len(content) + 1]) * rng.randrange(1, 12)
                    w.store_chunk(content[(key, c)], key, c)
        with contextlib.redirect_stdout(io.StringIO()):
            w.close()
        site = httpd.Site(root, rewrite=False, gzip_static=True)
        tree = tagged_tree(root)
        with httpd.Server(site) as s:
            origin = s.url
            sc = [b(origin), b(root), False, True]
            for order in (list(specs), list(reversed(list(specs)))):
                acc = accessor.get_accessor_for_url(origin + "/ds")
                local = ShardedFileAccessor(ds)
                for key in order:
                    triple, enc, idx_enc, size = specs[key]
                    for (k2, c), data in content.items():
                        if k2 != key:
                            continue
                        h = run_impl(lambda: acc.fetch_chunk(key, c))
                        loc = run_impl(lambda: local.fetch_chunk(key, c))
                        case = {"dataset": "sharded-multiscale", "scales": {k3: [list(v[0]), v[1], v[2]]
                                                                            for k3, v in specs.items()},
                                "order": order, "scale": key, "chunk": list(c)}
                        R.case(case, nontrivial=True)
                        R.count(f"multiscale:{h[0] if h[0] != 'Crash' else h[1]}")
                        if h != ["ok", data] or loc != ["ok", data]:
                            R.violation("chunk of a multi-scale sharded dataset (per-scale sharding specs) read through "
                                        "one accessor differs from what was stored / from the local read", case,
                                        {"http": h12._short(h), "local": h12._short(loc), "stored": h12._short(data)})
                        if idx_enc == "raw" and order == list(specs):
                            spec = sb.ShardSpec(triple[1], triple[2], preshift_bits=triple[0])
                            with np.errstate(all="ignore"):
                                cmc = int(sb.ShardVolumeSpec([64, 64, 64], size).get_cmc(list(c)))
                                skey = sb.CMCReadWrite(spec).get_shard_key(np.uint64(cmc))
                            name = hex(int(skey))[2:].rjust(-(-triple[2] // 4), "0")
                            reqs.append(("hs_fetch", [sc, [], tree, b(origin + f"/ds/{key}/"), b(name),
                                                      16 * 2 ** triple[1], cmc, local_locate(ds, key, list(c))]))
                            pend.append((case, h, enc))
    rep = R.model.batch(reqs)
    for (case, impl, enc), m in zip(pend, rep):
        mo = decode_model(m[0], enc)
        if not bout_matches(mo, impl):
            R.disagree("multi-scale sharded fetch vs model (outcome)", case, h12._short(impl), h12._short(mo))


# ----------------------------------------------------------------- dispatch / URL normalisation

def dispatch_part(R, n):
    from neuroglancer_scripts import accessor
    from neuroglancer_scripts.http_accessor import HttpAccessor
    from neuroglancer_scripts.sharded_http_accessor import ShardedHttpAccessor
    rng = R.rng
    # base URL normalisation, offline
    urls = ["http://h/a", "http://h/a/", "http://h/a?q=1#f", "https://h:8/a/b", "HTTP://H/a", "http://h", "http://h/",
            "http://h?x", "http://h#f", "http://u:p@h/a", "http:/a", "http:a", "http://h/a b", "http://h//a//",
            "http://h/%41", " http://h/a", "http://h/a\n/b", "https://h"]
    rep = R.model.batch([("http_init", b(u)) for u in urls])
    for u, m in zip(urls, rep):
        impl = run_impl(lambda: HttpAccessor(u).base_url.encode())
        mo = ["ok", m[1]] if str(m[0]) == "ok" else [str(x) for x in m]
        case = {"http_init": u}
        R.case(case, nontrivial=True)
        R.count(f"http_init:{impl[0] if impl[0] != 'Crash' else impl[1]}")
        if impl != mo:
            R.disagree("HttpAccessor.__init__ base_url vs model", case, impl, mo)
        if impl[0] != "ok":
            R.violation("HttpAccessor construction failed on an http(s) URL", case, {"impl": impl})
        elif not impl[1].endswith(b"/"):
            R.violation("base URL not normalised to end with a slash", case, {"impl": impl})
    # dispatch over info variants
    variants = h12.info_variants()
    reqs, pend = [], []
    for i in range(n):
        root = os.path.join(R.tmp, f"dsite{i}")
        ds = os.path.join(root, "ds")
        os.makedirs(ds)
        kind, data = variants[i % len(variants)]
        as_gz = data is not None and rng.random() < 0.2
        if data is not None:
            if as_gz:
                with gzip.open(os.path.join(ds, "info.gz"), "wb") as f:
                    f.write(data)
            else:
                open(os.path.join(ds, "info"), "wb").write(data)
        opts = {}
        if rng.random() < 0.25:
            opts["sharding"] = rng.choice([None, True, False])
        script = []
        if rng.random() < 0.3:
            script = [rng.choice([("status", 500), ("status", 404), "drop", "cut-body", "cut-chunked", "bad-gzip"])]
            if rng.random() < 0.5:
                script = ["normal"] + script
        site = httpd.Site(root, rewrite=True, gzip_static=True)
        tree = tagged_tree(root)
        with httpd.Server(site) as s:
            origin = s.url
            url = rng.choice(["", "precomputed://"]) + origin + rng.choice(["/ds", "/ds/"])
            site.reset(script)
            res = run_impl(lambda: accessor.get_accessor_for_url(url, opts))
            if res[0] == "Crash" and res[1] not in ("ValueError", "TypeError", "AssertionError", "KeyError", "IndexError"):
                res = ["Crash", {"JSONDecodeError": "ValueError", "UnicodeDecodeError": "ValueError",
                                 "AttributeError": "TypeError"}.get(res[1], res[1])]
            impl = res if res[0] != "ok" else ["ok", type(res[1]).__name__, res[1].base_url]
            itb = [[data, h12.parse_info_oracle(data)]] if data is not None else []
            tb = [[data, h12.gz_class(data)]] if data is not None else []
            reqs.append(("dispatch", [b(url), [False, True, 9, bool(opts.get("sharding")), "sharding" in opts], tb, itb,
                                      tree, [b(origin), b(root), True, True], wire_script(script)]))
            case = {"dispatch": url.replace(origin, "<origin>"), "info": kind + ("(gz)" if as_gz else ""),
                    "options": {k: repr(v) for k, v in opts.items()}, "script": [str(x) for x in script]}
            pend.append((case, impl, list(site.log), origin))
            R.case(case, nontrivial=impl[0] == "ok")
            R.count(f"dispatch:{impl[1] if impl[0] == 'ok' else impl[0] if impl[0] != 'Crash' else impl[1]}")
            # oracle: dispatch_iff
            if impl[0] == "ok" and not script:
                declared = data is not None and h12.info_declares_sharding(data)
                forced = "sharding" in opts
                if (impl[1] == "ShardedHttpAccessor") != (declared or forced):
                    R.violation("URL dispatched to the sharded HTTP reader although the info does not declare sharding "
                                "for all scales (or the converse)", case, {"impl": impl, "declared": declared})
    rep = R.model.batch(reqs)
    for (case, impl, log, origin), m in zip(pend, rep):
        d = m[1] if str(m[0]) == "remote" else None
        if d is None:
            R.disagree("dispatch branch (http)", case, impl, [str(m[0])])
            continue
        if str(d[0]) == "ok":
            sel = d[1]
            mres = ["ok", {"http": "HttpAccessor", "sharded-http": "ShardedHttpAccessor"}[str(sel[0])], sel[1].decode()]
        else:
            mres = [str(x) for x in d]
        ok, want = log_matches(m[2], log, origin)
        if mres != impl or not ok:
            R.disagree("get_accessor_for_url (http) vs model", case, [impl, log], [mres, want])


def urllib_path(u):
    import urllib.parse
    return urllib.parse.urlsplit(u).path


def run(R):
    R.rule = RULE
    quick = R.tier == "quick"
    h12.SAFE_ROOT[0] = R.tmp
    R.notes.append("transport (requests/urllib3/TCP) is an oracle; URL-safe names only (no '?', '#', '%', '..' in "
                   "relative names: requests rewrites such URLs); chunk coordinates non-negative (the documented "
                   "rewrite rule matches [0-9]+ only); server = harness/httpd.py, the counterpart of StHttp.serve")
    R.notes.append("server behaviours 'cut-body' / 'cut-chunked' (connection lost in the middle of the body) and "
                   "'bad-gzip' (damaged Content-Encoding: gzip stream) are modelled too (D_C12.scripted: SCutBody = a "
                   "transport failure, SBadGzip = an encoded body that does not gunzip), so they are correspondence "
                   "streams as well as oracle streams; the one-accessor multi-scale sweep compares outcomes with the "
                   "model and with the local read, not request traces (shards are cached by the accessor)")
    dispatch_part(R, 40 if quick else 600)
    plain_part(R, 24 if quick else 600)
    sharded_part(R, 21 if quick else 400)
    multiscale_part(R, 6 if quick else 120)
    special_forms_part(R, quick)


def replay(R, payload):
    before = len(R.violations) + len(R.disagreements)
    run(R)
    return len(R.violations) + len(R.disagreements) > before
