"""C09 — chunk identifiers and shard routing.

Correspondence: ShardVolumeSpec / compressed_morton_code / get_cmc /
get_shard_key / get_minishard_key / Shard.file_path  vs  coq/theories/Shard/Morton.v.
Oracle: extracted cmc_spec / spec_shard / spec_minishard / spec_name, plus a
Python-integer restatement of the compressed Morton code.
"""
import itertools
import os

from harness.common import outcome_of, model_outcome

RULE = ("exhaustive small grids x positions in [-1, g] per axis; random grids up to 2^21 per axis "
        "with structured positions; (preshift, minishard, shard) triples incl. sums > 64. "
        "non-trivial = grid whose axes have >= 2 different bit counts, or bit triple with p+m+s >= 1")


def ref_cmc(grid, p):
    """Compressed Morton code from the format document, on Python integers."""
    nb = [(g - 1).bit_length() for g in grid]
    code = 0
    j = 0
    for i in range(max(nb)):
        for d in range(3):
            if i < nb[d]:
                code |= ((p[d] >> i) & 1) << j
                j += 1
    return code


def _json_dumps(x):
    import json
    return json.dumps(x)


def run(R):
    import numpy as np
    from neuroglancer_scripts import sharded_base as sb
    from neuroglancer_scripts.sharded_file_accessor import Shard
    R.rule = RULE
    rng = R.rng
    quick = R.tier == "quick"

    # ------------------------------------------------------------ grids / cmc
    cases = []   # (chunk, sizes, coords, kind)
    small = 4 if quick else 6
    for g in itertools.product(range(1, small + 1), repeat=3):
        cs = rng.choice([1, 2, 8, 64])
        sizes = [gi * cs - rng.randrange(cs) for gi in g]
        for p in itertools.product(*[range(-1, gi + 1) for gi in g]):
            cases.append((cs, sizes, list(p), "small"))
    n_rand = 6000 if quick else 300000
    for _ in range(n_rand):
        cs = rng.choice([1, 2, 3, 16, 64, 100])
        g = []
        for _d in range(3):
            k = rng.randrange(0, 22)
            g.append(max(1, min(2 ** 21, 2 ** k + rng.choice([-1, 0, 0, 1, rng.randrange(-3, 4)]))))
        if sum((x - 1).bit_length() for x in g) > 64:
            g[2] = 1
        sizes = [gi * cs - rng.randrange(cs) for gi in g]
        p = []
        for gi in g:
            ch = rng.random()
            if ch < 0.3:
                p.append(rng.randrange(gi))
            elif ch < 0.5:
                p.append(gi - 1)
            elif ch < 0.6:
                p.append(0)
            elif ch < 0.8:
                k = rng.randrange(0, 22)
                p.append(min(gi - 1, max(0, 2 ** k + rng.choice([-1, 0, 1]))))
            elif ch < 0.9:
                p.append(gi)            # just outside
            else:
                p.append(rng.choice([-1, gi + 1, 2 * gi]))
        cases.append((cs, sizes, p, "random"))

    # grids far beyond 2^21 chunks per axis (identifiers still fit 64 bits): coordinates above 2^32, bit sums at 63/64
    for _ in range(400 if quick else 8000):
        cs = rng.choice([1, 2, 64])
        while True:
            ks = [rng.choice([0, 1, 5, 12, 20, 22, 31, 32, 33, 40, 45]) for _ in range(3)]
            g = [max(1, 2 ** k + rng.choice([-1, 0, 0, 1])) for k in ks]
            if sum((x - 1).bit_length() for x in g) <= 64 and max(g) * cs < 2 ** 50:
                break
        sizes = [gi * cs - rng.randrange(cs) for gi in g]
        p = []
        for gi in g:
            ch = rng.random()
            p.append(gi - 1 if ch < 0.3 else rng.randrange(gi) if ch < 0.6 else
                     min(gi - 1, 1 << max(0, (gi - 1).bit_length() - 1)) if ch < 0.85 else gi)
        cases.append((cs, sizes, p, "huge"))

    reqs = []
    for cs, sizes, p, _k in cases:
        reqs.append(("cmc", [[cs] * 3, sizes, p]))
        reqs.append(("get_cmc", [[cs] * 3, sizes, p[0] * cs, p[1] * cs, p[2] * cs]))
    replies = R.model.batch(reqs)

    specs = {}
    seen_ids = {}
    for idx, (cs, sizes, p, kind) in enumerate(cases):
        key = (cs, tuple(sizes))
        if key not in specs:
            specs[key] = sb.ShardVolumeSpec([cs] * 3, list(sizes))
        v = specs[key]
        grid = list(v.grid_sizes)
        impl = outcome_of(lambda: int(v.compressed_morton_code(list(p))))
        impl2 = outcome_of(lambda: int(v.get_cmc([p[0] * cs, p[0] * cs + cs, p[1] * cs, p[1] * cs + cs,
                                                 p[2] * cs, p[2] * cs + cs])))
        mod = model_outcome(replies[2 * idx])
        mod2 = model_outcome(replies[2 * idx + 1])
        case = {"chunk": cs, "sizes": sizes, "coords": p}
        nb = [(g - 1).bit_length() for g in grid]
        R.case(case, nontrivial=len(set(nb)) >= 2)
        R.count(f"cmc:{kind}:{impl[0]}")
        if impl != mod:
            R.disagree("compressed_morton_code vs cmc_model", case, impl, mod)
        if impl2 != mod2:
            R.disagree("get_cmc vs get_cmc_model", case, impl2, mod2)
        inside = all(0 <= c < g for c, g in zip(p, grid))
        # oracle on the implementation's output
        for what, out in (("compressed_morton_code", impl), ("get_cmc", impl2)):
            if inside:
                want = ref_cmc(grid, p)
                if out != ["ok", want]:
                    R.violation(f"{what}: in-grid position not given the specified identifier",
                                case, {"impl": out, "spec": want})
                elif not want < 2 ** sum(nb):
                    R.violation("identifier not below 2^(total bits)", case, {"id": want})
            else:
                if out[0] == "ok":
                    R.violation(f"{what}: position outside the grid accepted", case, {"impl": out})
                elif out != ["IOErr"]:
                    R.violation(f"{what}: position outside the grid raised an unrelated exception",
                                case, {"impl": out})
        if inside and impl[0] == "ok":
            prev = seen_ids.setdefault((key, impl[1]), tuple(p))
            if prev != tuple(p):
                R.violation("two positions share an identifier", case, {"other": prev, "id": impl[1]})

    # off-lattice origins
    for _ in range(300 if quick else 5000):
        cs = rng.choice([2, 3, 8, 64])
        g = [rng.randrange(1, 6) for _ in range(3)]
        sizes = [gi * cs for gi in g]
        v = sb.ShardVolumeSpec([cs] * 3, sizes)
        o = [rng.randrange(gi) * cs for gi in g]
        d = rng.randrange(3)
        o[d] += rng.randrange(1, cs)
        # the far end of the box: a whole chunk, clipped at the volume boundary, or exactly the boundary
        # (an off-lattice origin stays off the lattice whatever its box ends at)
        ends = rng.choice(["whole", "clipped", "boundary", "boundary"])
        if ends == "boundary" and rng.random() < 0.6:
            o[d] = sizes[d] - rng.randrange(1, cs)          # a partial box that touches the far boundary
        mx = [o[k] + cs if ends == "whole" else min(o[k] + cs, sizes[k]) if ends == "clipped"
              else (sizes[k] if k == d else min(o[k] + cs, sizes[k])) for k in range(3)]
        R.count(f"offlattice:end={ends}")
        impl = outcome_of(lambda: int(v.get_cmc([o[0], mx[0], o[1], mx[1], o[2], mx[2]])))
        mod = model_outcome(R.model.call("get_cmc", [[cs] * 3, sizes, o[0], o[1], o[2]]))
        case = {"chunk": cs, "sizes": sizes, "origin": o}
        R.case(case, nontrivial=True)
        R.count(f"offlattice:{impl[0]}")
        if impl != mod:
            R.disagree("get_cmc (off lattice)", case, impl, mod)
        if impl != ["IOErr"]:
            R.violation("off-lattice origin not rejected", case, {"impl": impl})

    # ShardVolumeSpec constructor (grid, bit counts, rejections)
    ctor = []
    for _ in range(400 if quick else 20000):
        cs = [rng.choice([1, 2, 7, 64, 0, -1])] * 3 if rng.random() < 0.9 else [64, 32, 64]
        sizes = [rng.choice([1, 2, 63, 64, 65, 1000, 10 ** 6, 10 ** 9, 0, -5, 2 ** 40 + 1]) for _ in range(3)]
        ctor.append((cs, sizes))
    ctor += [([1, 1, 1], [2 ** 22, 2 ** 22, 2 ** 21]), ([1, 1, 1], [2 ** 22, 2 ** 22, 2 ** 20 + 1]),
             ([1, 1, 1], [2 ** 22, 2 ** 22, 2 ** 20])]
    # bit sums 63..66 from axes that are not powers of two (sum of the per-axis bit counts, not the bit count
    # of the chunk count, decides)
    ctor += [([1, 1, 1], [2 ** 21 + 1, 2 ** 21 + 1, 2 ** 21]), ([1, 1, 1], [2 ** 21 + 1, 2 ** 21 + 1, 2 ** 20]),
             ([1, 1, 1], [2 ** 40 + 1, 2 ** 12 + 1, 2 ** 10 + 1]), ([1, 1, 1], [2 ** 40 + 1, 2 ** 12 + 1, 2 ** 9]),
             ([1, 1, 1], [2 ** 32 + 1, 2 ** 15, 2 ** 15]), ([1, 1, 1], [2 ** 31 + 1, 2 ** 31 + 1, 3]),
             ([2, 2, 2], [2 ** 22 + 3, 2 ** 22 + 3, 2 ** 22])]
    replies = R.model.batch([("mk_vspec", [cs, sz]) for cs, sz in ctor])
    for (cs, sz), rep in zip(ctor, replies):
        def build():
            v = sb.ShardVolumeSpec(list(cs), list(sz))
            return [list(v.grid_sizes), list(v.num_bits)]
        impl = outcome_of(build)
        mod = model_outcome(rep)
        case = {"chunk_sizes": cs, "sizes": sz}
        R.case(case, nontrivial=impl[0] == "ok")
        R.count(f"ctor:{impl[0]}")
        if impl != mod:
            R.disagree("ShardVolumeSpec vs mk_vspec", case, impl, mod)
        if impl[0] == "ok" and all(c > 0 for c in cs) and all(x > 0 for x in sz) and len(set(cs)) == 1:
            bits = [(-(-x // cs[0]) - 1).bit_length() for x in sz]
            if sum(bits) > 64:
                R.violation("a chunk grid whose identifiers need more than 64 bits was accepted (identifiers collide)",
                            case, {"bits_per_axis": bits})
        if impl[0] == "ok":
            want = [-(-s // cs[0]) for s in sz]
            if impl[1][0] != want or impl[1][1] != [(g - 1).bit_length() for g in want]:
                R.violation("grid size / bit count differ from the specification", case, {"impl": impl})

    # ------------------------------------------------------------ routing
    triples = [(p, m, s) for p in range(6) for m in range(6) for s in range(6)]
    special = [0, 1, 7, 8, 31, 32, 33, 59, 60, 63, 64, 65, 70]
    for _ in range(300 if quick else 4000):
        triples.append((rng.choice(special), rng.choice(special), rng.choice(special)))
    rcases = []
    for (p, m, s) in triples:
        ids = [rng.getrandbits(64), 1 << rng.randrange(64), (1 << 64) - 1, 0, rng.getrandbits(rng.randrange(1, 65))]
        for cid in ids[: (3 if quick else 5)]:
            rcases.append((p, m, s, cid))
    replies = R.model.batch([("routing", list(c)) for c in rcases])
    shard_dir = os.path.join(R.tmp, "shards")
    for (p, m, s, cid), rep in zip(rcases, replies):
        spec = sb.ShardSpec(m, s, preshift_bits=p)
        rw = sb.CMCReadWrite(spec)

        # the masks are memoised properties of the spec: every order of first access (the writer reads
        # preshift_mask between two chunks, a reader never does) must give the same routing, before and
        # after all of them have been read
        order = rng.sample(["preshift_mask", "minishard_mask", "shard_mask", "keys"], 4)

        def impl_fn():
            with np.errstate(all="ignore"):
                first = None
                for what in order:
                    if what == "keys":
                        first = [int(rw.get_shard_key(np.uint64(cid))), int(rw.get_minishard_key(np.uint64(cid)))]
                    else:
                        getattr(spec, what)
                sk = rw.get_shard_key(np.uint64(cid))
                mk = rw.get_minishard_key(np.uint64(cid))
                if first != [int(sk), int(mk)]:
                    return ["routing-depends-on-mask-access-order", order, first, [int(sk), int(mk)]]
                name = Shard(shard_dir, sk, spec).file_path.name
                return [int(sk), int(mk), name.encode(), int(rw.header_byte_length)]
        impl = outcome_of(impl_fn)
        R.count("routing:first-access=" + order[0])
        m_sk, m_mk, m_name, m_hdr, s_sk, s_mk, s_name = rep
        mod = ["ok", [m_sk, m_mk, m_name + b".shard", m_hdr]]
        case = {"preshift": p, "minishard": m, "shard": s, "id": cid}
        R.case(case, nontrivial=(p + m + s) >= 1)
        R.count("routing:" + ("sum>64" if p + m + s > 64 else "sum<=64"))
        if impl != mod:
            R.disagree("routing vs model", case, impl, mod)
        h = cid >> p
        want = [(h >> m) & ((1 << s) - 1), h & ((1 << m) - 1)]
        if [s_sk, s_mk] != want:
            R.violation("extracted specification disagrees with the Python-integer restatement "
                        "(harness self-check)", case, {"spec": [s_sk, s_mk], "ref": want})
        if impl[0] != "ok" or impl[1][0] != want[0] or impl[1][1] != want[1]:
            R.violation("shard / minishard number differs from the specification", case,
                        {"impl": impl, "spec": want})
        elif impl[1][2] != s_name + b".shard":
            R.violation("shard file name differs from the specification", case,
                        {"impl": impl[1][2], "spec": s_name + b".shard"})
        elif m < 60 and impl[1][3] != 16 * 2 ** m:
            R.violation("shard index length is not 16 * 2^minishard_bits", case, {"impl": impl[1][3]})

    # ------------------------------------------------------------ the same decisions with assertions disabled
    # (python -O / PYTHONOPTIMIZE): a sample of in-grid and out-of-grid positions through a child interpreter
    import subprocess
    import sys as _sys
    sample = [(cs, sizes, p) for cs, sizes, p, kind in cases if kind == "small"][::7][:400]
    child = ("import json,sys\nimport numpy as np\nfrom neuroglancer_scripts import sharded_base as sb\n"
             "out=[]\nfor cs,sizes,p in json.load(sys.stdin):\n"
             "    v=sb.ShardVolumeSpec([cs]*3,list(sizes))\n"
             "    try:\n        out.append(['ok',int(v.compressed_morton_code(list(p)))])\n"
             "    except Exception as e:\n        out.append([type(e).__name__])\n"
             "print(json.dumps(out))\n")
    r = subprocess.run([_sys.executable, "-O", "-c", child], input=_json_dumps(sample).encode(),
                       stdout=subprocess.PIPE, stderr=subprocess.PIPE, timeout=120,
                       env=dict(os.environ, PYTHONOPTIMIZE="1"))
    if r.returncode != 0:
        R.violation("compressed_morton_code under python -O: the child interpreter failed", {}, {"stderr": r.stderr.decode()[-300:]})
    else:
        import json as _j
        for (cs, sizes, p), got in zip(sample, _j.loads(r.stdout.decode())):
            v = specs[(cs, tuple(sizes))]
            grid = list(v.grid_sizes)
            inside = all(0 <= c < g for c, g in zip(p, grid))
            case = {"chunk": cs, "sizes": sizes, "coords": p, "python": "-O"}
            R.case(case, nontrivial=not inside)
            if inside and got != ["ok", ref_cmc(grid, p)]:
                R.violation("python -O: in-grid position not given the specified identifier", case, {"impl": got})
            if not inside and got[0] == "ok":
                R.violation("python -O: position outside the grid accepted (the check is an assert)", case, {"impl": got})
        R.count("python-O:sample", )

    # ------------------------------------------------------------ per-scale parameters through an accessor
    # the bits that route a chunk are those of ITS scale: an accessor asked about several scales, in any
    # order and repeatedly, must answer each with that scale's own sharding parameters
    import json as _json
    from neuroglancer_scripts.sharded_file_accessor import ShardedFileAccessor
    import atexit as _atexit
    for t in range(20 if quick else 300):
        trip = [(rng.randrange(0, 4), rng.randrange(0, 4), rng.randrange(0, 3)) for _ in range(rng.randrange(2, 5))]
        if len(set(trip)) == 1:
            trip[0] = (trip[0][0] + 1, trip[0][1], trip[0][2])
        scales = [{"key": f"s{k}", "size": [64, 64, 64], "chunk_sizes": [[8, 8, 8]], "resolution": [1, 1, 1],
                   "voxel_offset": [0, 0, 0], "encoding": "raw",
                   "sharding": {"@type": "neuroglancer_uint64_sharded_v1", "minishard_bits": m, "shard_bits": s_,
                                "preshift_bits": p_, "hash": "identity", "minishard_index_encoding": "raw",
                                "data_encoding": "raw"}} for k, (m, s_, p_) in enumerate(trip)]
        info = {"type": "image", "data_type": "uint8", "num_channels": 1, "scales": scales}
        dd = os.path.join(R.tmp, f"acc{t}")
        os.makedirs(dd)
        with open(os.path.join(dd, "info"), "w") as f:
            _json.dump(info, f)
        acc = ShardedFileAccessor(dd)
        _atexit.unregister(acc.close)
        asks = [rng.randrange(len(trip)) for _ in range(6)]
        case = {"triples_msp": [list(x) for x in trip], "asked": asks}
        R.case(case, nontrivial=True)
        for k in asks:
            got = outcome_of(lambda: dict(acc.get_sharding_spec(f"s{k}")))
            want = (trip[k][0], trip[k][1], trip[k][2])
            if got[0] != "ok" or (got[1].get("minishard_bits"), got[1].get("shard_bits"),
                                   got[1].get("preshift_bits")) != want:
                R.violation("an accessor answers a scale with another scale's sharding parameters", case,
                            {"scale": k, "got": str(got)[:200], "want": list(want)})
                break
        R.count("accessor:per-scale-sharding-spec")

    # libm check: math.ceil(math.log2(n)) against the exact bit count (test, not proof)
    import math
    bad = []
    ns = list(range(1, 5000)) + [2 ** k + d for k in range(2, 64) for d in (-1, 0, 1)]
    for n in ns:
        if math.ceil(math.log2(n)) != (n - 1).bit_length():
            bad.append(n)
    R.extra["log2_up_mismatches"] = bad[:10]
    R.notes.append("math.ceil(math.log2(n)) == N.log2_up n is tested (not proved) on 1..4999 and 2^k+-1, k<64; "
                   f"mismatches: {bad[:5]} (all >= 2^49 where the grid would need > 64 bits anyway)"
                   if bad else "math.ceil(math.log2(n)) == N.log2_up n tested on 1..4999 and 2^k+-1, k<64")
    for n in bad:
        if n < 2 ** 22:
            R.violation("libm log2 disagrees with the exact bit count on a reachable grid size",
                        {"n": n}, {})


def replay(R, payload):
    """Re-run the recorded case; True iff it still fails."""
    from neuroglancer_scripts import sharded_base as sb
    case = payload.get("case", {})
    if "coords" in case:
        v = sb.ShardVolumeSpec([case["chunk"]] * 3, case["sizes"])
        p = case["coords"]
        out = outcome_of(lambda: int(v.compressed_morton_code(list(p))))
        inside = all(0 <= c < g for c, g in zip(p, v.grid_sizes))
        return out != (["ok", ref_cmc(v.grid_sizes, p)] if inside else ["IOErr"])
    if "id" in case:
        import numpy as np
        spec = sb.ShardSpec(case["minishard"], case["shard"], preshift_bits=case["preshift"])
        rw = sb.CMCReadWrite(spec)
        h = case["id"] >> case["preshift"]
        want = [(h >> case["minishard"]) & ((1 << case["shard"]) - 1), h & ((1 << case["minishard"]) - 1)]
        got = outcome_of(lambda: [int(rw.get_shard_key(np.uint64(case["id"]))),
                                  int(rw.get_minishard_key(np.uint64(case["id"])))])
        return got != ["ok", want]
    return True
