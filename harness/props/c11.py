"""C11 -- data-type conversion rounds to nearest and saturates, never wraps.

Correspondence: data_types.get_chunk_dtype_transformer(i, o)(chunk, preserve_input=b)
on contiguous / strided / negative-stride / Fortran-ordered / read-only /
byte-swapped arrays  vs  coq/theories/Num/Convert.v (`convert`), compared
bit-exactly (floats as raw IEEE bit patterns), result AND the caller's buffer
afterwards.  Table tie: promote_types / can_cast(safe), all 100 entries.
Oracle: extracted `nearest_sat` (exact rational -> nearest representable,
half-to-even, saturating) plus an independent fractions.Fraction restatement.
"""
import struct
from fractions import Fraction

INS = ["int8", "int16", "int32", "int64", "uint8", "uint16", "uint32", "uint64",
       "float32", "float64"]
OUTS = ["uint8", "uint16", "uint32", "uint64", "float32"]
KS = [8, 16, 24, 31, 32, 52, 53, 63, 64]
LAYOUTS = ["contig", "strided", "negstride", "fortran", "readonly", "byteswapped", "subclass",
           "be_factory_be_chunk", "be_factory_native_chunk"]

RULE = ("all 50 (input, output) dtype pairs x preserve_input in {True, False} x 7 array layouts (incl. an ndarray subclass); "
        "values: type limits +-1 of input and of every output type, 2^k and 2^k+-1 for k in "
        "{8,16,24,31,32,52,53,63,64} (both signs), half-integers of both parities, values just "
        "beyond each target range (nextafter neighbours), float32 overflow boundary, subnormals, "
        "+-0, random; NaN/inf in a separate stream (model agreement only). "
        "non-trivial = the conversion needs rounding or clipping, or changes representation")

FLT_MAX = Fraction((2 ** 24 - 1) * 2 ** 104)
F32_OVERFLOW = Fraction(2 ** 128 - 2 ** 103)     # rounding boundary towards inf


def is_float(dt):
    return dt.startswith("float")


def irange(dt):
    bits = int(dt.lstrip("uint"))
    if dt.startswith("u"):
        return 0, 2 ** bits - 1
    return -2 ** (bits - 1), 2 ** (bits - 1) - 1


# ---------------------------------------------------------------- raw values

def f64_bits(x):
    return struct.unpack("<Q", struct.pack("<d", x))[0]


def f32_bits(x):
    return struct.unpack("<I", struct.pack("<f", x))[0]


def bits_f64(b):
    return struct.unpack("<d", struct.pack("<Q", b))[0]


def bits_f32(b):
    return struct.unpack("<f", struct.pack("<I", b))[0]


def raw_is_nan(dt, b):
    if dt == "float64":
        return (b >> 52) & 0x7FF == 0x7FF and b & ((1 << 52) - 1) != 0
    if dt == "float32":
        return (b >> 23) & 0xFF == 0xFF and b & ((1 << 23) - 1) != 0
    return False


def raw_is_finite(dt, b):
    if dt == "float64":
        return (b >> 52) & 0x7FF != 0x7FF
    if dt == "float32":
        return (b >> 23) & 0xFF != 0xFF
    return True


def canon(dt, b):
    """canonicalise NaNs (the model has one NaN)"""
    if raw_is_nan(dt, b):
        return 0x7FF8000000000000 if dt == "float64" else 0x7FC00000
    return b


def exact(dt, b):
    """exact value of a finite raw element"""
    if dt == "float64":
        return Fraction(bits_f64(b))
    if dt == "float32":
        return Fraction(bits_f32(b))
    return Fraction(b)


def to_array(np, dt, raws, shape):
    if dt == "float64":
        return np.array(raws, dtype=np.uint64).view(np.float64).reshape(shape)
    if dt == "float32":
        return np.array(raws, dtype=np.uint32).view(np.float32).reshape(shape)
    return np.array(raws, dtype=dt).reshape(shape)


def from_array(np, a):
    """logical C-order content as raw values (NaNs canonicalised)"""
    a = np.ascontiguousarray(a)
    dt = a.dtype.name
    if not a.dtype.isnative:
        a = a.astype(a.dtype.newbyteorder("="))
    if dt == "float64":
        return [canon(dt, int(x)) for x in a.reshape(-1).view(np.uint64)]
    if dt == "float32":
        return [canon(dt, int(x)) for x in a.reshape(-1).view(np.uint32)]
    return [int(x) for x in a.reshape(-1)]


# ---------------------------------------------------------------- reference

def floor_log2(a):
    l = a.numerator.bit_length() - a.denominator.bit_length()
    while Fraction(2) ** l > a:
        l -= 1
    while Fraction(2) ** (l + 1) <= a:
        l += 1
    return l


def ref_nearest(o, q):
    """Nearest representable value of type o to the exact rational q, ties to
    even, saturating -- independent restatement on fractions.Fraction."""
    if not is_float(o):
        lo, hi = irange(o)
        return max(lo, min(hi, round(q)))          # round(Fraction) is half-to-even
    assert o == "float32"
    if q == 0:
        return 0
    a = abs(q)
    e = max(-149, floor_log2(a) - 23)
    m = round(a / Fraction(2) ** e)
    val = m * Fraction(2) ** e
    if val > FLT_MAX:
        val = FLT_MAX
    return f32_bits(float(val if q > 0 else -val))


# ---------------------------------------------------------------- generators

def int_points():
    pts = set()
    for dt in INS[:8]:
        lo, hi = irange(dt)
        for d in (-2, -1, 0, 1, 2):
            pts.add(lo + d)
            pts.add(hi + d)
    for k in KS:
        for d in (-1, 0, 1):
            pts.add(2 ** k + d)
            pts.add(-(2 ** k) + d)
    pts.update([0, 1, 2, 3, -1, -2, -3, 2 ** 53 + 2, 2 ** 53 + 3, 2 ** 62 + 1, 2 ** 63 - 512,
                2 ** 63 - 513, 2 ** 63 - 511, 2 ** 64 - 1024, 2 ** 64 - 1025, 2 ** 64 - 2048,
                2 ** 64 - 2049, 2 ** 24 + 3, 2 ** 25 + 2, 2 ** 25 + 6, 2 ** 40 + 2 ** 16,
                2 ** 40 + 2 ** 16 + 1, 2 ** 40 + 3 * 2 ** 16])
    # neighbours of the midpoints between consecutive float32 values (24-bit significand): a conversion
    # of a 64-bit integer to float32 that goes through float64 first rounds twice and misses these
    for k in (24, 25, 30, 40, 52, 53, 54, 55, 57, 60, 62, 63):
        for mid in (2 ** k + 2 ** (k - 24), 2 ** k + 3 * 2 ** (k - 24)):
            for d in (-1, 0, 1):
                pts.add(mid + d)
                pts.add(-(mid + d))
    return pts


def gen_values(np, rng, dt, n_random):
    """list of (raw, class) for input dtype dt"""
    out = []
    if not is_float(dt):
        lo, hi = irange(dt)
        for p in sorted(int_points()):
            if lo <= p <= hi:
                out.append((p, "int-edge"))
        for _ in range(n_random):
            k = rng.randrange(1, 65)
            v = rng.getrandbits(k) * rng.choice([1, -1])
            out.append((max(lo, min(hi, v)), "int-random"))
        return out
    fb = f64_bits if dt == "float64" else f32_bits
    nx = np.float64 if dt == "float64" else np.float32

    def add(x, cls):
        x = nx(x)
        out.append((fb(float(x)), cls))

    def around(x, cls):
        x = nx(x)
        add(x, cls)
        add(np.nextafter(x, nx(np.inf)), cls + "-next")
        add(np.nextafter(x, nx(-np.inf)), cls + "-prev")

    with np.errstate(all="ignore"):
        for p in sorted(int_points()):
            around(float(p), "int-point")
            if abs(p) < 2 ** 40:
                around(p + 0.5, "half")
                around(p - 0.5, "half")
        for v in range(-4, 12):
            add(v + 0.5, "half-small")
            add(v + 0.25, "quarter")
            add(v + 0.75, "quarter")
        for o in OUTS[:4]:
            lo, hi = irange(o)
            for d in (0.49, 0.5, 0.51, 1.0, 1.5, 2.5):
                add(hi + d, "beyond-max")
                add(hi - d, "below-max")
                add(-d, "below-zero")
        # float32 overflow boundary (as float64 inputs) and format limits
        fmax32 = float(np.finfo(np.float32).max)
        for x in (fmax32, 2.0 ** 128 - 2.0 ** 103, 2.0 ** 127, 1e39, 1e38, 3.5e38, 1e300):
            around(x, "f32-overflow-zone")
            around(-x, "f32-overflow-zone")
        fin = np.finfo(nx)
        for x in (fin.tiny, fin.smallest_subnormal, fin.max, float(fin.tiny) / 2, 1e-40, 1e-45,
                  7e-46, 2.0 ** -149, 2.0 ** -150, 1.5 * 2.0 ** -149, 2.0 ** -126, 1e-310):
            around(x, "tiny-or-huge")
            add(-nx(x), "tiny-or-huge")
        add(0.0, "zero")
        add(-0.0, "zero")
        for _ in range(n_random):
            ch = rng.random()
            if ch < 0.35:
                w = 64 if dt == "float64" else 32
                b = rng.getrandbits(w)
                if raw_is_finite(dt, b):
                    out.append((b, "random-bits"))
            elif ch < 0.7:
                k = rng.choice([4, 8, 9, 16, 17, 32, 33, 53, 64, 65])
                add(rng.uniform(-1, 1) * 2.0 ** k, "random-range")
            else:
                k = rng.choice([8, 16, 24, 32])
                add(rng.randrange(-4, 2 ** k + 4) + rng.choice([0.5, -0.5, 0.25, 0.0]), "random-half")
    return out


def nonfinite_values(dt):
    if dt == "float64":
        return [0x7FF8000000000000, 0x7FF0000000000000, 0xFFF0000000000000]
    return [0x7FC00000, 0x7F800000, 0xFF800000]


# ---------------------------------------------------------------- layouts

def make_layout(np, layout, dt, raws, shape=None):
    """returns (array to pass, base array whose bytes are watched)"""
    n = len(raws)
    if shape is None:
        assert n % 4 == 0
        shape = (n // 4, 4)
    a = to_array(np, dt, raws, shape)
    if layout == "contig":
        arr = a.copy()
        return arr, arr
    if layout == "strided":
        bshape = tuple(shape[:-1]) + (2 * shape[-1] + 1,)
        base = np.zeros(bshape, dtype=a.dtype)
        if n:
            base[...] = a.reshape(-1)[0]
        view = base[..., 1::2]
        view[...] = a
        return view, base
    if layout == "negstride":
        rev = tuple(slice(None, None, -1) for _ in shape)
        base = a[rev].copy()
        return base[rev], base
    if layout == "fortran":
        arr = np.asfortranarray(a)
        return arr, arr
    if layout == "readonly":
        arr = a.copy()
        arr.flags.writeable = False
        return arr, arr
    if layout == "subclass":
        # an ndarray subclass (what np.memmap is): np.asarray returns another object sharing the memory
        class _Sub(np.ndarray):
            pass
        arr = a.copy().view(_Sub)
        return arr, arr
    if layout == "be_factory_native_chunk":
        arr = a.copy()
        return arr, arr
    if layout in ("byteswapped", "be_factory_be_chunk"):
        arr = a.astype(a.dtype.newbyteorder(">" if a.dtype.isnative and a.dtype.byteorder != ">" else "<"))
        if arr.dtype.itemsize == 1:
            arr = a.copy()       # single bytes have no byte order
        return arr, arr
    raise ValueError(layout)


def layout_flags(layout, dt):
    """(writeable, chunk in native byte order)"""
    writeable = layout != "readonly"
    native = not (layout in ("byteswapped", "be_factory_be_chunk") and dt not in ("int8", "uint8"))
    return writeable, native


def factory_native(layout, dt):
    """is the dtype OBJECT handed to get_chunk_dtype_transformer in native byte order?
    (the be_factory_* layouts pass a byte-swapped dtype object such as '>i8')"""
    return not (layout.startswith("be_factory") and dt not in ("int8", "uint8"))


def factory_dtype(np, layout, dt):
    d = np.dtype(dt)
    if factory_native(layout, dt):
        return d
    return d.newbyteorder(">" if d.newbyteorder("<").isnative else "<")


# ---------------------------------------------------------------- classification

def finding_region(i, o, q):
    """Region predicate of the finding recorded in findings/C11.json
    (the uint64-top and int64-via-float64 regions were repaired in /repo)."""
    if o == "float32" and i == "float64" and abs(q) >= F32_OVERFLOW:
        return "float64-to-float32-overflows-to-inf"
    return None


def check_case(R, np, tf_cache, i, o, preserve, layout, raws, mrep, classes=None, record=True, shape=None,
               judge=None):
    """One transformer call on one array.  mrep = model reply for
    (i, o, preserve, writeable, native, raws).  Returns number of problems."""
    from harness.common import outcome_of
    from neuroglancer_scripts.data_types import get_chunk_dtype_transformer
    problems = 0
    key = (i, o, factory_native(layout, i))
    if key not in tf_cache:
        tf_cache[key] = get_chunk_dtype_transformer(factory_dtype(np, layout, i), o, warn=False)
    tf = tf_cache[key]
    arr, base = make_layout(np, layout, i, raws, shape)
    before = from_array(np, arr)
    base_before = base.tobytes()

    def call():
        with np.errstate(all="ignore"):
            res = tf(arr, preserve_input=preserve)
        return [res.dtype.name, list(res.shape), from_array(np, res)]
    impl = outcome_of(call)
    after = from_array(np, arr)
    case = {"in": i, "out": o, "preserve": preserve, "layout": layout, "values": raws}
    if shape is not None:
        case["shape"] = list(shape)
    m_res, m_after, m_alias = mrep[0], mrep[1], str(mrep[2]) == "true"
    m_res = [canon(o, b) for b in m_res]
    m_after = [canon(i, b) for b in m_after]
    skip = set()
    if o == "uint32" and is_float(i):
        # NaN -> uint32 is position dependent in NumPy's vectorised loop (0 or 2^31)
        skip = {k for k, b in enumerate(raws) if raw_is_nan(i, b)}
    if impl[0] != "ok":
        R.disagree("transformer raised", case, impl, ["ok", m_res])
        R.violation("the conversion raises instead of converting", case, {"impl": impl})
        return 1
    dtn, shp, got = impl[1]
    if dtn != o or shp != list(arr.shape):
        R.violation("result dtype/shape wrong", case, {"dtype": dtn, "shape": shp})
        problems += 1
    bad = [k for k in range(len(raws)) if got[k] != m_res[k] and k not in skip]
    if bad:
        k = bad[0]
        R.disagree("transformer result vs Convert.convert", dict(case, values=[raws[k]], index=k),
                   got[k], m_res[k])
        problems += 1
    if after != m_after:
        k = [j for j in range(len(raws)) if after[j] != m_after[j]][0]
        R.disagree("caller's buffer afterwards vs model input_after", dict(case, values=[raws[k]], index=k),
                   after[k], m_after[k])
        problems += 1
    if layout == "strided":
        # cells of the base array outside the view must never change
        b2 = np.frombuffer(base.tobytes(), dtype=base.dtype).reshape(base.shape).copy()
        b1 = np.frombuffer(base_before, dtype=base.dtype).reshape(base.shape).copy()
        b1[..., 1::2] = 0
        b2[..., 1::2] = 0
        if b1.tobytes() != b2.tobytes():
            R.violation("memory outside the passed view was modified", case, {})
            problems += 1
    # ---- property (oracle on what the implementation produced, every layout and mode)
    if judge is not None:
        problems += judge.check(R, raws, got, case)
    if preserve and after != before:
        R.violation("input modified although preserve_input=True", case, {"before": before[:8], "after": after[:8]})
        problems += 1
    if record:
        R.count("aliased:" + ("yes" if (after != before) else "no"))
    return problems


GUARD_IDS = ["float64-to-float32-overflows-to-inf"]


class Judge:
    """The oracle for one (input, output) pair: expected raw result and finding
    region per finite raw input value, from the extracted nearest_sat_of /
    guards replies, self-checked once against the Fraction restatement."""

    def __init__(self, R, i, o, raws, spec, guards):
        self.i, self.o = i, o
        self.want = {}
        self.region = {}
        self.problems = 0
        for k, b in enumerate(raws):
            if b in self.want or not raw_is_finite(i, b):
                continue
            q = exact(i, b)
            want = ref_nearest(o, q)
            ext_region = None
            for gid, gv in zip(GUARD_IDS, guards[k]):
                if str(gv) != "true":
                    ext_region = gid
                    break
            if ext_region != finding_region(i, o, q):
                R.violation("extracted guard and the harness's region predicate disagree (harness self-check)",
                            {"in": i, "out": o, "values": [b]},
                            {"extracted": ext_region, "harness": finding_region(i, o, q)})
                self.problems += 1
                continue
            fin, s_want = str(spec[k][0]) == "true", spec[k][1]
            if not fin or s_want != want:
                R.violation("extracted nearest_sat disagrees with the Fraction restatement (harness self-check)",
                            {"in": i, "out": o, "values": [b]}, {"spec": s_want, "ref": want})
                self.problems += 1
                continue
            self.want[b] = want
            self.region[b] = ext_region

    def check(self, R, raws, got, case):
        """Apply the oracle to what the implementation returned for one call
        (any layout, any mode).  Returns the number of violations."""
        o = self.o
        problems = 0
        for k, b in enumerate(raws):
            want = self.want.get(b)
            if want is None:
                if o == "float32" and is_float(self.i) and not raw_is_finite(self.i, b):
                    # an infinite voxel stays infinite (same sign), NaN stays NaN: the float
                    # output type holds these values exactly
                    sign = b >> (63 if self.i == "float64" else 31)
                    w = 0x7FC00000 if raw_is_nan(self.i, b) else (0x7F800000 | (sign << 31))
                    if got[k] != w:
                        R.violation("non-finite float value not preserved by a float output type",
                                    dict(case, values=[b], index=k), {"impl": got[k], "spec": w})
                        problems += 1
                continue
            g = got[k]
            if g == want or (o == "float32" and {g, want} == {0, 0x80000000}):
                continue       # (the sign of an exact zero is not part of "nearest value")
            region = self.region[b]
            if region and any(f["id"] == region for f in R.findings):
                R.known(region)
                R.count("known:" + region)
            else:
                c = dict(case, values=[b], index=k)
                c.pop("shape", None)
                R.violation("result is not the nearest representable value (half-to-even, saturating)",
                            c, {"impl": g, "spec": want, "exact": str(exact(self.i, b))})
                problems += 1
                if problems >= 3:
                    break
        return problems


def build_judge(R, i, o, raws):
    from harness.common import Atom
    raws = [b for b in dict.fromkeys(raws) if raw_is_finite(i, b)]
    spec, guards = R.model.batch([("nearest_sat_of", [Atom(i), Atom(o), raws]),
                                  ("guards", [Atom(i), Atom(o), raws])])
    return Judge(R, i, o, raws, spec, guards)


def run_sequence(R, np, tf, i, o, steps, judge):
    """Several calls on ONE transformer object.  Every result is judged by the
    oracle when it is returned, and every result returned earlier must still
    hold the same values after each later call (a caller may collect converted
    blocks).  steps: dicts with values, preserve, layout, shape."""
    problems = 0
    kept = []
    for k, st in enumerate(steps):
        arr, _base = make_layout(np, st["layout"], i, st["values"], tuple(st["shape"]))
        case = {"in": i, "out": o, "sequence": steps[:k + 1]}
        try:
            with np.errstate(all="ignore"):
                res = tf(arr, preserve_input=st["preserve"])
        except Exception as exc:  # noqa: BLE001
            R.violation("the conversion raises instead of converting", case, {"exception": repr(exc)})
            return problems + 1
        got = from_array(np, res)
        problems += judge.check(R, st["values"], got, dict(case, preserve=st["preserve"], layout=st["layout"]))
        for j, (old_res, snap) in enumerate(kept):
            if from_array(np, old_res) != snap:
                R.violation("a result returned earlier was changed by a later call on the same transformer",
                            dict(case, changed_step=j), {"was": snap[:8], "now": from_array(np, old_res)[:8]})
                return problems + 1
        kept.append((res, got))
    return problems


def big_specs(rng):
    return [{"in": "float32", "out": "uint8", "big_shape": [100, 256, 192], "seed": rng.getrandbits(32),
             "preserve": True},
            {"in": "int32", "out": "uint8", "big_shape": [3, 1500, 1000], "seed": rng.getrandbits(32),
             "preserve": False},
            {"in": "float64", "out": "uint16", "big_shape": [7, 3, 450, 450], "seed": rng.getrandbits(32),
             "preserve": False}]


def big_case(R, np, spec_):
    """One array above 2^22 elements: every element against the vectorised
    restatement clip(rint(x)), 4096 sampled positions (spread over the whole
    array, last slab included) against the extracted model."""
    from harness.common import Atom
    from neuroglancer_scripts.data_types import get_chunk_dtype_transformer
    i, o, shape = spec_["in"], spec_["out"], tuple(spec_["big_shape"])
    g = np.random.default_rng(spec_["seed"])
    n = int(np.prod(shape))
    lo, hi = irange(o)
    if is_float(i):
        x = g.uniform(lo - 60.0, hi + 60.0, size=n)
        x[::7] = np.floor(x[::7]) + 0.5              # ties
        x = x.astype(i).reshape(shape)
        want = np.clip(np.rint(x.astype(np.float64)), lo, hi).astype(o)
    else:
        x = g.integers(lo - 300, hi + 300, size=n).astype(i).reshape(shape)
        want = np.clip(x.astype(np.int64), lo, hi).astype(o)
    before = x.copy()
    arr = x if spec_["preserve"] else x.copy()
    try:
        with np.errstate(all="ignore"):
            res = get_chunk_dtype_transformer(i, o, warn=False)(arr, preserve_input=spec_["preserve"])
    except Exception as exc:  # noqa: BLE001
        R.violation("the conversion raises instead of converting", spec_, {"exception": repr(exc)})
        return 1
    problems = 0
    if res.dtype.name != o or res.shape != shape:
        R.violation("result dtype/shape wrong", spec_, {"dtype": res.dtype.name, "shape": list(res.shape)})
        return 1
    if not np.array_equal(res, want):
        bad = np.argwhere(res != want)
        first = tuple(int(v) for v in bad[0])
        R.violation("result is not the nearest representable value (half-to-even, saturating)", spec_,
                    {"wrong_elements": int(len(bad)), "first_index": first,
                     "input": float(before[first]), "impl": int(res[first]), "spec": int(want[first])})
        problems += 1
    if spec_["preserve"] and not np.array_equal(arr, before):
        R.violation("input modified although preserve_input=True", spec_, {})
        problems += 1
    # the model on a sample
    pos = np.unique(np.concatenate([g.integers(0, n, size=4000), np.arange(n - 96, n)]))
    flat_in = before.reshape(-1)[pos]
    raws = from_array(np, flat_in)
    rep = R.model.call("convert", [Atom(i), Atom(o), True, True, True, raws])
    got = [int(v) for v in res.reshape(-1)[pos]]
    if got != rep[0]:
        k = [j for j in range(len(raws)) if got[j] != rep[0][j]][0]
        R.disagree("large array vs Convert.convert", dict(spec_, values=[raws[k]], flat_index=int(pos[k])),
                   got[k], rep[0][k])
        problems += 1
    return problems


def pad4(raws):
    raws = list(raws)
    while len(raws) % 4:
        raws.append(raws[0])
    return raws


def run(R):
    import numpy as np
    from harness.common import Atom
    R.rule = RULE
    rng = R.rng
    quick = R.tier == "quick"

    # ------------------------------------------------------------ table tie
    tab = R.model.call("tables", [])
    seen = 0
    for a, b, p, c in tab:
        a, b, p, c = str(a), str(b), str(p), str(c) == "true"
        want_p = np.promote_types(a, b).name
        want_c = bool(np.can_cast(a, b, casting="safe"))
        seen += 1
        if p != want_p:
            R.disagree("promote_types table", {"a": a, "b": b}, want_p, p)
        if c != want_c:
            R.disagree("can_cast(safe) table", {"a": a, "b": b}, want_c, c)
    if seen != 100:
        R.disagree("table size", {}, 100, seen)
    R.count("table-entries", seen)
    for dt in INS[:8]:
        rep = R.model.call("dtype_info", Atom(dt))
        ii = np.iinfo(dt)
        if [str(rep[0]), rep[1], rep[2]] != ["true", int(ii.min), int(ii.max)]:
            R.disagree("iinfo", {"dtype": dt}, [int(ii.min), int(ii.max)], rep)

    # ------------------------------------------------------------ values
    n_random = 400 if quick else 20000
    values = {}
    for i in INS:
        vs = gen_values(np, rng, i, n_random)
        # dedupe, keep class of first occurrence
        seen_v = {}
        for b, cls in vs:
            seen_v.setdefault(b, cls)
        values[i] = list(seen_v.items())
        for _b, cls in values[i]:
            R.count(f"values:{i}:{cls}")

    tf_cache = {}
    judges = {}
    for i in INS:
        fin = pad4([b for b, _ in values[i]])
        if is_float(i):
            nonfin = pad4(nonfinite_values(i) + [fin[0]])
        else:
            nonfin = []
        for o in OUTS:
            R.count(f"pair:{i}->{o}")
            # model: one call per flag combination on the finite stream
            flagsets = []
            for layout in LAYOUTS:
                wr, nat = layout_flags(layout, i)
                for preserve in (True, False):
                    fs = (preserve, wr, nat, factory_native(layout, i))
                    if fs not in flagsets:
                        flagsets.append(fs)
            streams = [("finite", fin)] + ([("nonfinite", nonfin)] if nonfin else [])
            streams.append(("empty", []))
            reqs = []
            for _sn, raws in streams:
                for (preserve, wr, nat, fnat) in flagsets:
                    reqs.append(("convert_bo", [Atom(i), Atom(o), preserve, wr, nat, fnat, raws]))
            reqs.append(("nearest_sat_of", [Atom(i), Atom(o), fin]))
            reqs.append(("guards", [Atom(i), Atom(o), fin]))
            reps = R.model.batch(reqs)
            judge = Judge(R, i, o, fin, reps[-2], reps[-1])
            judges[(i, o)] = judge
            ridx = 0
            for sn, raws in streams:
                mreps = {}
                for fs in flagsets:
                    mreps[fs] = reps[ridx]
                    ridx += 1
                base_res = None
                for layout in LAYOUTS:
                    wr, nat = layout_flags(layout, i)
                    for preserve in (True, False):
                        mrep = mreps[(preserve, wr, nat, factory_native(layout, i))]
                        nprob = check_case(R, np, tf_cache, i, o, preserve, layout, raws, mrep, judge=judge)
                        nontriv = (i != o)
                        R.case({"in": i, "out": o, "preserve": preserve, "layout": layout,
                                "stream": sn, "n": len(raws)}, nontrivial=nontriv)
                        R.count(f"layout:{layout}:preserve={preserve}")
                        R.traces += len(raws)
                        # result must not depend on the buffer mode or layout
                        res = [canon(o, b) for b in mrep[0]]
                        if base_res is None:
                            base_res = res
                # the in-place mode must give the same values as the default mode
                if sn == "finite":
                    arr = to_array(np, i, raws, (len(raws) // 4, 4))
                    with np.errstate(all="ignore"):
                        got = from_array(np, tf_cache[(i, o, True)](arr))
                        got2 = from_array(np, tf_cache[(i, o, True)](arr.copy(), preserve_input=False))
                    if got2 != got:
                        k = [j for j in range(len(raws)) if got[j] != got2[j]][0]
                        R.violation("result depends on preserve_input",
                                    {"in": i, "out": o, "values": [raws[k]], "layout": "contig"},
                                    {"preserve": got[k], "inplace": got2[k]})
    # ------------------------------------------------------------ sequences on one transformer
    # three blocks of one shape through ONE transformer object, both buffer modes,
    # several layouts; earlier results are re-read after every later call
    from neuroglancer_scripts.data_types import get_chunk_dtype_transformer as _mk
    SEQ = [(0, False, "contig"), (1, False, "contig"), (2, True, "fortran"), (0, False, "fortran"),
           (1, True, "contig"), (2, False, "strided"), (0, False, "contig")]
    for i in INS:
        pool = [b for b, _ in values[i] if raw_is_finite(i, b)]
        lo_, hi_ = (irange(i) if not is_float(i) else (None, None))
        for o in OUTS:
            top = [b for b in pool if judges[(i, o)].want.get(b) not in (None, 0)][-4:]
            blocks = []
            for _k in range(3):
                blk = [rng.choice(pool) for _ in range(12)]
                blk[:len(top)] = top if _k != 1 else top[::-1]
                blocks.append(blk)
            for shape in ((3, 4), (12,)):
                steps = [{"values": blocks[bi], "preserve": pres,
                          "layout": lay if len(shape) > 1 or lay != "fortran" else "contig",
                          "shape": list(shape)} for bi, pres, lay in SEQ]
                run_sequence(R, np, _mk(i, o, warn=False), i, o, steps, judges[(i, o)])
                R.case({"in": i, "out": o, "sequence": len(steps), "shape": list(shape)}, nontrivial=(i != o))
                R.count("sequence-on-one-transformer")
                R.traces += 12 * len(steps)

    # ------------------------------------------------------------ shapes
    # small arrays of 1 to 4 dimensions, sizes 1..9 (and one long axis), every layout
    shp_cases = []
    for i in INS:
        pool = [b for b, _ in values[i]]
        for o in OUTS:
            for _ in range(16 if quick else 120):
                nd = rng.randrange(1, 5)
                shape = tuple(rng.randrange(1, 10) for _ in range(nd))
                if rng.random() < 0.15:
                    shape = shape[:-1] + (rng.randrange(10, 40),)
                n = 1
                for d_ in shape:
                    n *= d_
                raws = [rng.choice(pool) for _ in range(n)]
                layout = rng.choice(LAYOUTS)
                preserve = rng.random() < 0.5
                shp_cases.append((i, o, shape, raws, layout, preserve))
    reqs = []
    for (i, o, shape, raws, layout, preserve) in shp_cases:
        wr, nat = layout_flags(layout, i)
        reqs.append(("convert_bo", [Atom(i), Atom(o), preserve, wr, nat, factory_native(layout, i), raws]))
    reps = R.model.batch(reqs)
    for (i, o, shape, raws, layout, preserve), mrep in zip(shp_cases, reps):
        check_case(R, np, tf_cache, i, o, preserve, layout, raws, mrep, shape=shape, judge=judges[(i, o)])
        R.case({"in": i, "out": o, "preserve": preserve, "layout": layout, "shape": list(shape)},
               nontrivial=(i != o))
        R.count(f"shape-ndim:{len(shape)}")
        R.traces += len(raws)

    # ------------------------------------------------------------ large arrays
    # two deterministic arrays above 2^22 elements per run (whole volumes / big chunks),
    # judged against a vectorised NumPy restatement and, on a sample, the model
    for spec_ in big_specs(rng):
        big_case(R, np, spec_)
        R.case(spec_, nontrivial=True)
        R.count("large-array")
        R.traces += 1

    # ------------------------------------------------------------ dtype assertion
    from harness.common import outcome_of, model_outcome
    from neuroglancer_scripts.data_types import get_chunk_dtype_transformer
    combos = [(c, i, o) for c in INS for i in INS for o in OUTS if c != i]
    rng.shuffle(combos)
    combos = combos[:60 if quick else 450] + [(i, i, "uint8") for i in INS]
    reps = R.model.batch([("convert_chk", [Atom(c), Atom(i), Atom(o), True, True, True,
                                           [1, 2, 3, 4] if not is_float(c) else
                                           [f64_bits(1.0) if c == "float64" else f32_bits(1.0)] * 4])
                          for c, i, o in combos])
    for (c, i, o), rep in zip(combos, reps):
        raws = [1, 2, 3, 4] if not is_float(c) else [f64_bits(1.0) if c == "float64" else f32_bits(1.0)] * 4
        arr = to_array(np, c, raws, (1, 4))

        def call():
            with np.errstate(all="ignore"):
                return from_array(np, get_chunk_dtype_transformer(i, o, warn=False)(arr))
        impl = outcome_of(call)
        mod = model_outcome(rep)
        if mod[0] == "ok":
            mod = ["ok", [canon(o, b) for b in mod[1][0]]]
        case = {"chunk_dtype": c, "in": i, "out": o, "values": raws}
        R.case(case, nontrivial=(c != i))
        R.count("dtype-assertion:" + (impl[0] if impl[0] == "ok" else impl[-1]))
        if impl != mod:
            R.disagree("dtype assertion of the transformer", case, impl, mod)
    R.extra["values_per_input_dtype"] = {i: len(values[i]) for i in INS}
    R.notes.append("NaN -> uint32 is excluded from the bit-exact comparison: NumPy's vectorised cast "
                   "returns 2^31 or 0 depending on the element's position")
    R.notes.append("casts of NaN/inf/out-of-range floats to integers are modelled from observation "
                   "(x86-64 cvttsd2si results); reached only through NaN and through the clip bound 2^64")
    R.notes.append("the sign of an exactly-zero float32 result is not judged by the oracle")


def replay(R, payload):
    """Re-run the recorded case; True iff it still fails."""
    import numpy as np
    from harness.common import Atom
    case = payload.get("case", {})
    if "a" in case and "b" in case:       # table entry
        tab = R.model.call("tables", [])
        for a, b, p, c in tab:
            if str(a) == case["a"] and str(b) == case["b"]:
                return (np.promote_types(case["a"], case["b"]).name != str(p)
                        or bool(np.can_cast(case["a"], case["b"], casting="safe")) != (str(c) == "true"))
        return True
    if "in" not in case:
        return True
    i, o = case["in"], case["out"]
    from neuroglancer_scripts.data_types import get_chunk_dtype_transformer
    if "big_shape" in case:
        return bool(big_case(R, np, {k: case[k] for k in ("in", "out", "big_shape", "seed", "preserve")})
                    or R.violations or R.disagreements)
    if "sequence" in case:
        steps = case["sequence"]
        judge = build_judge(R, i, o, [b for st in steps for b in st["values"]])
        n = run_sequence(R, np, get_chunk_dtype_transformer(i, o, warn=False), i, o, steps, judge)
        return bool(n or R.violations or R.disagreements)
    shape = tuple(case["shape"]) if "shape" in case and "index" not in case else None
    raws = list(case["values"]) if shape else pad4(case["values"])
    layout = case.get("layout", "contig")
    preserve = case.get("preserve", True)
    wr, nat = layout_flags(layout, i)
    mrep = R.model.call("convert_bo", [Atom(i), Atom(o), preserve, wr, nat, factory_native(layout, i), raws])
    judge = build_judge(R, i, o, raws)
    n = check_case(R, np, {}, i, o, preserve, layout, raws, mrep, record=False, shape=shape, judge=judge)
    return bool(n or R.violations or R.disagreements)
