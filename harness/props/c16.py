"""C16 — generated metadata and transform place the image in space.

Correspondence: volume-to-precomputed --generate-info (info_fullres.json,
transform.json), volume_reader.nibabel_image_to_info,
transform.nifti_to_neuroglancer_transform, matrix_as_compact_urlsafe_json
vs  coq/theories/Pipe/TrAffine.v (exact rational arithmetic).
Oracle: the half-voxel relation itself, evaluated with fractions.Fraction on
the numbers the implementation wrote and on the affine nibabel reads from the
file; relative tolerance 2^-40 (float rounding inside NumPy / nibabel is not
verified).
"""
import json
import logging
import os
import re
import subprocess
from fractions import Fraction

from harness.common import outcome_of, model_outcome, Atom, PY

RULE = ("NIfTI-1/-2 files written with nibabel: affines = orthogonal x shear x anisotropic scale x flips "
        "(plus axis permutations, identity, tiny/huge voxels), translations up to 1e5 mm; shapes 3-D / 4-D / "
        "RGB (2-D and 5-D as out-of-domain stream); ten stored dtypes + complex64, with and without header "
        "scaling, --ignore-scaling, --input-max; sharding strings valid and malformed; gzip on/off. "
        "non-trivial = affine with a non-zero off-diagonal entry or non-unit anisotropy")

TOL = Fraction(1, 2 ** 40)
DTYPES = ["uint8", "int8", "int16", "uint16", "int32", "uint32", "int64", "uint64", "float32", "float64",
          "complex64"]
NG_TYPES = ("uint8", "uint16", "uint32", "uint64", "float32")
SHARDINGS = [None, "2,5,3", "6,0,9", "0,7,1", "6,15,10", "4,20,12", "12,3,64", "0,0,29", "1,2,3", "0,0,0", " 1 , 2,3", "1,2", "a,b,c", "1,2,3,4", "-1,2,3", "1_0,2,3",
             "18446744073709551616,0,0", "18446744073709551615,1,1", "", "3,,1", "+1,2,3", "1.0,2,3"]


def fq(x):
    f = Fraction(float(x))
    return [f.numerator, f.denominator]


def unq(v):
    return Fraction(v[0], v[1])


def random_affine(rng, np):
    kind = rng.choice(["general", "general", "general", "perm", "identity", "diag", "extreme"])
    if kind == "identity":
        A = np.eye(3)
    elif kind == "diag":
        A = np.diag([rng.choice([-1, 1]) * rng.choice([0.5, 1.0, 1.5, 0.02, 3.0]) for _ in range(3)])
    elif kind == "perm":
        p = rng.sample(range(3), 3)
        A = np.zeros((3, 3))
        for i in range(3):
            A[i, p[i]] = rng.choice([-1, 1]) * rng.choice([0.5, 1.0, 2.0, 1.5, 0.3])
    else:
        q, _ = np.linalg.qr(np.array([[rng.gauss(0, 1) for _ in range(3)] for _ in range(3)]))
        shear = np.eye(3)
        shear[0, 1] = rng.uniform(-1.5, 1.5)
        shear[0, 2] = rng.uniform(-1.5, 1.5)
        shear[1, 2] = rng.uniform(-1.5, 1.5)
        lo, hi = (-3, 2) if kind == "extreme" else (-1, 1)
        sc = np.diag([rng.choice([-1, 1]) * 10 ** rng.uniform(lo, hi) for _ in range(3)])
        A = q @ shear @ sc
    t = np.array([rng.choice([0.0, rng.uniform(-100, 100), rng.uniform(-1e5, 1e5)]) for _ in range(3)])
    aff = np.eye(4)
    aff[:3, :3] = A
    aff[:3, 3] = t
    return aff, kind


def pair_describes(info, tr, affine, shape, rng):
    """Oracle on a (info_fullres.json, transform.json) pair: does it describe
    the volume with this affine (float64 array) and header shape?  Returns
    None or a reason.  Exact rational arithmetic, tolerance 2^-40."""
    Aq = [[Fraction(float(x)) for x in row] for row in affine.tolist()]
    try:
        sc = info["scales"][0]
        res = sc["resolution"]
        if sc["size"] != list(shape[:3]):
            return f"size {sc['size']} is not the volume's {list(shape[:3])}"
        for j in range(3):
            norm2 = sum(Aq[a][j] ** 2 for a in range(3)) * 10 ** 12
            if abs(Fraction(res[j]) ** 2 - norm2) > norm2 * TOL * 4:
                return f"resolution[{j}] = {res[j]} is not the voxel size in nm"
        M = [[Fraction(x) for x in row] for row in tr]
        if M[3] != [0, 0, 0, 1]:
            return "last row of the transform"
        for idx in [(0, 0, 0), tuple(d - 1 for d in shape[:3]), tuple(rng.randrange(0, 500) for _ in range(3))]:
            ng = [(Fraction(idx[j]) + Fraction(1, 2)) * Fraction(res[j]) for j in range(3)]
            for a in range(3):
                got = sum(M[a][j] * ng[j] for j in range(3)) + M[a][3]
                want = (sum(Aq[a][j] * idx[j] for j in range(3)) + Aq[a][3]) * 10 ** 6
                mag = (sum(abs(Aq[a][j]) * (idx[j] + 1) for j in range(3)) + abs(Aq[a][3])) * 10 ** 6
                if abs(got - want) > mag * TOL * 8:
                    return f"transform row {a} at voxel {idx}: {float(got)} instead of {float(want)}"
    except (KeyError, IndexError, TypeError, ValueError) as exc:
        return f"malformed: {exc!r}"
    return None


def run(R):
    import numpy as np
    import nibabel as nib
    from neuroglancer_scripts import transform as ngtransform
    from neuroglancer_scripts import volume_reader
    from neuroglancer_scripts.scripts import volume_to_precomputed
    logging.disable(logging.CRITICAL)
    R.rule = RULE
    rng = R.rng
    quick = R.tier == "quick"

    # ------------------------------------------------------------ dtype table (finite, exhaustive)
    names = ["uint8", "uint16", "uint32", "uint64", "int8", "int16", "int32", "int64", "float16", "float32",
             "float64", "complex64", "complex128", "bool"]
    replies = R.model.batch([("guess", Atom(n)) for n in names])
    for n, rep in zip(names, replies):
        g, imp, exact = str(rep[0]), rep[1] == Atom("true"), rep[2] == Atom("true")
        want_g = n if n in NG_TYPES else "float32"
        case = {"dtype": n}
        R.case(case)
        if g != want_g or imp != (n not in NG_TYPES):
            R.disagree("dtype guess table", case, [want_g, n not in NG_TYPES], [g, imp])
        np_exact = bool(np.can_cast(np.dtype(n), np.dtype(g), casting="safe"))
        if exact != np_exact:
            R.disagree("holds_exactly vs numpy can_cast(safe)", case, np_exact, exact)

    # ------------------------------------------------------------ --generate-info
    n_cases = 900 if quick else 5000
    n_sub = 10 if quick else 40
    cases = []
    for i in range(n_cases):
        aff, akind = random_affine(rng, np)
        layout = rng.choice(["3d", "3d", "3d", "4d", "4d", "rgb", "2d", "5d"] if i % 9 == 0 else
                            ["3d", "3d", "4d", "rgb"])
        dims = [rng.choice([1, 2, 3, 5, 8]) for _ in range(3)]
        if layout == "4d":
            shape = dims + [rng.choice([1, 2, 3, 4])]
        elif layout == "2d":
            shape = dims[:2]
        elif layout == "5d":
            shape = dims + [2, 2]
        else:
            shape = dims
        dt = "rgb" if layout == "rgb" else rng.choice(DTYPES)
        scaling = dt not in ("rgb", "float32", "float64", "complex64") and rng.random() < 0.3
        opts = []
        if rng.random() < 0.15:
            opts.append("--ignore-scaling")
        input_max = rng.random() < 0.1 and layout != "rgb"   # RGB + --input-max is read as one float64 channel
        if input_max:
            # a zero or negative upper bound is a legitimate window for negative-valued data
            opts += [["--input-max", "200"], ["--input-min=-200", "--input-max=0"], ["--input-max", "0"],
                     ["--input-min=-5", "--input-max=-1"], ["--input-min=0", "--input-max=0.0"]][(i // 3) % 5]
            R.count("input-window:" + " ".join(opts[-2:] if opts[-2].startswith("--input-min") else opts[-1:]))
        sh = SHARDINGS[(i // 2) % len(SHARDINGS)] if i % 2 == 0 else None   # every string, every run
        if sh is not None:
            opts.append("--sharding=" + sh)
        gz = rng.random() < 0.7
        if not gz:
            opts.append("--no-gzip")
        nifti2 = rng.random() < 0.4
        cases.append(dict(i=i, aff=aff, akind=akind, layout=layout, shape=shape, dt=dt, scaling=scaling,
                          opts=opts, sharding=sh, gz=gz, nifti2=nifti2, input_max=input_max))

    # stratified, not left to the random draw: wide unsigned files WITH header scaling converted with
    # --ignore-scaling (the stored integers are the values) and values float32 cannot represent
    for k, (dt_s, n2, scl, ign) in enumerate([("uint32", False, True, True), ("uint32", True, True, True),
                                              ("uint64", True, True, True), ("uint64", False, True, True),
                                              ("uint32", False, False, False), ("uint64", True, False, False),
                                              ("uint16", False, True, True), ("uint8", True, True, True),
                                              ("int32", False, False, False), ("int64", True, False, False),
                                              ("int32", True, True, True), ("int64", False, True, True),
                                              ("int16", False, False, False), ("int8", True, False, False)]):
        aff, akind = random_affine(rng, np)
        cases.append(dict(i=n_cases + k, aff=aff, akind=akind, layout="3d", shape=[2, 3, 2], dt=dt_s, scaling=scl,
                          opts=(["--ignore-scaling"] if ign else []), sharding=None, gz=True, nifti2=n2,
                          input_max=False, big=True))

    prepared = []
    for c in cases:
        i = c["i"]
        if c["dt"] == "rgb":
            data = np.zeros(c["shape"], dtype=[("R", "u1"), ("G", "u1"), ("B", "u1")])
        else:
            data = (np.arange(int(np.prod(c["shape"]))) % 100).reshape(c["shape"]).astype(c["dt"])
            if c.get("big"):
                ii = np.iinfo(c["dt"])
                top = int(ii.max)
                data.flat[1] = min(top, 2 ** 24 + 1)
                data.flat[2] = min(top, 2 ** 31 + 5)
                data.flat[3] = top
                if ii.min < 0:               # signed volumes really contain negative values
                    data.flat[4] = -5
                    data.flat[5] = int(ii.min)
        c["stored_values"] = None if c["dt"] in ("rgb", "complex64") else [v.item() for v in data.ravel()[:64]]
        cls = nib.Nifti2Image if c["nifti2"] else nib.Nifti1Image
        img = cls(data, c["aff"], dtype=data.dtype)
        # NIfTI files carry TWO transforms: img.affine is the sform when sform_code > 0, else the qform.
        # Stratified: both set and different (typical after registration), qform only, default (sform only).
        xf = ["sform-only", "sform+other-qform", "sform-only", "qform-only", "sform+other-qform"][i % 5]
        if c["dt"] != "rgb" and len(c["shape"]) >= 3:
            if xf == "sform+other-qform":
                qf = np.diag([rng.choice([0.7, 1.0, 2.5]), rng.choice([0.7, 1.0, 2.5]), rng.choice([0.4, 3.0]), 1.0])
                qf[:3, 3] = [rng.uniform(-50, 50) for _ in range(3)]
                img.set_sform(c["aff"], code=rng.choice([1, 2, 3, 4]))
                img.set_qform(qf, code=rng.choice([1, 2]))
            elif xf == "qform-only":
                qf = np.diag([rng.choice([-1, 1]) * rng.choice([0.5, 1.0, 2.0]), rng.choice([0.7, 1.5]),
                              rng.choice([0.4, 3.0]), 1.0])
                qf[:3, 3] = [rng.uniform(-50, 50) for _ in range(3)]
                img = cls(data, qf, dtype=data.dtype)
                img.set_sform(None, code=0)
                img.set_qform(qf, code=1)
            c["xform"] = xf
            R.count("nifti-transforms:" + xf)
        if c["scaling"]:
            img.header.set_slope_inter(2.0 if c.get("big") else rng.choice([2.0, 0.5, 1.0]),
                                       rng.choice([0.0, 1.0, -3.5]))
        path = os.path.join(R.tmp, f"v{i}.nii")
        nib.save(img, path)
        dest = os.path.join(R.tmp, f"d{i}")
        os.makedirs(dest)
        loaded = nib.load(path)
        faff = np.asarray(loaded.affine, dtype=float)
        vs = nib.affines.voxel_sizes(faff)
        # what the implementation will see as the scalar dtype
        proxy = loaded.dataobj
        ignore = "--ignore-scaling" in c["opts"]
        if c["input_max"]:
            in_dt = "float64"
            is_rgb = False
            raw = np.asarray(proxy[tuple(0 for _ in c["shape"])]).dtype
            if raw.names is not None:
                is_rgb = True
                in_dt = "uint8"
        else:
            if ignore:
                loaded2 = nib.load(path)
                loaded2.dataobj._slope = 1.0
                loaded2.dataobj._inter = 0.0
                raw = loaded2.dataobj[tuple(0 for _ in c["shape"])].dtype
            else:
                raw = proxy[tuple(0 for _ in c["shape"])].dtype
            is_rgb = raw.names is not None
            in_dt = raw[0].name if is_rgb else raw.name
        prepared.append((c, path, dest, faff, vs, in_dt, is_rgb))

    reqs = []
    for c, path, dest, faff, vs, in_dt, is_rgb in prepared:
        reqs.append(("info_transform", [[[fq(x) for x in row] for row in faff.tolist()], [fq(x) for x in vs[:3]]]
                     if len(vs) >= 3 else [[[fq(x) for x in row] for row in faff.tolist()], [fq(1)] * 3]))
        reqs.append(("info_assemble", [c["shape"], is_rgb, Atom(in_dt), [fq(x) for x in vs],
                                       (c["sharding"] or "").encode(), c["gz"]]))
    replies = R.model.batch(reqs)

    for k, (c, path, dest, faff, vs, in_dt, is_rgb) in enumerate(prepared):
        m_tr = replies[2 * k]
        m_info = model_outcome(replies[2 * k + 1])
        argv = ["volume-to-precomputed", "--generate-info", path, dest] + c["opts"]
        as_sub = k < n_sub
        if as_sub:
            r = subprocess.run([PY, "-m", "neuroglancer_scripts.scripts.volume_to_precomputed"] + argv[1:],
                               stdout=subprocess.PIPE, stderr=subprocess.PIPE, timeout=120)
            if r.returncode in (0, 4):
                impl = ["ok", r.returncode]
            elif b"Shard spec failed" in r.stderr:
                impl = ["Crash", "Exception"]
            else:
                impl = ["Crash", r.stderr.decode()[-200:]]
        else:
            impl = outcome_of(lambda: volume_to_precomputed.main(list(argv)))
        case = {"i": c["i"], "affine": faff.tolist(), "kind": c["akind"], "layout": c["layout"],
                "nifti_transforms": c.get("xform", "sform-only"),
                "shape": c["shape"], "dtype": c["dt"], "scaling": c["scaling"], "opts": c["opts"],
                "nifti2": c["nifti2"], "subprocess": as_sub}
        offdiag = any(abs(faff[a, b]) > 0 for a in range(3) for b in range(3) if a != b)
        R.case(case, nontrivial=offdiag or len({round(float(x), 9) for x in vs[:3]}) > 1)
        R.count(f"info:{c['layout']}:{c['dt']}{'+scl' if c['scaling'] else ''}:"
                f"{impl[1] if impl[0] == 'ok' else impl[1][:12]}")
        R.count(f"sharding:{c['sharding']!r}:{impl[0]}")
        # --- correspondence of the outcome
        if m_info[0] != "ok":
            want = ["Crash", "Exception"] if m_info == ["Crash", "RuntimeError"] else m_info
            if impl != want:
                R.disagree("generate-info outcome vs info_assemble", case, impl, m_info)
            if os.listdir(dest):
                R.violation("files written although the sharding option was rejected", case,
                            {"files": os.listdir(dest)})
            continue
        mi = m_info[1]
        want_rc = 4 if mi[5] == Atom("true") else 0
        if impl != ["ok", want_rc]:
            R.disagree("generate-info exit status vs model", case, impl, ["ok", want_rc])
            if not (impl[0] == "ok" and impl[1] in (0, 4)):
                continue
        try:
            with open(os.path.join(dest, "info_fullres.json")) as f:
                info = json.load(f)
            with open(os.path.join(dest, "transform.json")) as f:
                tr = json.load(f)
        except Exception as exc:  # noqa: BLE001
            R.violation("info_fullres.json / transform.json missing or not JSON", case, {"error": repr(exc)})
            continue
        sc = info["scales"][0]
        # --- model vs implementation: info fields
        m_sh = None if isinstance(mi[4], Atom) else {
            "@type": "neuroglancer_uint64_sharded_v1", "minishard_bits": mi[4][0], "shard_bits": mi[4][1],
            "hash": "identity",
            "minishard_index_encoding": "gzip" if mi[4][3] == Atom("true") else "raw",
            "data_encoding": "gzip" if mi[4][3] == Atom("true") else "raw", "preshift_bits": mi[4][2]}
        got_fields = [info.get("num_channels"), info.get("data_type"), sc.get("size"), sc.get("sharding")]
        if got_fields != [mi[0], str(mi[1]), mi[2], m_sh]:
            R.disagree("info fields vs info_assemble", case, got_fields, [mi[0], str(mi[1]), mi[2], m_sh])
        if info.get("type") != "image" or sc.get("encoding") != "raw" or sc.get("voxel_offset") != [0, 0, 0] \
                or set(info) != {"type", "num_channels", "data_type", "scales"} or len(info["scales"]) != 1:
            R.violation("info_fullres.json: fixed fields differ from the documented ones", case, {"info": info})
        res = sc.get("resolution")
        m_res = [unq(v) for v in mi[3]]
        if len(res) != len(m_res) or any(abs(Fraction(a) - b) > abs(b) * TOL for a, b in zip(res, m_res)):
            R.disagree("resolution vs voxel size x 1e6 (model)", case, res, [float(x) for x in m_res])
        in_domain = c["layout"] in ("3d", "4d", "rgb")
        if not in_domain:
            R.count("out-of-domain layout (correspondence only)")
            continue
        # --- model vs implementation: transform (tolerance: float rounding is not modelled)
        mt = [[unq(x) for x in row] for row in m_tr]
        Aq = [[Fraction(float(x)) for x in row] for row in faff.tolist()]
        sq = [Fraction(float(x)) for x in vs[:3]]
        bad = None
        for a in range(4):
            for b in range(4):
                if a < 3 and b == 3:
                    mag = abs(Aq[a][3]) * 10 ** 6 + sum(abs(Aq[a][j]) / sq[j] * sq[j] * 10 ** 6 for j in range(3))
                else:
                    mag = abs(mt[a][b])
                if abs(Fraction(tr[a][b]) - mt[a][b]) > mag * TOL:
                    bad = (a, b, tr[a][b], float(mt[a][b]))
        if bad:
            R.disagree("transform.json vs info_transform (beyond 2^-40)", case, bad, "model entry")
        # --- oracle: the property, on what was written
        hdr_shape = list(nib.load(path).header.get_data_shape())
        exp_ch = 3 if is_rgb else (hdr_shape[3] if len(hdr_shape) >= 4 else 1)
        if sc.get("size") != hdr_shape[:3] or info.get("num_channels") != exp_ch:
            R.violation("info does not state the volume's size / channel count", case,
                        {"size": sc.get("size"), "num_channels": info.get("num_channels")})
        holds = bool(np.can_cast(np.dtype(in_dt), np.dtype(info["data_type"]), casting="safe"))
        if info["data_type"] not in NG_TYPES or not (holds or impl[1] == 4) or \
                (impl[1] == 0 and info["data_type"] != in_dt):
            R.violation("data_type cannot hold the values and the run did not flag it", case,
                        {"input": in_dt, "guessed": info["data_type"], "rc": impl[1]})
        if c["sharding"] and sc.get("sharding") is not None:
            # the option is "minishard_bits,shard_bits,preshift_bits"
            try:
                want_bits = [int(x) for x in c["sharding"].split(",")]
            except ValueError:
                want_bits = None
            got_bits = [sc["sharding"].get("minishard_bits"), sc["sharding"].get("shard_bits"),
                        sc["sharding"].get("preshift_bits")]
            enc = "gzip" if c["gz"] else "raw"
            if want_bits is None or len(want_bits) != 3 or got_bits != want_bits or \
                    sc["sharding"].get("@type") != "neuroglancer_uint64_sharded_v1" or \
                    sc["sharding"].get("hash") != "identity" or \
                    [sc["sharding"].get("data_encoding"), sc["sharding"].get("minishard_index_encoding")] != [enc, enc]:
                R.violation("sharding specification in the info is not the one requested "
                            "(minishard_bits, shard_bits, preshift_bits)", case,
                            {"requested": c["sharding"], "info": sc["sharding"]})
        if in_dt == c["dt"] and c.get("stored_values") is not None and not c["input_max"] and \
                info["data_type"] in NG_TYPES and np.issubdtype(np.dtype(info["data_type"]), np.integer):
            # the values of the volume are the stored numbers (no scaling applies, or it is ignored): an
            # integer data_type must contain every one of them
            st_i = np.iinfo(np.dtype(info["data_type"]))
            outside = [v for v in c["stored_values"] if not int(st_i.min) <= v <= int(st_i.max)]
            if outside:
                R.violation("data_type cannot hold the values of the volume", case,
                            {"values_type": in_dt, "stated": info["data_type"], "not_representable": outside[:3]})
        if in_dt in NG_TYPES and c.get("stored_values") is not None and not c["input_max"]:
            # the values of the volume (stored numbers: no scaling applies, or it is to be ignored) are of a
            # type Neuroglancer has: the stated type must represent every one of them
            st = np.dtype(info["data_type"]) if info["data_type"] in NG_TYPES else None
            lost = [v for v in c["stored_values"]
                    if st is None or (np.issubdtype(st, np.integer) and not 0 <= v <= int(np.iinfo(st).max))
                    or (st == np.float32 and float(np.float32(v)) != v)]
            if lost:
                R.violation("data_type cannot hold the values of the volume", case,
                            {"values_type": in_dt, "stated": info["data_type"], "not_representable": lost[:3]})
        for j in range(3):
            norm2 = sum(Aq[a][j] ** 2 for a in range(3)) * 10 ** 12
            if abs(Fraction(res[j]) ** 2 - norm2) > norm2 * TOL * 4:
                R.violation("resolution is not the voxel size in nanometres", case,
                            {"axis": j, "resolution": res[j]})
        M = [[Fraction(x) for x in row] for row in tr]
        if M[3] != [0, 0, 0, 1]:
            R.violation("transform: last row is not 0 0 0 1", case, {"row": tr[3]})
        pts = [(0, 0, 0), tuple(d - 1 for d in hdr_shape[:3]), (1, 0, 0), (0, 1, 0), (0, 0, 1),
               tuple(rng.randrange(0, 2000) for _ in range(3))]
        for idx in pts:
            ng = [(Fraction(idx[j]) + Fraction(1, 2)) * Fraction(res[j]) for j in range(3)]
            for a in range(3):
                got = sum(M[a][j] * ng[j] for j in range(3)) + M[a][3]
                want = (sum(Aq[a][j] * idx[j] for j in range(3)) + Aq[a][3]) * 10 ** 6
                mag = (sum(abs(Aq[a][j]) * (idx[j] + 1) for j in range(3)) + abs(Aq[a][3])) * 10 ** 6
                if abs(got - want) > mag * TOL * 8:
                    R.violation("transform does not map the corner-based voxel coordinate to the affine's "
                                "voxel centre", case, {"voxel": idx, "row": a, "got": float(got),
                                                       "want": float(want)})
                    break
            else:
                continue
            break

    # ------------------------------------------------------------ sequences
    def make_volume(tag):
        aff, _k = random_affine(rng, np)
        while abs(np.linalg.det(aff[:3, :3])) < 1e-9:
            aff, _k = random_affine(rng, np)
        shape = [rng.choice([1, 2, 3, 5, 8]) for _ in range(3)]
        dt = rng.choice(["uint8", "uint16", "float32", "int16"])
        cls = nib.Nifti2Image if rng.random() < 0.5 else nib.Nifti1Image
        path = os.path.join(R.tmp, f"seq_{tag}.nii")
        nib.save(cls(np.zeros(shape, dtype=dt), aff, dtype=np.dtype(dt)), path)
        loaded = nib.load(path)
        return path, np.array(loaded.affine, dtype=float), list(loaded.header.get_data_shape())

    def read_pair(dest):
        out = {}
        for fn in ("info_fullres.json", "transform.json"):
            fp = os.path.join(dest, fn)
            out[fn] = open(fp, "rb").read() if os.path.exists(fp) else None
        return out

    # (a) --generate-info twice into the same destination, for two different volumes
    n_seq = 40 if quick else 300
    for k in range(n_seq):
        pa, affa, sha = make_volume(f"a{k}")
        pb, affb, shb = make_volume(f"b{k}")
        dest = os.path.join(R.tmp, f"seqd{k}")
        os.makedirs(dest)
        opts = [] if rng.random() < 0.6 else ["--no-gzip"]
        as_sub = k < (3 if quick else 10)

        def gen(path):
            argv = ["volume-to-precomputed", "--generate-info", path, dest] + opts
            if as_sub:
                r = subprocess.run([PY, "-m", "neuroglancer_scripts.scripts.volume_to_precomputed"] + argv[1:],
                                   stdout=subprocess.PIPE, stderr=subprocess.PIPE, timeout=120)
                return ["ok", r.returncode] if r.returncode in (0, 1, 4) else ["Crash", r.stderr.decode()[-200:]]
            return outcome_of(lambda: volume_to_precomputed.main(list(argv)))
        first = gen(pa)
        pair1 = read_pair(dest)
        same_volume = rng.random() < 0.15
        second = gen(pa if same_volume else pb)
        pair2 = read_pair(dest)
        case = {"sequence": "generate-info twice, same destination", "first_affine": affa.tolist(),
                "second_affine": (affa if same_volume else affb).tolist(), "first_shape": sha,
                "second_shape": sha if same_volume else shb, "same_volume": same_volume, "subprocess": as_sub}
        R.case(case, nontrivial=True)
        R.count(f"seq:generate-twice:{'same' if same_volume else 'other'}-volume:second-rc="
                f"{second[1] if second[0] == 'ok' else second[0]}")
        if first[0] != "ok" or first[1] not in (0, 4) or None in pair1.values():
            R.violation("first --generate-info into an empty directory failed", case, {"impl": first})
            continue
        # correspondence with the code as it is: the second run is refused (exclusive create), nothing changes
        if second != ["ok", 1] or pair2 != pair1:
            R.disagree("second --generate-info into the same destination: expected return code 1 and "
                       "unchanged files", case, [second, {k2: (v == pair1[k2]) for k2, v in pair2.items()}],
                       [["ok", 1], "files unchanged"])
        # oracle: whatever the run reports, the pair left behind describes ONE volume, and a success
        # status means it is the volume just given
        try:
            info2, tr2 = json.loads(pair2["info_fullres.json"]), json.loads(pair2["transform.json"])
        except Exception as exc:  # noqa: BLE001
            R.violation("info_fullres.json / transform.json unreadable after the second run", case,
                        {"error": repr(exc)})
            continue
        why_a = pair_describes(info2, tr2, affa, sha, rng)
        why_b = why_a if same_volume else pair_describes(info2, tr2, affb, shb, rng)
        if second[0] == "ok" and second[1] in (0, 4):
            if why_b is not None:
                R.violation("--generate-info reported success but info and transform do not both describe "
                            "the volume given", case, {"reason": why_b, "rc": second[1]})
        elif why_a is not None and why_b is not None:
            R.violation("after a refused --generate-info the destination holds a mixed info/transform pair",
                        case, {"vs_first": why_a, "vs_second": why_b, "impl": second})

    # (c) the same FILE NAME holding different volumes one after the other, in this one process
    specs = [("uint8", None), ("uint16", None), ("uint32", None), ("int16", None), ("float32", None),
             ("uint16", "scaled"), ("uint8", "scaled"), ("rgb", None), ("uint16", "4d"), ("uint8", "ignore-scaled")]

    def expected_of(spec):
        dt_s, mode = spec
        if dt_s == "rgb":
            return "uint8", 3
        ch = 2 if mode == "4d" else 1
        if mode == "scaled":
            return "float32", ch
        return (dt_s if dt_s in NG_TYPES else "float32"), ch

    def write_spec(path, spec):
        dt_s, mode = spec
        shape = [2, 3, 2] + ([2] if mode == "4d" else [])
        if dt_s == "rgb":
            data = np.zeros(shape, dtype=[("R", "u1"), ("G", "u1"), ("B", "u1")])
        else:
            data = (np.arange(int(np.prod(shape))) % 50).reshape(shape).astype(dt_s)
        img = nib.Nifti1Image(data, np.diag([1.5, 2.0, 0.5, 1.0]), dtype=data.dtype)
        if mode in ("scaled", "ignore-scaled"):
            img.header.set_slope_inter(2.0, 1.0)
        nib.save(img, path)
        return shape

    for k in range(30 if quick else 200):
        s1 = specs[k % len(specs)]
        s2 = specs[(k * 3 + 1 + k // len(specs)) % len(specs)]
        if expected_of(s1) == expected_of(s2):
            s2 = specs[(specs.index(s2) + 1) % len(specs)]
        path = os.path.join(R.tmp, f"same_{k}.nii")
        via = ["command", "volume_file_to_info", "nibabel_image_to_info"][k % 3]
        results = []
        for step, spec in enumerate((s1, s2)):
            shape = write_spec(path, spec)
            ign = spec[1] == "ignore-scaled"
            dest = os.path.join(R.tmp, f"same_{k}_{step}")
            os.makedirs(dest)

            def one():
                if via == "command":
                    volume_to_precomputed.main(["volume-to-precomputed", "--generate-info", path, dest]
                                               + (["--ignore-scaling"] if ign else []))
                elif via == "volume_file_to_info":
                    volume_reader.volume_file_to_info(path, dest, ignore_scaling=ign, options={})
                else:
                    fi, _jt, _dt, _imp = volume_reader.nibabel_image_to_info(nib.load(path), ignore_scaling=ign)
                    return json.loads(fi)
                with open(os.path.join(dest, "info_fullres.json")) as f:
                    return json.load(f)
            results.append((spec, shape, outcome_of(one)))
        case = {"sequence": "same file name, two volumes, one process (" + via + ")",
                "first": list(s1), "second": list(s2)}
        R.case(case, nontrivial=True)
        R.count("seq:same-path:" + via)
        for which, (spec, shape, r) in zip(("first", "second"), results):
            want_dt, want_ch = expected_of(spec)
            if r[0] != "ok":
                R.violation(f"info generation failed for the {which} volume written at the path", case,
                            {"impl": r})
                break
            got = [r[1].get("data_type"), r[1].get("num_channels"), r[1]["scales"][0].get("size")]
            if got != [want_dt, want_ch, shape[:3]]:
                R.violation(f"info of the {which} volume written at this path does not describe that volume "
                            "(data type / channel count / size)", case,
                            {"got": got, "want": [want_dt, want_ch, shape[:3]]})
                break

    # (b) the same loaded image object used twice
    n_obj = 60 if quick else 400
    for k in range(n_obj):
        path, aff, shape = make_volume(f"o{k}")
        img = nib.load(path)
        before = np.array(img.affine, dtype=float)
        opts = {"sharding": rng.choice([None, None, "1,1,0"]), "gzip": True}
        how = rng.choice(["info-info", "store-info", "store-store"])
        case = {"sequence": "same image object twice: " + how, "affine": aff.tolist(), "shape": shape,
                "sharding": opts["sharding"]}
        R.case(case, nontrivial=True)
        R.count("seq:same-object:" + how)

        def call(i):
            if how == "info-info" or (how == "store-info" and i == 1):
                fi, jt, dt_, imp = volume_reader.nibabel_image_to_info(img, options=opts)
                return [json.loads(fi), [[float(x) for x in row] for row in jt], dt_.name, bool(imp)]
            dest = os.path.join(R.tmp, f"obj{k}_{i}")
            os.makedirs(dest)
            from neuroglancer_scripts import accessor as ngacc
            acc = ngacc.get_accessor_for_url(dest, {"gzip": True})
            rc = volume_reader.store_nibabel_image_to_fullres_info(img, acc, options=opts)
            pr = read_pair(dest)
            return [json.loads(pr["info_fullres.json"]), json.loads(pr["transform.json"]), None, rc in (4,)]
        r1 = outcome_of(lambda: call(0))
        mid = np.array(img.affine, dtype=float)
        r2 = outcome_of(lambda: call(1))
        after = np.array(img.affine, dtype=float)
        if r1[0] != "ok" or r2[0] != "ok":
            R.violation("info generation failed on a valid image", case, {"first": r1[0], "second": r2[0]})
            continue
        if not (np.array_equal(before, mid) and np.array_equal(before, after)):
            R.violation("generating the info modified the affine of the caller's image object", case,
                        {"before": before.tolist(), "after": after.tolist()})
        for which, r in (("first", r1[1]), ("second", r2[1])):
            why = pair_describes(r[0], r[1], aff, shape, rng)
            if why is not None:
                R.violation(f"{which} result obtained from the same image object does not describe the volume",
                            case, {"reason": why})
                break
        if r1[1][0] != r2[1][0] or r1[1][1] != r2[1][1] or r1[1][3] != r2[1][3]:
            R.disagree("two generations from the same image object differ", case,
                       {"res": r1[1][0]["scales"][0]["resolution"], "t": [row[3] for row in r1[1][1]]},
                       {"res": r2[1][0]["scales"][0]["resolution"], "t": [row[3] for row in r2[1][1]]})

    # ------------------------------------------------------------ nifti_to_neuroglancer_transform alone
    tcases = []
    for _ in range(600 if quick else 3000):
        exact = rng.random() < 0.5
        if exact:
            m = [[float(rng.randrange(-64, 65)) / rng.choice([1, 2, 4]) for _ in range(4)] for _ in range(4)]
            v = [float(rng.randrange(0, 33)) / rng.choice([1, 2, 4]) for _ in range(3)]
        else:
            m = [[rng.uniform(-5, 5) for _ in range(4)] for _ in range(4)]
            v = [10 ** rng.uniform(-3, 3) for _ in range(3)]
        tcases.append((m, v, exact))
    replies = R.model.batch([("nifti_to_ng", [[[fq(x) for x in row] for row in m], [fq(x) for x in v]])
                             for m, v, _e in tcases])
    for ti, ((m, v, exact), rep) in enumerate(zip(tcases, replies)):
        src = np.array(m)
        # the voxel size is handed over as a list, a float64 array (what nibabel's voxel_sizes returns), a tuple
        # or a read-only array; whatever it is, it is the caller's and must come back unchanged
        vform = ["list", "float64-array", "tuple", "readonly-array"][ti % 4]
        varg = {"list": list(v), "float64-array": np.array(v, dtype=np.float64), "tuple": tuple(v),
                "readonly-array": np.array(v, dtype=np.float64)}[vform]
        if vform == "readonly-array":
            varg.setflags(write=False)
        impl = outcome_of(lambda: ngtransform.nifti_to_neuroglancer_transform(src, varg).tolist())
        case = {"matrix": m, "voxel_size": v, "exact": exact, "voxel_size_given_as": vform}
        if [float(x) for x in varg] != [float(x) for x in v]:
            R.violation("nifti_to_neuroglancer_transform modified the voxel size it was given", case,
                        {"now": [float(x) for x in varg]})
        R.case(case, nontrivial=True)
        R.count("nifti_to_ng:" + ("dyadic-exact" if exact else "float"))
        if impl[0] != "ok":
            R.violation("nifti_to_neuroglancer_transform failed", case, {"impl": impl})
            continue
        if src.tolist() != m:
            R.violation("nifti_to_neuroglancer_transform modified its argument", case, {})
        mt = [[unq(x) for x in row] for row in rep]
        for a in range(4):
            for b in range(4):
                got = Fraction(impl[1][a][b])
                mag = abs(mt[a][b]) if not (a < 3 and b == 3) else \
                    abs(Fraction(m[a][3])) + sum(abs(Fraction(m[a][j]) * Fraction(v[j])) for j in range(3))
                tol = 0 if exact else mag * TOL
                if abs(got - mt[a][b]) > tol:
                    R.disagree("nifti_to_neuroglancer_transform vs nifti_to_ng", case, impl[1], "model")
        # oracle: ret . (x + v/2) == m . x for the first three rows
        x = [Fraction(rng.randrange(-50, 50)) for _ in range(3)]
        for a in range(3):
            lhs = sum(Fraction(impl[1][a][j]) * (x[j] + Fraction(v[j]) / 2) for j in range(3)) + Fraction(impl[1][a][3])
            rhs = sum(Fraction(m[a][j]) * x[j] for j in range(3)) + Fraction(m[a][3])
            mag = sum(abs(Fraction(m[a][j])) * (abs(x[j]) + Fraction(v[j])) for j in range(3)) + abs(Fraction(m[a][3]))
            if abs(lhs - rhs) > mag * TOL * 4:
                R.violation("half-voxel compensation wrong", case, {"row": a})
        if impl[1][3] != m[3]:
            R.violation("last row changed", case, {})

    # ------------------------------------------------------------ compact URL form
    jcases = []
    specials = [0.0, -0.0, 1.0, -1.0, 1.5, 1e16, 1e15, 123456789012345.0, 2.0 ** 53, 1e22, 1e-7, 0.1, -2.5e-5,
                11000000.0, -20750000.0, 1e21, 999999999999999.9, 5e-324, 1.7976931348623157e308]
    for _ in range(500 if quick else 2000):
        rows = rng.choice([1, 3, 4])
        cols = rng.choice([1, 4])
        mat = [[rng.choice(specials + [float(rng.randrange(-10 ** 9, 10 ** 9)), rng.uniform(-1e7, 1e7),
                                       float(rng.randrange(-5, 6))]) for _ in range(cols)] for _ in range(rows)]
        jcases.append(mat)
    reqs = []
    for mat in jcases:
        reqs.append(("compact_json", [[[str(np.float64(x)).encode(),
                                        int(x) if (x == x and abs(x) != float("inf") and int(x) == x)
                                        else Atom("none")] for x in row] for row in mat]))
    replies = R.model.batch(reqs)
    for mat, rep in zip(jcases, replies):
        npmat = [list(r) for r in np.array(mat, dtype=float).reshape(len(mat), len(mat[0]))]
        impl = outcome_of(lambda: ngtransform.matrix_as_compact_urlsafe_json(npmat))
        case = {"matrix": mat}
        R.case(case, nontrivial=True)
        m_text, m_tokens = rep
        if impl != ["ok", m_text.decode()]:
            R.disagree("matrix_as_compact_urlsafe_json vs compact_json", case, impl, m_text.decode())
        if impl[0] != "ok":
            R.violation("matrix_as_compact_urlsafe_json failed", case, {"impl": impl})
            continue
        text = impl[1]
        R.count("compact:" + ("has-int" if re.search(r"(?<![\d.e+-])-?\d+(?![\d.e])", text) else "floats-only"))
        try:
            back = json.loads(text.replace("_", ","))
        except ValueError:
            back = None
        if back != mat:
            R.violation("compact URL form does not parse back to the same matrix", case, {"text": text})
        m_toks = [[t.decode() for t in row] for row in m_tokens[1]] if str(m_tokens[0]) == "some" else None
        if m_toks is None or [[float(t) for t in row] for row in m_toks] != mat:
            R.violation("extracted compact_parse disagrees with json on the model's URL form", case,
                        {"tokens": m_toks})
        toks = None
        if text.startswith("[[") and text.endswith("]]"):
            toks = [row.split("_") for row in text[2:-2].split("]_[")]
        for row, trow in zip(mat, toks or []):
            for x, t in zip(row, trow):
                if str(x).endswith(".0") and not re.fullmatch(r"-?\d+", t):
                    R.violation("integer-valued entry not printed as an integer", case, {"x": x, "text": t})
                if any(ch in t for ch in ",\" "):
                    R.violation("URL-unsafe character in the compact form", case, {"text": t})
    R.notes.append("float rounding inside NumPy / nibabel (voxel_sizes uses sqrt; column division; "
                   "float32 sform of NIfTI-1) is not verified: relations are checked with tolerance 2^-40")
    R.notes.append("-0.0 entries print as 0 in the URL form (sign lost; numerically equal)")
    logging.disable(logging.NOTSET)


def replay(R, payload):
    """Re-executes the recorded run (generators are deterministic in the seed
    and tier stored in the replay file) and reports whether a failure of the
    recorded class is still observed on the current tree."""
    import random
    R.tier = payload.get("tier", R.tier)
    R.rng = random.Random(f"{R.pid}:{payload.get('seed', 0)}")
    run(R)
    want = payload.get("what")
    if payload.get("kind") == "property-violation":
        return any(v["what"] == want for v in R.violations) if want else bool(R.violations)
    return bool(R.violations or R.disagreements)
