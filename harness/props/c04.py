"""C04 — sharded output is readable by a reader that follows the sharded format.

Correspondence: real ShardedFileAccessor.store_chunk ... close()  vs  the writer
model (coq/theories/Shard/{MiniShard,ShardFile}.v): per-store outcomes and the
.shard files, byte for byte.
Oracle on what the IMPLEMENTATION wrote: extracted spec_fetch / WF
(ShardSpecReader.v) and the independent Python reader shardlib.py_spec_fetch.
"""
import itertools
import shutil

from harness.common import Atom
from harness.props import shardlib as L

RULE = ("datasets: grids 1..6 per axis (incl. 3x4x2, 1x1xk, primes), cubic chunk sizes {1,2,8,64}, "
        "(m,s,p) in {0..3}^3 plus large sums, raw/gzip index and data, subsets full/prefix/suffix/"
        "every-other/single/two/class-tail/random 30%/70%, orders sorted/reversed/random (+ all "
        "permutations of tiny sets), payloads 0..40 bytes, both buffering strategies. "
        "non-trivial = >= 3 chunks and (>= 2 shards or >= 2 minishards in a shard)")


def check_dataset_oracle(R, ds, files, case, spec_rep, wf_rep, ids, payload_of, extra_ids):
    """Apply the oracle verdicts (already computed by the extracted functions)
    to the implementation's files; classify failures."""
    m, s, p = ds["m"], ds["s"], ds["p"]
    used = L.used_minishards(ds, ids)
    bad_shards = {sh for sh, ms in used.items() if not L.is_initial_segment(ms)}
    R.count("used-minishards:" + ("initial-segment" if not bad_shards else "with-holes"))
    for cid, rep in zip(list(ids) + list(extra_ids), spec_rep):
        got = L.spec_reply(rep)
        second = L.py_spec_fetch(files, m, s, p, ds["ie"], ds["de"], cid)
        if got != second:
            R.violation("extracted spec_fetch and the Python specification reader disagree "
                        "(harness self-check)", case, {"id": cid, "extracted": got, "python": second})
            continue
        if cid not in payload_of:
            R.count("spec:never-stored:" + (got if isinstance(got, str) else
                                             ("found-empty" if not got[1] else "found-nonempty")))
            if not isinstance(got, str) and got[1]:
                R.violation("specification reader finds data for a chunk that was never stored",
                            case, {"id": cid, "got": got})
            continue
        want = ("found", payload_of[cid])
        if got == want:
            R.count("spec:stored:found")
            continue
        sh, mi = L.ref_route(m, s, p, cid)
        R.violation("stored chunk not retrievable by the specification reader", case,
                    {"id": cid, "shard": sh, "minishard": mi, "spec_fetch": got,
                     "stored": payload_of[cid], "used_minishards": sorted(used.get(sh, []))})
    for name, parse_ok, slot_ok, disj_ok in wf_rep:
        name = name.decode()
        if not (parse_ok == "true" and disj_ok == "true"):
            R.violation("shard file violates the layout predicates (parse / ranges / disjointness)",
                        case, {"file": name, "parse": str(parse_ok), "disjoint": str(disj_ok)})
        elif slot_ok != "true":
            R.violation("minishard index not at its minishard's slot", case,
                        {"file": name, "used_minishards": {str(k): sorted(v) for k, v in used.items()}})
        else:
            R.count("wf:ok")
    want_names = {L.ref_name(s, sh) for sh in used}
    if set(files) != want_names:
        R.violation("shard file names differ from the specification", case,
                    {"files": sorted(files), "expected": sorted(want_names)})


def run_datasets(R, datasets):
    """datasets: list of (ds, ops, strategy).  Runs implementation, model and oracle."""
    rng = R.rng
    impl = []
    reqs = []
    for i, (ds, ops, strategy) in enumerate(datasets):
        R.extra["_dir_counter"] = R.extra.get("_dir_counter", 0) + 1
        outs, closed, files, d = L.impl_write(R, ds, ops, strategy, f"w{R.extra['_dir_counter']}")
        shutil.rmtree(d, ignore_errors=True)        # contents are in memory now
        impl.append((outs, closed, files, d))
        reqs.append(L.run_request(ds, ops, L.Oracle()))
    reps = L.oracle_batch(R, reqs)
    oreqs = []
    meta = []
    for (ds, ops, strategy), (outs, closed, files, d), rep in zip(datasets, impl, reps):
        case = {k: ds[k] for k in ("grid", "cs", "sizes", "m", "s", "p", "ie", "de", "subset")}
        case["omit"] = ds.get("omit", [])
        case["huge"] = bool(ds.get("huge"))
        case.update({"ops": [list(o) for o in ops], "strategy": strategy})
        R.case(case, nontrivial=L.nontrivial(ds))
        R.count(f"subset:{ds['subset']}")
        R.count(f"enc:{ds['ie']}/{ds['de']}")
        R.count(f"strategy:{strategy}")
        R.count("bits:" + ("large-sum" if ds["m"] + ds["s"] + ds["p"] > 9 else "small"))
        m_outs, m_files = L.parse_run_reply(rep)
        if outs != m_outs:
            R.disagree("per-store outcomes", case, outs, m_outs)
        if closed != ["ok", "none"]:
            R.violation("close() raised on a valid store sequence", case, {"close": closed})
        plain = L.model_files_plain(m_files)
        if plain != files:
            R.disagree("shard files after close", case,
                       {k: v for k, v in files.items()}, m_files)
        # oracle on the implementation's files
        g = ds["grid"]
        cs = ds["cs"]
        payload_of = {}
        for (x, y, z, pl), o in zip(ops, outs):
            if o[0] == "ok":
                payload_of[L.ref_cmc(g, (x // cs, y // cs, z // cs))] = pl
        ids = sorted(payload_of)
        if ds.get("huge"):
            never = [L.ref_cmc(g, [rng.randrange(k) for k in g]) for _ in range(6)]
            never = [c for c in never if c not in payload_of]
        else:
            all_ids = [L.ref_cmc(g, c) for c in itertools.product(*[range(k) for k in g])]
            never = [c for c in all_ids if c not in payload_of]
        extra = rng.sample(never, min(len(never), 6))
        orc = L.Oracle()
        cfg = L.cfg_of(ds)
        fa = L.files_arg(files)
        oreqs.append(("c04_spec_fetch", (lambda t, cfg=cfg, fa=fa, q=ids + extra: [cfg, t, fa, q]),
                      orc, "decomp"))
        oreqs.append(("c04_wf", (lambda t, cfg=cfg, fa=fa: [cfg, t, fa]), orc, "decomp"))
        meta.append((ds, files, case, ids, payload_of, extra))
    oreps = L.oracle_batch(R, oreqs)
    for k, (ds, files, case, ids, payload_of, extra) in enumerate(meta):
        check_dataset_oracle(R, ds, files, case, oreps[2 * k], oreps[2 * k + 1], ids, payload_of, extra)


def witness_dataset():
    """The witness of the former slot-placement defect (repaired in /repo
    49f2991), kept as the first dataset of every run: 3x4x2 grid, chunk
    size 8, minishard_bits 2, shard_bits 2, preshift 0, every chunk stored;
    shard 2 holds identifiers 8 and 10, i.e. minishards {0, 2}."""
    g = (3, 4, 2)
    coords = sorted(itertools.product(range(3), range(4), range(2)), key=lambda c: L.ref_cmc(g, c))
    return {"grid": list(g), "cs": 8, "sizes": [24, 32, 16], "m": 2, "s": 2, "p": 0,
            "ie": "raw", "de": "raw", "subset": "full", "sel": [list(c) for c in coords],
            "payloads": [bytes([L.ref_cmc(g, c)]) * 3 for c in coords]}


def run(R):
    R.rule = RULE
    rng = R.rng
    quick = R.tier == "quick"
    n = 900 if quick else 9000
    datasets = [(witness_dataset(), None, "in memory")]
    datasets[0] = (datasets[0][0], L.order_ops(datasets[0][0], rng, "sorted"), "in memory")
    for i in range(n):
        ds = L.gen_dataset(rng, i)
        order = rng.choice(["sorted", "reversed", "random", "random"])
        strategy = rng.choice(["in memory", "on disk", None])
        datasets.append((ds, L.order_ops(ds, rng, order), strategy))
        R.count(f"order:{order}")
    # grids whose identifiers need 54..64 bits (not exact doubles); deterministic set
    for i in range(12 if quick else 60):
        ds = L.gen_huge_dataset(rng, i)
        datasets.append((ds, L.order_ops(ds, rng, ["sorted", "reversed", "random"][i % 3]),
                         ["in memory", "on disk", None][i % 3]))
        R.count("order:huge-grid")
    # writers in a child interpreter: default strategy, python -O, exit without an explicit close
    for i, flags in enumerate(["child:noclose", "child:O:noclose", "child:O", "child:noclose:mem"]):
        ds = L.gen_gappy_dataset(rng, 7000 + i)
        datasets.append((ds, L.order_ops(ds, rng, "reversed"), flags))
        R.count("order:child-writer")
    # minishards with more than 64 KiB of data (block-wise copying of the write buffers)
    for i in range(3 if quick else 9):
        ds = L.gen_bigpayload_dataset(rng, i)
        datasets.append((ds, L.order_ops(ds, rng, ["random", "sorted", "reversed"][i % 3]),
                         ["in memory", "in memory", "on disk"][i % 3]))
        R.count("order:big-payloads")
    # all permutations of tiny chunk sets (one minishard, <= 4 or 5 entries)
    for _ in range(14 if quick else 80):
        k = rng.randrange(2, 5 if quick else 6)
        ds = L.gen_dataset(rng, 10 ** 6)
        if len(ds["sel"]) < k:
            continue
        pick = rng.sample(range(len(ds["sel"])), k)
        ds["sel"] = [ds["sel"][i] for i in pick]
        ds["payloads"] = [ds["payloads"][i] for i in pick]
        ds["subset"] = f"perm{k}"
        for perm in itertools.permutations(range(k)):
            datasets.append((ds, L.order_ops(ds, rng, perm), rng.choice(["in memory", "on disk"])))
            R.count("order:all-permutations")
    chunk = 400
    for a in range(0, len(datasets), chunk):
        try:
            run_datasets(R, datasets[a:a + chunk])
        except L.ImplAbort:
            break
        except Exception:  # noqa: BLE001 - keep the violations found so far reportable
            import traceback
            R.disagree("run_datasets: the implementation left the harness in an unexpected state",
                       {"datasets": [a, a + chunk]}, traceback.format_exc()[-1500:], "no exception")
    try:
        L.run_large_cases(R, "C04")
    except L.ImplAbort:
        pass
    try:
        L.run_info_sessions(R, 70 if quick else 1500, "C04")
    except L.ImplAbort:
        pass
    except Exception:  # noqa: BLE001
        import traceback
        R.disagree("info sessions: the implementation left the harness in an unexpected state",
                   {"stream": "info-sessions"}, traceback.format_exc()[-1500:], "no exception")
    R.extra.pop("_dir_counter", None)
    R.notes.append("zlib.compress / zlib.decompress are an oracle: the model is handed the real "
                   "library's answers for exactly the byte strings it asks for")
    R.notes.append("grids up to 6x6x6; the theorems cover all grids, the correspondence samples them")


def _replay_once(R, payload):
    """Re-run the recorded case; True iff it still fails."""
    case = payload.get("case") or {}
    if not case and payload.get("disagreements"):
        case = payload["disagreements"][0].get("case") or {}
    if str(case.get("subset", "")).startswith("large:"):
        before0 = (len(R.violations), len(R.disagreements))
        try:
            L.run_large_cases(R, "C04")
        except (L.ImplAbort, L.ImplHang):
            return True
        return (len(R.violations), len(R.disagreements)) != before0
    if case.get("stream") == "info-sessions" and "steps" in case:
        return L.replay_info_session(R, case, "C04")
    if "ops" not in case and "grid" in case:
        # hang report: only the dataset parameters were recorded; store the whole grid
        g = case["grid"]
        coords = sorted(itertools.product(*[range(k) for k in g]), key=lambda c: L.ref_cmc(g, c))
        ds = {k: case[k] for k in ("grid", "cs", "sizes", "m", "s", "p", "ie", "de")}
        ds.update(subset="full", sel=[list(c) for c in coords],
                  payloads=[bytes([i % 251]) * (i % 7) for i in range(len(coords))])
        before = (len(R.violations), len(R.disagreements))
        try:
            run_datasets(R, [(ds, L.order_ops(ds, R.rng, "reversed"), "in memory"),
                             (ds, L.order_ops(ds, R.rng, "random"), "on disk")])
        except L.ImplAbort:
            return True
        return (len(R.violations), len(R.disagreements)) != before
    if "ops" not in case:
        run(R)
        return bool(R.violations or R.disagreements)
    ds = {k: case[k] for k in ("grid", "cs", "sizes", "m", "s", "p", "ie", "de", "subset")}
    ds["omit"] = case.get("omit", [])
    ds["huge"] = case.get("huge", False)
    ops = [tuple(o[:3]) + (bytes.fromhex(o[3][1:]) if isinstance(o[3], str) else bytes(o[3]),)
           for o in case["ops"]]
    cs = ds["cs"]
    ds["sel"] = [[o[0] // cs, o[1] // cs, o[2] // cs] for o in ops]
    ds["payloads"] = [o[3] for o in ops]
    before = (len(R.violations), len(R.disagreements))
    run_datasets(R, [(ds, ops, case.get("strategy"))])
    return (len(R.violations), len(R.disagreements)) != before


def replay(R, payload):
    """The history variant (plain / reused caller buffer / second scale after a
    close) is drawn from the PRNG in a run: a replay tries each of them."""
    for mode in (0.9, 0.1, 0.3):
        R.extra["_force_mode"] = mode
        try:
            if _replay_once(R, payload):
                return True
        finally:
            R.extra.pop("_force_mode", None)
    return False
