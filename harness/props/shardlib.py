"""Shared generator / drivers for C04 and C05 (sharded writer and readers).

Implementation side: the real ShardedFileAccessor of the working tree.
Model side: the extracted fragments of coq/theories/Run/D_C04.v.
Oracle side: extracted spec_fetch / WF (coq/theories/Shard/ShardSpecReader.v) and
the independent Python restatement py_spec_fetch below.
"""
import atexit
import contextlib
import io
import itertools
import json
import os
import shutil
import signal
import tempfile
import zlib

from harness.common import Atom, outcome_of, model_outcome

KEY = "s0"
FINDING_SLOT = "slot-placement"


# ------------------------------------------------------------------ reference arithmetic
def ref_cmc(grid, p):
    nb = [(g - 1).bit_length() for g in grid]
    code = 0
    j = 0
    for i in range(max(nb)):
        for d in range(3):
            if i < nb[d]:
                code |= ((p[d] >> i) & 1) << j
                j += 1
    return code


def ref_route(m, s, p, cid):
    h = cid >> p
    return (h >> m) & ((1 << s) - 1), h & ((1 << m) - 1)      # shard, minishard


def ref_name(s, shard):
    return ("%x" % shard).rjust(max(1, -(-s // 4)), "0") + ".shard"


def py_spec_fetch(files, m, s, p, ie, de, cid):
    """Reader written from the sharded-format document only (second opinion
    beside the extracted spec_fetch).  Returns ('found', bytes) / 'absent' /
    'malformed'."""
    shard, mini = ref_route(m, s, p, cid)
    f = files.get(ref_name(s, shard))
    if f is None:
        return "absent"
    il = 16 << m
    if len(f) < il:
        return "malformed"
    a = int.from_bytes(f[16 * mini:16 * mini + 8], "little")
    b = int.from_bytes(f[16 * mini + 8:16 * mini + 16], "little")
    if a == b:
        return "absent"
    if a > b or il + b > len(f):
        return "malformed"
    raw = f[il + a:il + b]
    try:
        dec = zlib.decompress(raw) if ie == "gzip" else raw
    except zlib.error:
        return "malformed"
    if len(dec) % 24:
        return "malformed"
    n = len(dec) // 24
    w = [int.from_bytes(dec[8 * i:8 * i + 8], "little") for i in range(3 * n)]
    cur, end = 0, 0
    for i in range(n):
        cur += w[i]
        start = end + w[n + i]
        end = start + w[2 * n + i]
        if cur == cid:
            if il + end > len(f):
                return "malformed"
            c = f[il + start:il + end]
            try:
                return ("found", zlib.decompress(c) if de == "gzip" else c)
            except zlib.error:
                return "malformed"
    return "absent"


def is_initial_segment(minis):
    return sorted(minis) == list(range(len(minis)))


# ------------------------------------------------------------------ dataset description
def mkinfo(sizes, cs, m, s, p, ie="raw", de="raw", key=KEY, dtype="uint8", omit=()):
    """omit: optional members of the sharding specification to leave out; the
    format document gives both encodings the default "raw", so only members
    whose value is "raw" are ever omitted."""
    sharding = {"@type": "neuroglancer_uint64_sharded_v1",
                "minishard_bits": m, "shard_bits": s, "preshift_bits": p,
                "hash": "identity", "minishard_index_encoding": ie,
                "data_encoding": de}
    for member in omit:
        if sharding.get(member) == "raw":
            del sharding[member]
    return {"type": "image", "data_type": dtype, "num_channels": 1,
            "scales": [{"key": key, "size": list(sizes), "chunk_sizes": [[cs] * 3],
                        "resolution": [1, 1, 1], "voxel_offset": [0, 0, 0], "encoding": "raw",
                        "sharding": sharding}]}


OMIT_CHOICES = [(), ("data_encoding",), ("minishard_index_encoding",),
                ("data_encoding", "minishard_index_encoding")]


SPECIAL_GRIDS = [(3, 4, 2), (1, 1, 1), (1, 1, 5), (1, 1, 6), (1, 6, 1), (5, 1, 1), (2, 3, 5),
                 (5, 3, 2), (3, 3, 3), (2, 2, 2), (4, 4, 4), (6, 6, 6), (1, 2, 1), (5, 5, 1),
                 (3, 5, 6), (6, 1, 4), (2, 1, 3), (4, 2, 3)]
LARGE_TRIPLES = [(2, 3, 60), (1, 40, 30), (3, 64, 1), (0, 0, 64), (2, 0, 63), (1, 62, 2),
                 (3, 61, 0), (0, 70, 0), (2, 2, 62), (0, 63, 1), (4, 1, 1), (5, 0, 2)]
SUBSETS = ["full", "prefix", "suffix", "every-other", "single", "random30", "random70",
           "class-tail", "two"]


def gen_dataset(rng, idx):
    """One dataset description (pure data, JSON-able)."""
    if idx < len(SPECIAL_GRIDS):
        g = SPECIAL_GRIDS[idx]
    elif rng.random() < 0.35:
        g = rng.choice(SPECIAL_GRIDS)
    else:
        g = tuple(rng.randrange(1, 7) for _ in range(3))
    cs = rng.choice([1, 2, 8, 64])
    sizes = [gi * cs - rng.randrange(cs) for gi in g]
    if rng.random() < 0.12:
        m, s, p = rng.choice(LARGE_TRIPLES)
    else:
        m, s, p = rng.randrange(4), rng.randrange(4), rng.randrange(4)
    if idx == 0:
        m, s, p = 2, 2, 0          # the 3x4x2 grid with two minishard bits: shard 2 uses {0, 2}
    many = idx == 1 or (idx > 1 and rng.random() < 0.015)
    if many:
        # many shards in one scale (more than 64 open at once, revisited after many others)
        g = rng.choice([(8, 8, 4), (6, 7, 5), (16, 4, 4)])
        cs = 1
        sizes = list(g)
        m, s, p = rng.choice([(0, 7, 0), (1, 7, 0), (0, 8, 1), (1, 7, 1)])
    ie = rng.choice(["raw", "raw", "gzip"])
    de = rng.choice(["raw", "raw", "gzip"])
    coords = list(itertools.product(range(g[0]), range(g[1]), range(g[2])))
    coords.sort(key=lambda c: ref_cmc(g, c))
    kind = rng.choice(SUBSETS) if idx else "full"
    if many:
        kind = rng.choice(["full", "random70"])
    n = len(coords)
    if kind == "full":
        sel = coords
    elif kind == "prefix":
        sel = coords[:rng.randrange(1, n + 1)]
    elif kind == "suffix":
        sel = coords[rng.randrange(n):]
    elif kind == "every-other":
        sel = coords[rng.randrange(2)::2] or coords[:1]
    elif kind == "single":
        sel = [rng.choice(coords)]
    elif kind == "two":
        sel = rng.sample(coords, min(2, n))
    elif kind == "class-tail":
        # only the highest-ranked chunks of each (shard, minishard) class: long leading gaps
        by = {}
        for c in coords:
            by.setdefault(ref_route(m, s, p, ref_cmc(g, c)), []).append(c)
        sel = [c for cl in by.values() for c in cl[-rng.randrange(1, 3):]]
    else:
        pr = 0.3 if kind == "random30" else 0.7
        sel = [c for c in coords if rng.random() < pr] or [rng.choice(coords)]
    psize = rng.choice(["mixed", "mixed", "empty-heavy", "const"])
    payloads = {}
    for c in sel:
        if psize == "const":
            ln = 5
        elif psize == "empty-heavy":
            ln = rng.choice([0, 0, 1, 40])
        else:
            ln = rng.randrange(0, 41)
        payloads[c] = rng.randbytes(ln) if rng.random() < 0.9 else b"\x07" * ln
    return {"grid": list(g), "cs": cs, "sizes": sizes, "m": m, "s": s, "p": p, "ie": ie, "de": de,
            "subset": kind, "sel": [list(c) for c in sel],
            "payloads": [payloads[c] for c in sel],
            # optional members left out of the info (stratified: every fourth dataset each way)
            "omit": list(OMIT_CHOICES[idx % 4])}


def order_ops(ds, rng, order):
    """Store operations (x, y, z origin, payload) of a dataset in a given order."""
    items = list(zip(ds["sel"], ds["payloads"]))
    if order == "reversed":
        items.reverse()
    elif order == "random":
        rng.shuffle(items)
    elif isinstance(order, (list, tuple)):
        items = [items[i] for i in order]
    cs = ds["cs"]
    return [(c[0] * cs, c[1] * cs, c[2] * cs, pl) for c, pl in items]


def stored_ids(ds):
    return [ref_cmc(ds["grid"], c) for c in ds["sel"]]


def used_minishards(ds, ids=None):
    """shard -> set of minishard numbers used by the stored identifiers."""
    out = {}
    for cid in (stored_ids(ds) if ids is None else ids):
        sh, mi = ref_route(ds["m"], ds["s"], ds["p"], cid)
        out.setdefault(sh, set()).add(mi)
    return out


def nontrivial(ds):
    used = used_minishards(ds)
    return len(ds["sel"]) >= 3 and (len(used) >= 2 or any(len(v) >= 2 for v in used.values()))


def bbox(cs, x, y, z):
    return (x, x + cs, y, y + cs, z, z + cs)


# ------------------------------------------------------------------ implementation side
@contextlib.contextmanager
def quiet(tmp):
    """Run implementation code with stdout swallowed (Shard.close prints) and
    the on-disk buffers' temporary directories under the run's scratch dir."""
    old = tempfile.tempdir
    tempfile.tempdir = tmp
    try:
        with contextlib.redirect_stdout(io.StringIO()):
            yield
    finally:
        tempfile.tempdir = old


class ImplHang(BaseException):
    """The implementation did not return within the watchdog delay (the
    gap-filling loop of MiniShard.close has no bound of its own)."""


@contextlib.contextmanager
def watchdog(seconds=20.0):
    def handler(signum, frame):
        raise ImplHang()
    old = signal.signal(signal.SIGALRM, handler)
    signal.setitimer(signal.ITIMER_REAL, seconds)
    try:
        yield
    finally:
        signal.setitimer(signal.ITIMER_REAL, 0)
        signal.signal(signal.SIGALRM, old)


class ImplAbort(Exception):
    """Too many hangs: stop generating (each costs a watchdog delay)."""


def _note_hang(R, what, ds):
    R.count("impl:hang")
    R.violation(f"{what}: the implementation did not terminate within the watchdog delay",
                {k: ds[k] for k in ("grid", "cs", "sizes", "m", "s", "p", "ie", "de") if k in ds}, {})
    if R.dist.get("impl:hang", 0) >= 2:
        raise ImplAbort("implementation hangs repeatedly")


def impl_write(R, ds, ops, strategy, name, info=None):
    if isinstance(strategy, str) and strategy.startswith("child"):
        return impl_write_child(R, ds, ops, strategy, name, info)
    try:
        with watchdog(10.0 if not ds.get("large") else 120.0):
            return _impl_write(R, ds, ops, strategy, name, info)
    except ImplHang:
        _note_hang(R, "store_chunk ... close()", ds)
        return [["Hang"]], ["Hang"], {}, os.path.join(R.tmp, name)


def _impl_write(R, ds, ops, strategy, name, info=None):
    """Real ShardedFileAccessor: store every op (exceptions caught, session
    continues), close explicitly.  Returns (per-op outcomes, close outcome,
    files {name: bytes}, directory)."""
    import numpy as np
    from neuroglancer_scripts import sharded_file_accessor as sfa
    d = os.path.join(R.tmp, name)
    info = info or mkinfo(ds["sizes"], ds["cs"], ds["m"], ds["s"], ds["p"], ds["ie"], ds["de"],
                          omit=ds.get("omit", ()))
    outs = []
    # histories beyond "store everything, close once" (decided from the PRNG so that replays agree):
    #  reuse: the caller hands every payload in ONE mutable buffer that it overwrites after each store;
    #  twice: after the close, the same chunks are stored into a second, identical scale of the same
    #         accessor and it is closed again (the pattern of compute_dyadic_scales); both scales must
    #         end up with the same files
    mode = R.extra["_force_mode"] if "_force_mode" in R.extra else R.rng.random()
    reuse = mode < 0.25
    twice = 0.25 <= mode < 0.45 and info["scales"][0]["key"] == KEY and len(info["scales"]) == 1
    R.count("history:" + ("reused-buffer" if reuse else "second-scale-after-close" if twice else "plain"))
    if twice:
        info = json.loads(json.dumps(info))
        info["scales"].append(dict(info["scales"][0], key="second"))
    with quiet(R.tmp), np.errstate(all="ignore"):
        kw = {} if strategy is None else {"strategy": strategy}
        acc = sfa.ShardedFileAccessor(d, **kw)
        acc.info = json.loads(json.dumps(info))
        shared = bytearray()
        for (x, y, z, pl) in ops:
            arg = pl
            if reuse:
                shared[:] = pl
                arg = shared
            o = outcome_of(acc.store_chunk, arg, KEY, bbox(ds["cs"], x, y, z))
            if reuse:
                shared[:] = b"\xa5" * len(shared)
            outs.append(["ok", "none"] if o[0] == "ok" else o)
        closed = outcome_of(acc.close)
        if twice and closed[0] == "ok":
            outs2 = []
            for (x, y, z, pl) in ops:
                o = outcome_of(acc.store_chunk, pl, "second", bbox(ds["cs"], x, y, z))
                outs2.append(["ok", "none"] if o[0] == "ok" else o)
            closed2 = outcome_of(acc.close)
            f1, f2 = _read_dir(os.path.join(d, KEY)), _read_dir(os.path.join(d, "second"))
            if outs2 != outs or closed2[0] != "ok" or f1 != f2:
                R.violation("chunks stored into a second scale after an earlier close() are not written like the "
                            "first scale's", {k: ds[k] for k in ("grid", "cs", "sizes", "m", "s", "p", "ie", "de")},
                            {"second_close": closed2, "first_files": sorted(f1), "second_files": sorted(f2),
                             "outcomes_equal": outs2 == outs})
            shutil.rmtree(os.path.join(d, "second"), ignore_errors=True)
            info["scales"].pop()
        atexit.unregister(acc.close)
    files = _read_dir(os.path.join(d, KEY))
    with open(os.path.join(d, "info"), "w") as f:
        json.dump(info, f)
    return outs, (["ok", "none"] if closed[0] == "ok" else closed), files, d


def _read_dir(sd):
    files = {}
    if os.path.isdir(sd):
        for fn in sorted(os.listdir(sd)):
            with open(os.path.join(sd, fn), "rb") as f:
                files[fn] = f.read()
    return files


def impl_fetch(R, d, ds, coords_list, via="url"):
    try:
        with watchdog(20.0 if not ds.get("large") else 120.0):
            return _impl_fetch(R, d, ds, coords_list, via)
    except ImplHang:
        _note_hang(R, "fetch_chunk", ds)
        return [["Hang"] for _ in coords_list], "ShardedFileAccessor"


def _impl_fetch(R, d, ds, coords_list, via="url"):
    """Fetch through a FRESH accessor.  Returns the list of outcomes."""
    import numpy as np
    from neuroglancer_scripts import accessor as acc_mod, sharded_file_accessor as sfa
    cs = ds["cs"]
    outs = []
    with quiet(R.tmp), np.errstate(all="ignore"):
        if via == "url":
            acc = acc_mod.get_accessor_for_url(d)
        else:
            acc = sfa.ShardedFileAccessor(d)
        for c in coords_list:
            outs.append(outcome_of(lambda: bytes(acc.fetch_chunk(
                KEY, bbox(cs, c[0] * cs, c[1] * cs, c[2] * cs)))))
        atexit.unregister(acc.close)
    return outs, type(acc).__name__


# ------------------------------------------------------------------ model side, gzip oracle
class Oracle:
    """zlib answers handed to the model: one table per direction."""

    def __init__(self):
        self.comp = {}
        self.decomp = {}

    def add_comp(self, b):
        self.comp[bytes(b)] = zlib.compress(bytes(b))

    def add_decomp(self, b):
        try:
            self.decomp[bytes(b)] = zlib.decompress(bytes(b))
        except zlib.error:
            self.decomp[bytes(b)] = Atom("err")

    def table(self, kind):
        t = self.comp if kind == "comp" else self.decomp
        return [[k, v] for k, v in t.items()]


def _misses(rep):
    out = []
    if isinstance(rep, list):
        if len(rep) == 2 and rep[0] == "miss" and isinstance(rep[0], Atom):
            return list(rep[1])
        for e in rep:
            if isinstance(e, list) and len(e) == 2 and isinstance(e[0], Atom) and e[0] == "miss":
                out += list(e[1])
    return out


def oracle_batch(R, reqs):
    """reqs: list of (op, fn(table) -> argument value, Oracle, kind).  Calls the
    model, feeding the zlib answers it asks for, until no request misses."""
    replies = [None] * len(reqs)
    todo = list(range(len(reqs)))
    for _round in range(8):
        if not todo:
            break
        reps = R.model.batch([(reqs[i][0], reqs[i][1](reqs[i][2].table(reqs[i][3]))) for i in todo])
        nxt = []
        for i, rep in zip(todo, reps):
            ms = _misses(rep)
            if ms:
                for b in ms:
                    (reqs[i][2].add_comp if reqs[i][3] == "comp" else reqs[i][2].add_decomp)(b)
                nxt.append(i)
            else:
                replies[i] = rep
        todo = nxt
    if todo:
        raise RuntimeError("gzip oracle protocol did not converge")
    return replies


def cfg_of(ds):
    return [ds["m"], ds["s"], ds["p"], ds["ie"] == "gzip", ds["de"] == "gzip"]


def run_request(ds, ops, orc):
    for o in ops:
        if ds["de"] == "gzip":
            orc.add_comp(o[3])
    return ("c04_run", lambda t: [[ds["cs"]] * 3, ds["sizes"], cfg_of(ds), t,
                                  [list(o) for o in ops]], orc, "comp")


def files_arg(files):
    return [[k.encode(), v] for k, v in sorted(files.items())]


def parse_run_reply(rep):
    """-> (outcomes, {name: outcome})"""
    assert rep[0] == "ok", rep
    outs = [model_outcome(o) for o in rep[1]]
    outs = [["ok", "none"] if o[0] == "ok" else o for o in outs]
    files = {}
    for name, oc in rep[2]:
        files[name.decode()] = model_outcome(oc)
    return outs, files


def model_files_plain(mfiles):
    """{name: bytes} when every shard closed normally, else None."""
    out = {}
    for k, v in mfiles.items():
        if v[0] != "ok" or isinstance(v[1], Atom):
            return None
        out[k] = v[1]
    return out


def spec_reply(v):
    if isinstance(v, list) and v and v[0] == "found":
        return ("found", v[1])
    return str(v)


# ------------------------------------------------------------------ sessions over several scales
SCALE_KEYS = [KEY, "second"]          # model key i  <->  SCALE_KEYS[i]


def impl_session(R, ds, sops, strategy, name):
    """Real ShardedFileAccessor with two identical scales.  sops: list of
    ("s", scale index, x, y, z, payload) / ("c",).  Exceptions are caught and the
    session continues.  Returns (outcomes, {scale index: {file: bytes}})."""
    try:
        with watchdog(10.0):
            return _impl_session(R, ds, sops, strategy, name)
    except ImplHang:
        _note_hang(R, "session (stores and closes over two scales)", ds)
        return [["Hang"]], {}


def _impl_session(R, ds, sops, strategy, name):
    import numpy as np
    from neuroglancer_scripts import sharded_file_accessor as sfa
    d = os.path.join(R.tmp, name)
    info = mkinfo(ds["sizes"], ds["cs"], ds["m"], ds["s"], ds["p"], ds["ie"], ds["de"], omit=ds.get("omit", ()))
    info["scales"].append(dict(json.loads(json.dumps(info["scales"][0])), key=SCALE_KEYS[1]))
    outs = []
    with quiet(R.tmp), np.errstate(all="ignore"):
        kw = {} if strategy is None else {"strategy": strategy}
        acc = sfa.ShardedFileAccessor(d, **kw)
        acc.info = json.loads(json.dumps(info))
        for op in sops:
            if op[0] == "c":
                o = outcome_of(acc.close)
            else:
                _, k, x, y, z, pl = op
                o = outcome_of(acc.store_chunk, pl, SCALE_KEYS[k], bbox(ds["cs"], x, y, z))
            outs.append(["ok", "none"] if o[0] == "ok" else o)
        atexit.unregister(acc.close)
    files = {}
    for i, key in enumerate(SCALE_KEYS):
        f = _read_dir(os.path.join(d, key))
        if f:
            files[i] = f
    shutil.rmtree(d, ignore_errors=True)
    return outs, files


def session_request(ds, sops, orc):
    for o in sops:
        if o[0] == "s" and ds["de"] == "gzip":
            orc.add_comp(o[5])
    scales = [[i, [ds["cs"]] * 3, ds["sizes"]] for i in range(len(SCALE_KEYS))]
    wire = [Atom("c") if o[0] == "c" else [Atom("s"), o[1], o[2], o[3], o[4], o[5]] for o in sops]
    return ("c04_session", lambda t: [cfg_of(ds), t, scales, wire], orc, "comp")


def parse_session_reply(rep):
    assert rep[0] == "ok", rep
    outs = [model_outcome(o) for o in rep[1]]
    outs = [["ok", "none"] if o[0] == "ok" else o for o in outs]
    files = {}
    for k, entries in rep[2]:
        files[k] = {n.decode(): b for n, b in entries}
    return outs, files


# ------------------------------------------------------------------ sessions in which the info file is replaced
def info_for(ds, triples):
    """info with the two scales SCALE_KEYS, scale i sharded with triples[i] = (m, s, p)."""
    info = mkinfo(ds["sizes"], ds["cs"], *triples[0], ds["ie"], ds["de"], key=SCALE_KEYS[0], omit=ds.get("omit", ()))
    second = mkinfo(ds["sizes"], ds["cs"], *triples[1], ds["ie"], ds["de"], key=SCALE_KEYS[1], omit=ds.get("omit", ()))
    info["scales"].append(second["scales"][0])
    return info


def impl_info_session(R, ds, steps, strategy, name, fetch=()):
    """One ShardedFileAccessor that is never handed an info object: the info
    FILE is written through accessor.store_file("info", ..., overwrite=True)
    (what get_IO_for_new_dataset(..., overwrite_info=True) does), possibly
    several times.  steps: ("i", [triple0, triple1]) / ("s", k, x, y, z, payload) /
    ("c",).  fetch: (k, (cx, cy, cz)) chunks to read afterwards through a FRESH
    accessor.  Returns (outcomes, {k: {file: bytes}}, fetch outcomes)."""
    try:
        with watchdog(10.0):
            return _impl_info_session(R, ds, steps, strategy, name, fetch)
    except ImplHang:
        _note_hang(R, "session with a replaced info file", ds)
        return [["Hang"]], {}, []


def _impl_info_session(R, ds, steps, strategy, name, fetch):
    import numpy as np
    from neuroglancer_scripts import sharded_file_accessor as sfa
    d = os.path.join(R.tmp, name)
    outs = []
    with quiet(R.tmp), np.errstate(all="ignore"):
        kw = {} if strategy is None else {"strategy": strategy}
        acc = sfa.ShardedFileAccessor(d, **kw)
        for op in steps:
            if op[0] == "i":
                o = outcome_of(acc.store_file, "info", json.dumps(info_for(ds, op[1])).encode(), overwrite=True)
                if o[0] != "ok":
                    raise RuntimeError(f"could not write the info file: {o}")
                continue
            if op[0] == "c":
                o = outcome_of(acc.close)
            else:
                _, k, x, y, z, pl = op
                o = outcome_of(acc.store_chunk, pl, SCALE_KEYS[k], bbox(ds["cs"], x, y, z))
            outs.append(["ok", "none"] if o[0] == "ok" else o)
        atexit.unregister(acc.close)
        files = {}
        for i, key in enumerate(SCALE_KEYS):
            f = _read_dir(os.path.join(d, key))
            if f:
                files[i] = f
        fetched = []
        if fetch:
            acc2 = sfa.ShardedFileAccessor(d)
            cs = ds["cs"]
            for k, c in fetch:
                fetched.append(outcome_of(lambda: bytes(acc2.fetch_chunk(
                    SCALE_KEYS[k], bbox(cs, c[0] * cs, c[1] * cs, c[2] * cs)))))
            atexit.unregister(acc2.close)
    shutil.rmtree(d, ignore_errors=True)
    return outs, files, fetched


def info_session_request(ds, steps, orc):
    for o in steps:
        if o[0] == "s" and ds["de"] == "gzip":
            orc.add_comp(o[5])

    def scales(triples):
        return [[i, [ds["cs"]] * 3, ds["sizes"], *triples[i]] for i in range(len(SCALE_KEYS))]
    wire = []
    for o in steps:
        if o[0] == "c":
            wire.append(Atom("c"))
        elif o[0] == "i":
            wire.append([Atom("i"), scales(o[1])])
        else:
            wire.append([Atom("s"), o[1], o[2], o[3], o[4], o[5]])
    return ("c04_session", lambda t: [cfg_of(ds), t, [], wire], orc, "comp")


def gen_info_session(rng, ds):
    """scale 0 written under info v1, the info replaced by v2 (other sharding
    parameters for scale 1 only, of which nothing was written yet), scale 1
    written, close.  Returns (steps, final triples, {k: ops})."""
    t0 = (ds["m"], ds["s"], ds["p"])
    small = [(m, s, p) for m in range(4) for s in range(4) for p in range(4)]
    t1_old = rng.choice(small)
    t1_new = rng.choice([t for t in small if t != t1_old])
    opsA = order_ops(ds, rng, rng.choice(["sorted", "random", "reversed"]))
    opsB = order_ops(ds, rng, "random")
    st = lambda k, o: ("s", k, o[0], o[1], o[2], o[3])
    variant = rng.choice(["after-store", "after-store", "after-close", "before-any-store"])
    if variant == "before-any-store":
        steps = [("i", [t0, t1_old]), ("i", [t0, t1_new])] + [st(0, o) for o in opsA] + [st(1, o) for o in opsB] + [("c",)]
    else:
        steps = [("i", [t0, t1_old])] + [st(0, o) for o in opsA]
        if variant == "after-close":
            steps.append(("c",))
        steps += [("i", [t0, t1_new])] + [st(1, o) for o in opsB] + [("c",)]
    return steps, [t0, t1_new], {0: opsA, 1: opsB}, variant


def run_info_sessions(R, n, prop, base=5000):
    """Sessions on ONE accessor during which the info file is replaced.
    Correspondence with the model (c04_session with info steps); oracle for
    C04: the extracted specification reader and WF, with the parameters of the
    info file ON DISK, on the files the implementation wrote; for C05: a fresh
    accessor returns every stored chunk."""
    rng = R.rng
    todo = []
    for i in range(n):
        ds = gen_dataset(rng, base + i)
        steps, final, kops, variant = gen_info_session(rng, ds)
        g, cs = ds["grid"], ds["cs"]
        stored = {}
        for k, ops in kops.items():
            for (x, y, z, pl) in ops:
                stored[(k, (x // cs, y // cs, z // cs))] = pl
        todo.append((ds, steps, final, variant, stored, rng.choice(["in memory", "on disk"])))
    judge_info_sessions(R, todo, prop, f"isess{prop}_{base}")


def replay_info_session(R, case, prop):
    """Re-run one recorded info session; True iff it still fails."""
    def unb(v):
        return bytes.fromhex(v[1:]) if isinstance(v, str) else bytes(v)
    ds = {k: case[k] for k in ("grid", "cs", "sizes", "m", "s", "p", "ie", "de")}
    steps = []
    for o in case["steps"]:
        if o[0] == "i":
            steps.append(("i", [tuple(t) for t in o[1]]))
        elif o[0] == "c":
            steps.append(("c",))
        else:
            steps.append(("s", o[1], o[2], o[3], o[4], unb(o[5])))
    cs = ds["cs"]
    stored = {(o[1], (o[2] // cs, o[3] // cs, o[4] // cs)): o[5] for o in steps if o[0] == "s"}
    final = [tuple(t) for t in case["final_triples"]]
    before = (len(R.violations), len(R.disagreements))
    try:
        judge_info_sessions(R, [(ds, steps, final, case.get("variant", "replay"), stored, case.get("strategy"))],
                            prop, "isess_replay")
    except (ImplAbort, ImplHang):
        return True
    return (len(R.violations), len(R.disagreements)) != before


def judge_info_sessions(R, todo, prop, prefix):
    impl = [impl_info_session(R, ds, steps, strat, f"{prefix}_{i}",
                              fetch=sorted(stored) if prop == "C05" else ())
            for i, (ds, steps, final, variant, stored, strat) in enumerate(todo)]
    reps = oracle_batch(R, [info_session_request(ds, steps, Oracle()) for ds, steps, _, _, _, _ in todo])
    oreqs, ometa = [], []
    for j, ((ds, steps, final, variant, stored, strat), (outs, files, fetched), rep) in enumerate(zip(todo, impl, reps)):
        case = {k: ds[k] for k in ("grid", "cs", "sizes", "m", "s", "p", "ie", "de")}
        case.update(stream="info-sessions", variant=variant, strategy=strat, final_triples=[list(t) for t in final],
                    steps=[list(o) if o[0] != "i" else ["i", [list(t) for t in o[1]]] for o in steps])
        R.case(case, nontrivial=True)
        R.count(f"info-session:{variant}")
        m_outs, m_files = parse_session_reply(rep)
        if outs != m_outs:
            R.disagree("info session: per-operation outcomes", case, outs, m_outs)
        if files != m_files:
            R.disagree("info session: files of the two scales", case,
                       {k: sorted(v) for k, v in files.items()}, {k: sorted(v) for k, v in m_files.items()})
        if any(o[0] != "ok" for o in outs):
            R.violation("a store or close() raised in a session whose info file was replaced before the scale "
                        "was first written", case, {"outcomes": [o for o in outs if o[0] != "ok"][:3]})
        if prop == "C05":
            for (k, c), got in zip(sorted(stored), fetched):
                R.count("info-session:fetch:" + ("exact" if got == ["ok", stored[(k, c)]] else got[0]))
                if got != ["ok", stored[(k, c)]]:
                    R.violation("after the info file was replaced, a fresh accessor does not return a chunk of the "
                                "scale written afterwards", dict(case, scale=k, chunk=list(c)),
                                {"got": got, "stored": stored[(k, c)]})
        else:
            for k in (0, 1):
                ids = sorted((ref_cmc(ds["grid"], c), c) for (kk, c) in stored if kk == k)
                if not ids:
                    continue
                m, s_, p = final[k]
                cfg = [m, s_, p, ds["ie"] == "gzip", ds["de"] == "gzip"]
                fa = files_arg(files.get(k, {}))
                orc = Oracle()
                oreqs.append(("c04_spec_fetch", (lambda t, cfg=cfg, fa=fa, q=[i for i, _ in ids]: [cfg, t, fa, q]), orc, "decomp"))
                oreqs.append(("c04_wf", (lambda t, cfg=cfg, fa=fa: [cfg, t, fa]), orc, "decomp"))
                ometa.append((case, k, ids, stored, files.get(k, {}), final[k], ds))
    oreps = oracle_batch(R, oreqs)
    for q, (case, k, ids, stored, kfiles, (m, s_, p), ds) in enumerate(ometa):
        srep, wrep = oreps[2 * q], oreps[2 * q + 1]
        for (cid, c), rep in zip(ids, srep):
            got = spec_reply(rep)
            second = py_spec_fetch(kfiles, m, s_, p, ds["ie"], ds["de"], cid)
            want = ("found", stored[(k, c)])
            R.count("info-session:spec:" + ("found" if got == want else str(got)[:12]))
            if got != second:
                R.violation("extracted spec_fetch and the Python specification reader disagree (harness self-check)",
                            case, {"id": cid, "extracted": got, "python": second})
            elif got != want:
                R.violation("stored chunk not retrievable by the specification reader that takes the sharding "
                            "parameters from the info file on disk", dict(case, scale=k, chunk=list(c), id=cid),
                            {"spec_fetch": got, "stored": stored[(k, c)], "parameters_on_disk": [m, s_, p]})
        for name, parse_ok, slot_ok, disj_ok in wrep:
            if not (parse_ok == "true" and slot_ok == "true" and disj_ok == "true"):
                R.violation("shard file violates the layout predicates under the parameters of the info file on disk",
                            dict(case, scale=k), {"file": name.decode(), "parse": str(parse_ok), "slot": str(slot_ok),
                                                  "disjoint": str(disj_ok)})


# ------------------------------------------------------------------ grids whose identifiers need 54..64 bits
HUGE_BITS = [(18, 18, 18), (21, 21, 21), (22, 21, 21), (30, 20, 4), (1, 33, 30), (20, 17, 18)]


def ref_uncmc(grid, cid):
    nb = [(g - 1).bit_length() for g in grid]
    p = [0, 0, 0]
    j = 0
    for i in range(max(nb)):
        for d in range(3):
            if i < nb[d]:
                p[d] |= ((cid >> j) & 1) << i
                j += 1
    return p


def gen_huge_dataset(rng, i):
    """A handful of chunks in a grid of 2^54 .. 2^64 positions (identifiers that
    are not exact doubles), with shard/minishard bits covering the whole
    identifier so that no minishard needs more than 2^p entries."""
    bits = HUGE_BITS[i % len(HUGE_BITS)]
    exact = (i // len(HUGE_BITS)) % 2 == 0
    g = [(1 << b) if exact or b < 3 else (1 << b) - rng.randrange(1, 4) for b in bits]
    total = sum((x - 1).bit_length() for x in g)
    p = i % 3
    m = (i // 3) % 3
    s = total - p - m + rng.choice([0, 0, 1])
    want_ids = [0, 1, (1 << 53) + 1, (1 << 53) - 1, (1 << total) - 1, (1 << (total - 1)) + 1,
                rng.getrandbits(total) | 1, rng.getrandbits(total)]
    coords = [[x - 1 for x in g]]
    for cid in want_ids:
        c = ref_uncmc(g, cid)
        if all(ci < gi for ci, gi in zip(c, g)) and c not in coords:
            coords.append(c)
    for _ in range(2):
        c = [rng.randrange(x) for x in g]
        if c not in coords:
            coords.append(c)
    coords.sort(key=lambda c: ref_cmc(g, c))
    return {"grid": g, "cs": 1, "sizes": list(g), "m": m, "s": s, "p": p,
            "ie": ["raw", "gzip"][i % 2], "de": ["raw", "raw", "gzip"][i % 3],
            "subset": "huge-grid", "huge": True, "sel": coords,
            "payloads": [rng.randbytes(rng.randrange(0, 9)) for _ in coords], "omit": []}


def gen_bigpayload_dataset(rng, i):
    """One minishard holding more than 64 KiB of chunk data whose length is not
    a multiple of 65536 (block-wise copying of the write buffers)."""
    g = [(1, 1, 3), (2, 1, 2), (1, 3, 1)][i % 3]
    coords = sorted(itertools.product(range(g[0]), range(g[1]), range(g[2])), key=lambda c: ref_cmc(g, c))
    lens = [[40000, 30000, 7], [65536, 1, 40000, 3], [20000, 50000, 61073]][i % 3]
    return {"grid": list(g), "cs": 1, "sizes": list(g), "m": i % 2, "s": 0, "p": [0, 2, 1][i % 3],
            "ie": ["raw", "gzip"][i % 2], "de": "raw", "subset": "big-payloads",
            "sel": [list(c) for c in coords[:len(lens)]],
            "payloads": [rng.randbytes(n) for n in lens], "omit": []}


# ------------------------------------------------------------------ writers in a child interpreter
def impl_write_child(R, ds, ops, strategy, name, info=None):
    """strategy = "child[:O][:noclose][:mem]": the dataset is written by
    harness/props/shard_child.py in a fresh interpreter (PYTHONOPTIMIZE=1 with
    :O; no explicit close() with :noclose, the accessor's atexit hook then
    closes; default buffering strategy unless :mem).  Same result tuple as
    impl_write."""
    import subprocess
    from harness.common import REPO_SRC, PY
    flags = strategy.split(":")[1:]
    d = os.path.join(R.tmp, name)
    info = info or mkinfo(ds["sizes"], ds["cs"], ds["m"], ds["s"], ds["p"], ds["ie"], ds["de"],
                          omit=ds.get("omit", ()))
    os.makedirs(R.tmp, exist_ok=True)
    spec_path = os.path.join(R.tmp, name + ".spec.json")
    res_path = os.path.join(R.tmp, name + ".result.json")
    with open(spec_path, "w") as f:
        json.dump({"dir": d, "info": info, "close": "noclose" not in flags,
                   "strategy": "in memory" if "mem" in flags else None, "result": res_path,
                   "ops": [[KEY, list(bbox(ds["cs"], x, y, z)), bytes(pl).hex()] for (x, y, z, pl) in ops]}, f)
    env = {k: v for k, v in os.environ.items() if k != "PYTHONOPTIMIZE"}
    env.update(PYTHONPATH=REPO_SRC, TMPDIR=R.tmp, PYTHONDONTWRITEBYTECODE="1")
    if "O" in flags:
        env["PYTHONOPTIMIZE"] = "1"
    child = os.path.join(os.path.dirname(os.path.abspath(__file__)), "shard_child.py")
    R.count("child:" + ("-O" if "O" in flags else "plain") + (":exit-without-close" if "noclose" in flags else ":close"))
    try:
        r = subprocess.run([PY, "-B", child, spec_path], env=env, stdout=subprocess.PIPE,
                           stderr=subprocess.PIPE, timeout=60)
    except subprocess.TimeoutExpired:
        _note_hang(R, "child writer", ds)
        return [["Hang"]], ["Hang"], {}, d
    outs, closed = [["NoResult"]], ["Crash", f"ChildExit{r.returncode}"]
    if os.path.exists(res_path):
        with open(res_path) as f:
            res = json.load(f)
        outs = res["outs"]
        if ("O" in flags) != bool(res["optimize"]):
            raise RuntimeError("child interpreter did not run with the requested optimisation level")
        closed = res["closed"] if res["closed"] != "not-called" else ["ok", "none"]
    if r.returncode != 0:
        closed = ["Crash", f"ChildExit{r.returncode}", r.stderr.decode(errors="replace")[-300:]]
    files = _read_dir(os.path.join(d, KEY))
    os.makedirs(d, exist_ok=True)
    with open(os.path.join(d, "info"), "w") as f:
        json.dump(info, f)
    return outs, closed, files, d


def gen_gappy_dataset(rng, idx):
    """A dataset whose reversed store order leaves chunks in the out-of-order
    buffers until close (used for writers that exit without an explicit close)."""
    for k in range(50):
        ds = gen_dataset(rng, idx + 97 * k)
        if ds["subset"] in ("class-tail", "suffix", "every-other", "random30", "random70") and len(ds["sel"]) >= 3:
            return ds
    return ds


# ------------------------------------------------------------------ deterministic large cases (oracle only)
def large_cases(tier, prop):
    """(name, dataset description without payload bytes, strategies).  Payload
    sizes in bytes; "pattern" payloads are highly compressible."""
    MiB = 1 << 20
    cases = [
        # one gzip-encoded chunk above 1 MiB (piecewise deflate)
        ("gzip-chunk-1.2MiB", {"grid": [1, 1, 2], "m": 0, "s": 0, "p": 0, "ie": "raw", "de": "gzip",
                               "sizes_b": [int(1.2 * MiB) + 13, 10], "kind": "random"}, ["in memory"]),
        # one minishard above 16 MiB (block-wise copying of the on-disk buffer)
        ("minishard-20MiB", {"grid": [1, 2, 1], "m": 0, "s": 0, "p": 0, "ie": "gzip", "de": "raw",
                             "sizes_b": [10 * MiB + 5, 10 * MiB - 3], "kind": "random"},
         ["on disk"] + (["in memory"] if prop == "C05" else [])),
    ]
    if tier == "thorough":
        cases.append(("gzip-chunk-80MiB", {"grid": [2, 1, 1], "m": 1, "s": 0, "p": 0, "ie": "raw", "de": "gzip",
                                           "sizes_b": [80 * MiB + 1, 3], "kind": "pattern"}, ["on disk"]))
    return cases


def run_large_cases(R, prop):
    """Large payloads are judged without the model (its byte lists are too
    slow beyond ~100 KiB): files equal across strategies, every chunk found by
    the Python specification reader, and (C05) returned by a fresh accessor."""
    rng = R.rng
    for name, d0, strategies in large_cases(R.tier, prop):
        g = d0["grid"]
        coords = sorted(itertools.product(range(g[0]), range(g[1]), range(g[2])), key=lambda c: ref_cmc(g, c))
        payloads = []
        for n in d0["sizes_b"]:
            if d0["kind"] == "pattern":
                unit = bytes(range(251)) * 4
                payloads.append((unit * (n // len(unit) + 1))[:n])
            else:
                payloads.append(rng.randbytes(n))
        ds = {"grid": g, "cs": 1, "sizes": list(g), "m": d0["m"], "s": d0["s"], "p": d0["p"], "ie": d0["ie"],
              "de": d0["de"], "subset": "large:" + name, "large": True, "omit": [],
              "sel": [list(c) for c in coords[:len(payloads)]], "payloads": payloads}
        case = {k: ds[k] for k in ("grid", "cs", "sizes", "m", "s", "p", "ie", "de", "subset")}
        case["payload_sizes"] = d0["sizes_b"]
        R.case(case, nontrivial=True)
        R.count("large:" + name)
        ops = order_ops(ds, rng, "reversed")
        first = None
        for k, strat in enumerate(strategies):
            R.extra["_force_mode"] = 0.9        # plain history
            try:
                outs, closed, files, d = impl_write(R, ds, ops, strat, f"large_{prop}_{name}_{k}")
            finally:
                R.extra.pop("_force_mode", None)
            vcase = dict(case, strategy=strat)
            if any(o[0] != "ok" for o in outs) or closed[0] != "ok":
                R.violation("a valid store sequence with large payloads raised", vcase,
                            {"outs": [o for o in outs if o[0] != "ok"][:3], "close": closed})
                continue
            if first is None:
                first = files
            elif files != first:
                R.violation("shard files differ between buffering strategies (large payloads)", vcase,
                            {"differing_files": sorted(n for n in set(files) | set(first) if files.get(n) != first.get(n)),
                             "lengths": {n: [len(first.get(n, b"")), len(files.get(n, b""))] for n in set(files) | set(first)}})
            for c, pl in zip(ds["sel"], payloads):
                cid = ref_cmc(g, c)
                got = py_spec_fetch(files, ds["m"], ds["s"], ds["p"], ds["ie"], ds["de"], cid)
                if got != ("found", pl):
                    R.violation("stored chunk not retrievable by the specification reader (large payloads)",
                                dict(vcase, id=cid), {"spec_fetch": got if isinstance(got, str) else
                                                      ("found", len(got[1]), "bytes"), "stored_bytes": len(pl)})
            if prop == "C05":
                fouts, _ = impl_fetch(R, d, ds, [tuple(c) for c in ds["sel"]], "ctor")
                for c, pl, fo in zip(ds["sel"], payloads, fouts):
                    if fo != ["ok", pl]:
                        R.violation("fetch of a stored chunk does not return the stored bytes (large payloads)",
                                    dict(vcase, fetch=list(c)),
                                    {"impl": fo[0] if fo[0] != "ok" else ("ok", len(fo[1]), "bytes"), "stored_bytes": len(pl)})
            shutil.rmtree(d, ignore_errors=True)
