"""C08 — generated scale metadata is consistent and usable by every later step.

Correspondence: dyadic_pyramid.fill_scales_for_dyadic_pyramid, choose_unit_for_key,
utils.format_length, scripts.generate_scales_info (main + set_info_params)
  vs  coq/theories/Pyramid/{PyrScales,PyrKeys}.v (ops of Run/D_C08.v).
Oracle: every clause of the property statement evaluated by independent Python
code on what the IMPLEMENTATION produced (exact rationals); on small volumes
the generated info is also driven through the real compute_dyadic_downscaling.
Known-finding regions are predicates of the INPUT (sizes, resolutions, target,
max_scales), never of the output.
"""
import copy
import json
import math
import os
from fractions import Fraction

import numpy as np

from harness.common import outcome_of, model_outcome
from harness.props import pyr_common as pc

RULE = ("sizes from {1,2,3,63,64,65,127,1000,4097,1e6,1e9}^3 (+ random), resolutions = base * 2^k * "
        "{1,0.7,1.3,1.5} per axis as ints or floats, targets 2^0..2^8, max_scales in {None,0,1,2,5}; "
        "separate malformed stream (non-power-of-two / non-positive targets, zero sizes, sub-picometre "
        "resolutions); generate_scales_info.main on files with type/encoding options; small infos driven "
        "through the real compute_dyadic_downscaling. non-trivial = at least 2 scales and (anisotropic "
        "or odd size)")

SIZES = [1, 2, 3, 63, 64, 65, 127, 1000, 4097, 10 ** 6, 10 ** 9]
BASES = [1, 1, 2, 3, 7, 10, 40, 50, 1000, 12345, 10 ** 6,
         0.7, 1.2, 0.05, 0.3, 123.456, 8e-3, 2.5e6, 0.8]
KS = [0, 0, 0, 0, 1, 1, 2, 3, 5, 8, 11, 14]
CS = [Fraction(1), Fraction(7, 10), Fraction(13, 10), Fraction(3, 2)]

F_DUP = None        # duplicate keys: fixed in /repo b3f6345 - always a violation now
F_LAST = "c08-level-count-anisotropic"
F_ASSERT = None     # internal assertion: fixed in /repo 1758f7a - always a violation now
F_TINY = "c08-no-unit-below-half-picometre"
F_CHUNKS = "c08-incompatible-chunk-sizes"
F_ZERO = "c08-zero-half-chunk"


# ---------------------------------------------------------------- regions (input predicates)

def level_asserts(d, t, l):
    """Closed form of 'an internal assertion fails at level l' (independent of
    the code: derived in PyrScalesProofs, restated here)."""
    M = max(d)
    a = sorted((max(0, M - di - l) for di in d), reverse=True)
    a1, a2 = a[0], a[1]
    E = a1 + a2 + a[2] - 3 * t
    if E <= 0:
        return False
    n = sum(1 for v in a if v != 0)
    red = pc.ceil_div(E, n)
    return sum(max(v - red, 0) for v in a) > 3 * t


def input_regions(size, res, target, ms):
    """res: exact Fractions.  Returns dict of booleans + the derived integers."""
    t = target.bit_length() - 1
    best = min(res)
    d = [pc.exact_round_log2(r / best) for r in res]
    n = [pc.log2_up(s) - t for s in size]
    L0 = max(ni - di for ni, di in zip(n, d))
    L = L0
    if ms:
        L = min(L, ms)
    L = max(L, 1)
    cap = bool(ms) and L0 > ms
    return {
        "t": t, "d": d, "n": n, "L": L, "cap_binding": cap,
        "axis_rounded_up": any(r < best * 2 ** di for r, di in zip(res, d)),
        F_LAST: (not cap) and any(ni >= 2 and ni + di > L for ni, di in zip(n, d)),
        "old_assert_region": any(level_asserts(d, t, l) for l in range(L)),
        F_TINY: float(best) * 1e3 <= 0.5,     # binary64 product, as in round(resolution_nm * 1e3)
    }


# ---------------------------------------------------------------- oracle clauses

def oracle(case, info_in, scales, reg, target, ms):
    """scales: canonical implementation output.  Yields (clause, finding-or-None, detail)."""
    t = target.bit_length() - 1
    full = scales[0][1]
    res0 = scales[0][2]
    keys = [s[0] for s in scales]
    if len(set(keys)) != len(keys):
        yield "scale keys are not pairwise distinct", F_DUP, {"keys": [k.decode() for k in keys]}
    ks_prev = None
    starts = [None, None, None]
    prev_aniso = None
    for li, (key, size, res, chunks) in enumerate(scales):
        ks = []
        for a in range(3):
            ratio = res[a] / res0[a]
            k = ratio.numerator.bit_length() - 1
            if ratio != 2 ** k or ratio.denominator != 1:
                yield "resolution is not the full resolution times a power of two", None, {"level": li, "axis": a}
                k = max(k, 0)
            ks.append(k)
            if size[a] != pc.ceil_div(full[a], 2 ** k):
                yield "size is not ceil(full size / factor)", None, {"level": li, "axis": a, "size": size,
                                                                     "factor": 2 ** k}
            if k > 0 and starts[a] is None:
                starts[a] = li
        if li == 0 and (size != list(info_in["scales"][0]["size"])
                        or res != [Fraction(r) for r in info_in["scales"][0]["resolution"]]):
            yield "first scale is not the full resolution", None, {}
        for a in range(3):
            c = chunks[a]
            if c < 1 or c & (c - 1):
                yield "chunk size is not a power of two", None, {"level": li, "chunks": chunks}
        if all(c >= 1 for c in chunks):
            tot = sum(c.bit_length() - 1 for c in chunks)
            if abs(tot - 3 * t) > 1:
                yield "chunk does not hold about target^3 voxels", None, {"level": li, "chunks": chunks}
        if ks_prev is not None:
            for a in range(3):
                if ks[a] - ks_prev[a] not in (0, 1):
                    yield "consecutive scales differ by a factor other than 1 or 2", None, {"level": li}
        ks_prev = ks
        fin = min(range(3), key=lambda a: res0[a])
        aniso = [max(res[a] / res[fin], res[fin] / res[a]) for a in range(3)]
        if prev_aniso is not None and any(x > y for x, y in zip(aniso, prev_aniso)):
            yield "an axis moves away from the finest axis' voxel size", None, {"level": li}
        prev_aniso = aniso
        if all(k >= 1 for k in ks) and max(res) / min(res) >= 2:
            yield "voxels still anisotropic by 2 or more after every axis started downscaling", None, {"level": li}
    # coarser axes start later (None = never starts within the generated levels)
    big = 10 ** 9
    for a in range(3):
        for b in range(3):
            if res0[a] > res0[b] and (starts[a] if starts[a] is not None else big) < \
                    (starts[b] if starts[b] is not None else big):
                yield "a coarser axis starts downscaling earlier", None, {"starts": starts}
    # last scale within two target chunks per axis, unless the max_scales cap cut the pyramid
    if not (ms and len(scales) >= ms):
        if any(s > 2 * target for s in scales[-1][1]):
            yield ("last scale does not fit in two target-size chunks per axis", F_LAST,
                   {"last_size": scales[-1][1], "target": target})
    # consecutive chunk sizes compatible with compute_dyadic_downscaling
    bad = first_bad_pair(scales)
    if bad is not None:
        li, fid = bad
        o, n_ = scales[li], scales[li + 1]
        yield ("consecutive chunk sizes are not compatible with the pyramid computation", fid,
               {"level": li, "old": [o[1], o[3]], "new": [n_[1], n_[3]]})


def first_bad_pair(scales):
    """(level, finding id) of the first consecutive pair that is not tiled exactly."""
    for li in range(len(scales) - 1):
        o, n_ = scales[li], scales[li + 1]
        if not all(pc.py_compat_axis(o[1][a], n_[1][a], o[3][a], n_[3][a]) for a in range(3)):
            zero = any(o[3][a] // pc.py_axis_f(o[1][a], n_[1][a]) == 0 for a in range(3))
            return li, (F_ZERO if zero else F_CHUNKS)
    return None


def model_bad_class(mod):
    if mod[0] != "ok":
        return None
    b = first_bad_pair(pc.canon_model_scales(mod[1]))
    return b[1] if b else None


# ---------------------------------------------------------------- generators

def big_pow2_size(rng):
    """2^k + d, k in 24..29, d in 1..20 (and a few 2^k - d): where a rounded logarithm loses a level."""
    return 2 ** rng.randrange(24, 30) + rng.choice([1, 1, 2, 3, 4, 9, 18, 20, rng.randrange(1, 21), -1, -rng.randrange(1, 21)])


def gen_case(rng):
    size = [rng.choice(SIZES) if rng.random() < 0.85 else rng.randrange(1, 5000) for _ in range(3)]
    if rng.random() < 0.15:
        size = [rng.randrange(1, 71) for _ in range(3)]
    elif rng.random() < 0.08:
        size[rng.randrange(3)] = big_pow2_size(rng)
    base = Fraction(rng.choice(BASES))
    iso = rng.random() < 0.2
    res = []
    for a in range(3):
        k = 0 if iso else rng.choice(KS)
        c = Fraction(1) if iso else rng.choice(CS)
        r = base * 2 ** k * c
        if r.denominator == 1 and rng.random() < 0.7:
            res.append(int(r))
        else:
            res.append(float(r))
    target = 2 ** rng.randrange(0, 9)
    ms = rng.choice([None, None, 0, 1, 2, 5])
    return size, res, target, ms


def gen_malformed(rng):
    size, res, target, ms = gen_case(rng)
    ch = rng.randrange(4)
    if ch == 0:
        target = rng.choice([3, 5, 6, 65, 100, 255])
    elif ch == 1:
        target = rng.choice([0, -1, -64])
    elif ch == 2:
        size[rng.randrange(3)] = 0
    else:
        res = [rng.choice([1e-4, 4e-4, 5e-4, 2.0 ** -30])] * 3
    return size, res, target, ms


def run_impl(size, res, target, ms, **kw):
    from neuroglancer_scripts import dyadic_pyramid as dp
    info = pc.base_info(size, res, **kw)
    info_in = copy.deepcopy(info)
    out = outcome_of(lambda: pc.canon_scales(dp.fill_scales_for_dyadic_pyramid(info, target_chunk_size=target,
                                                                              max_scales=ms)))
    return out, info_in, info


def model_req(size, res, target, ms):
    return ("gen_scales", [list(size), [pc.me_of(r) for r in res], target, ms or 0])


KEYS_GUARD = {}


def _ck(size, res, target, ms):
    return (tuple(size), tuple(float(r).hex() for r in res), target, ms or 0)


def judge(R, case, impl, mod, info_in, size, res, target, ms, tiny_ok=True):
    """Compare with the model and apply the oracle; returns the canonical scales or None."""
    if impl[0] == "ok":
        mcanon = ["ok", pc.canon_model_scales(mod[1])] if mod[0] == "ok" else mod
        if impl != mcanon:
            R.disagree("fill_scales_for_dyadic_pyramid vs gen_scales", case, _js(impl), _js(mcanon))
    elif impl != mod:
        R.disagree("fill_scales_for_dyadic_pyramid vs gen_scales (outcome)", case, impl, _js(mod))
    fr = [Fraction(r) for r in res]
    reg = input_regions(size, fr, target, ms)
    kg = KEYS_GUARD.get(_ck(size, res, target, ms))
    if kg is not None and mod[0] == "ok":
        R.count(f"keys_guard:{kg}")
        if not kg:
            # C08_keys_distinct_on_guard needs it; it only states that the binary64 products scale exactly
            R.disagree("keys_guard fails on a generated description (a float product left the normal range?)",
                       case, kg, True)
    if reg["old_assert_region"]:
        R.count("former-assert-region:" + (impl[0] if impl[0] == "ok" else impl[-1]))
    if reg["axis_rounded_up"]:
        R.count("former-duplicate-key-region:" + (impl[0] if impl[0] == "ok" else impl[-1]))
    if impl[0] == "ok":
        for what, fid, detail in oracle(case, info_in, impl[1], reg, target, ms):
            inside = False
            if fid in (F_CHUNKS, F_ZERO):
                inside = model_bad_class(mod) == fid
            elif fid is not None:
                inside = reg[fid]
            if inside:
                R.known(fid)
                R.count("finding:" + fid)
            else:
                R.violation(what, case, _js(detail))
        return impl[1]
    # the generator failed on a valid description
    if impl == ["Crash", "NotImplementedError"] and reg[F_TINY]:
        R.known(F_TINY)
        R.count("finding:" + F_TINY)
    else:
        R.violation("generator failed on a valid full-resolution description", case, impl)
    return None


def _js(o):
    if isinstance(o, Fraction):
        return f"{o.numerator}/{o.denominator}"
    if isinstance(o, (bytes, bytearray)):
        return bytes(o).decode("latin1")
    if isinstance(o, dict):
        return {k: _js(v) for k, v in o.items()}
    if isinstance(o, (list, tuple)):
        return [_js(v) for v in o]
    return o


# ---------------------------------------------------------------- run

def run(R):
    from neuroglancer_scripts import chunk_encoding, dyadic_pyramid as dp, utils
    from neuroglancer_scripts.scripts import generate_scales_info as gsi
    import logging
    logging.disable(logging.CRITICAL)
    R.rule = RULE
    rng = R.rng
    quick = R.tier == "quick"

    # -------- live table
    live = [[u.encode(), *pc.me_of(f)] for u, f in utils.LENGTH_UNITS.items()]
    mod_units = [[bytes(n), Fraction(m) * Fraction(2) ** e] for n, m, e in R.model.call("units", [])]
    if [[n, Fraction(m) * Fraction(2) ** e] for n, m, e in live] != mod_units:
        R.disagree("utils.LENGTH_UNITS differs from the model's table", {}, _js(live), _js(mod_units))

    # -------- corpus: recorded witnesses of the findings, replayed on every run
    corpus = []
    for f in R.findings:
        w = f.get("witness", {})
        if "size" in w and "resolution" in w:
            corpus.append((w["size"], w["resolution"], w.get("target", 64), w.get("max_scales")))
    corpus += [([100, 100, 100], [1.2, 1.5, 0.8], 16, None),            # former duplicate keys
               ([1000000, 1000, 1000], [1, 1024, 2048], 2, None),       # former AssertionError
               ([65, 5, 1], [1, 8, 32], 4, None)]                       # former silent-wrong pyramid
    # deterministic large sizes: 2^k + d for every k in 24..29 (the level count must not lose a level)
    for k in range(24, 30):
        for d in (1, 2, 18, 20):
            ax = (k + d) % 3
            size = [64, 64, 64]
            size[ax] = 2 ** k + d
            corpus.append((size, [1, 1, 1] if d != 2 else [1.5, 1.5, 1.5], 64 if d != 18 else 2 ** (k % 7), None))
    # deterministic pyramids with a long axis that is NOT downscaled between two scales (257..700 voxels),
    # small in the other axes: really computed below (FORCED_RUN)
    forced = [([257, 24, 20], [4000, 1000, 1000], 16, None), ([12, 700, 9], [1, 4, 1], 8, None),
              ([10, 12, 513], [1, 1, 2], 16, None), ([300, 300, 4], [2, 2, 1], 32, None)]
    corpus += forced
    FORCED_RUN = {(tuple(c[0]), c[2]) for c in forced}
    # -------- generated cases
    n_main = 7000 if quick else 200000
    cases = corpus + [gen_case(rng) for _ in range(n_main)]
    # extreme delays through exact powers of two (drives the integer core directly)
    for _ in range(600 if quick else 20000):
        d = [0, rng.randrange(0, 16), rng.randrange(0, 16)]
        rng.shuffle(d)
        size = [rng.choice(SIZES) for _ in range(3)]
        cases.append((size, [2 ** k for k in d], 2 ** rng.randrange(0, 5), rng.choice([None, 0, 2, 5])))
    replies = R.model.batch([model_req(*c) for c in cases])
    guards = R.model.batch([("keys_guard", model_req(*c)[1]) for c in cases])
    small_infos = []
    forced_infos = []
    for (size, res, target, ms), rep, kg in zip(cases, replies, guards):
        impl, info_in, info = run_impl(size, res, target, ms)
        mod = model_outcome(rep)
        KEYS_GUARD[_ck(size, res, target, ms)] = (kg == "true")
        case = {"size": size, "resolution": [r if isinstance(r, int) else float(r).hex() for r in res],
                "target": target, "max_scales": ms}
        aniso = len({Fraction(r) for r in res}) > 1
        R.case(case, nontrivial=impl[0] == "ok" and len(impl[1]) >= 2 and (aniso or any(s % 2 for s in size)))
        R.count(f"gen:{impl[0] if impl[0] == 'ok' else impl[-1]}:{'aniso' if aniso else 'iso'}")
        R.count("levels:" + (str(min(len(impl[1]), 12)) if impl[0] == "ok" else "-"))
        scales = judge(R, case, impl, mod, info_in, size, res, target, ms)
        if scales is None:
            continue
        # untouched fields are copied to every scale; encoders accept every scale
        for s in info["scales"]:
            if s["encoding"] != "raw" or s["voxel_offset"] != [0, 0, 0]:
                R.violation("a generated scale lost the encoding / voxel_offset of the full scale", case, {})
            enc = outcome_of(lambda: chunk_encoding.get_encoder(info, s) is not None)
            if enc != ["ok", True]:
                R.violation("a generated scale is refused by chunk_encoding.get_encoder", case, enc)
        if ((max(size) <= 70 and size[0] * size[1] * size[2] <= 6000) or (tuple(size), target) in FORCED_RUN) \
                and len(scales) >= 2 and len({s[0] for s in scales}) == len(scales):
            small_infos.append((case, info, scales, mod))
            if (tuple(size), target) in FORCED_RUN:
                forced_infos.append(small_infos.pop())

    # -------- malformed stream: outcome classes only
    mal = [gen_malformed(rng) for _ in range(400 if quick else 10000)]
    replies = R.model.batch([model_req(*c) if c[2] > 0 or True else None for c in mal])
    for (size, res, target, ms), rep in zip(mal, replies):
        impl, info_in, info = run_impl(size, res, target, ms)
        mod = model_outcome(rep)
        case = {"size": size, "resolution": [float(r).hex() for r in res], "target": target, "max_scales": ms,
                "stream": "malformed"}
        R.case(case)
        R.count(f"malformed:{impl[0] if impl[0] == 'ok' else impl[-1]}")
        valid = target > 0 and target & (target - 1) == 0 and all(s > 0 for s in size)
        if valid:
            judge(R, case, impl, mod, info_in, size, res, target, ms)
        else:
            mcanon = ["ok", pc.canon_model_scales(mod[1])] if mod[0] == "ok" else mod
            if impl != mcanon:
                R.disagree("generator outcome on a malformed description", case, _js(impl), _js(mcanon))
            if impl[0] == "ok":
                R.violation("malformed description accepted", case, {})

    # -------- small infos through the real pyramid computation (stride, exact data compare)
    rng.shuffle(small_infos)
    n_run = 0
    if len(forced_infos) != len(forced):
        R.violation("a deterministic long-axis description was not accepted by the generator", {}, len(forced_infos))
    for case, info, scales, mod in forced_infos + small_infos[: (60 if quick else 1500)]:
        vol = np.frombuffer(rng.randbytes(int(np.prod(scales[0][1]))), dtype=np.uint8).reshape(
            1, scales[0][1][2], scales[0][1][1], scales[0][1][0])
        for li in range(len(scales) - 1):
            o, n_ = scales[li], scales[li + 1]
            out, io = pc.run_transition(info, li, "stride", vol, 0xA5)
            f3 = [1 if a == b else 2 for a, b in zip(o[1], n_[1])]
            ref = pc.ref_downscale(vol, f3, "stride")
            pred = pc.py_geom_class(o[1], n_[1], o[3], n_[3])
            if out[0] == "ok":
                got, full = io.assemble(n_[0].decode())
                cls = "exact" if full and np.array_equal(got, ref) else "wrong"
            else:
                cls = "error"
            n_run += 1
            R.count(f"tiny-pyramid:{cls}")
            mb = model_bad_class(mod)
            if cls != "exact":
                if cls == "error" and mb is not None and pred == "error":
                    R.known(mb)
                else:
                    R.violation("generated info not processed correctly by compute_dyadic_downscaling",
                                {**case, "level": li}, {"class": cls, "outcome": out[:2] if cls == "error" else None})
                break
            vol = ref
    R.extra["tiny_pyramid_transitions"] = n_run

    # -------- choose_unit_for_key / format_length directly
    fl_cases = []
    for _ in range(1500 if quick else 60000):
        ch = rng.random()
        if ch < 0.4:
            x = float(rng.choice([1, 2, 5, 7, 15, 25, 35, 45]) * 10.0 ** rng.randrange(-4, 13) / rng.choice([1, 2, 4, 8]))
        elif ch < 0.7:
            x = (rng.randrange(0, 2000) + 0.5) * 10.0 ** rng.choice([-3, 0, 3, 6])
            x = math.nextafter(x, rng.choice([0.0, math.inf])) if rng.random() < 0.5 else x
        else:
            x = rng.uniform(1e-3, 10.0) * 10.0 ** rng.randrange(-1, 12)
        fl_cases.append(x)
    reqs = []
    for x in fl_cases:
        reqs.append(("choose_unit", [pc.me_of(x)]))
        reqs += [("format_length", [pc.me_of(x), i]) for i in range(6)]
    reps = R.model.batch(reqs)
    unit_names = list(utils.LENGTH_UNITS)
    for i, x in enumerate(fl_cases):
        impl_u = outcome_of(lambda: dp.choose_unit_for_key(x).encode())
        mod_u = model_outcome(reps[7 * i])
        if mod_u[0] == "ok":
            mod_u = ["ok", bytes(mod_u[1])]
        case = {"length_nm": x.hex()}
        R.case(case, nontrivial=True)
        R.count("unit:" + (impl_u[1].decode() if impl_u[0] == "ok" else impl_u[-1]))
        if impl_u != mod_u:
            R.disagree("choose_unit_for_key", case, _js(impl_u), _js(mod_u))
        for j, u in enumerate(unit_names):
            impl_f = outcome_of(lambda: utils.format_length(x, u).encode())
            mod_f = model_outcome(reps[7 * i + 1 + j])
            if mod_f[0] == "ok":
                mod_f = ["ok", bytes(mod_f[1])]
            if impl_f != mod_f:
                R.disagree("format_length", {**case, "unit": u}, _js(impl_f), _js(mod_f))
            # oracle: exact decimal rounding of the binary product, half to even
            prod = Fraction(x * utils.LENGTH_UNITS[u])
            q, r = divmod(prod.numerator, prod.denominator)
            if 2 * r > prod.denominator or (2 * r == prod.denominator and q % 2):
                q += 1
            if impl_f != ["ok", (str(q) + u).encode()]:
                R.violation("format_length is not the product rounded half-to-even to an integer",
                            {**case, "unit": u}, _js(impl_f))
        if impl_u[0] == "ok":
            u = impl_u[1].decode()
            if utils.format_length(x, u) == utils.format_length(2 * x, u) or \
                    utils.format_length(x, u).startswith("0"):
                R.violation("chosen unit does not separate a length from its double", case, {"unit": u})

    # -------- generate_scales_info.main: file in, info file out
    combos = [("uint8", 1, None, None), ("uint8", 3, "jpeg", None), ("uint16", 1, "raw", "image"),
              ("uint8", 1, "compressed_segmentation", None), ("uint16", 1, "compressed_segmentation", "segmentation"),
              ("uint32", 1, "compressed_segmentation", None), ("uint64", 1, "compressed_segmentation", None),
              ("uint64", 1, None, "segmentation"), ("float32", 2, "raw", None), ("uint32", 1, "raw", "segmentation")]
    for k in range(120 if quick else 3000):
        size, res, target, ms = gen_case(rng)
        dt, nc, enc_cli, type_cli = rng.choice(combos)
        if k < 6:
            # stratified: everything inherited from the file, nothing on the command line, no "type" in the file:
            # the default type must follow the encoding found in the file
            dt, nc, enc_cli, type_cli = ["uint32", "uint64", "uint32"][k % 3], 1, None, None
        info0 = {"data_type": dt, "num_channels": nc,
                 "scales": [{"size": size, "resolution": res, "voxel_offset": [0, 0, 0]}]}
        it = rng.choice([None, "image", "segmentation"])
        ie = rng.choice([None, "raw", "compressed_segmentation"]) if dt in ("uint32", "uint64") else rng.choice([None, "raw"])
        hb = rng.random() < 0.3
        if k < 6:
            it, ie, hb = None, ["compressed_segmentation", "compressed_segmentation", "raw"][k % 3], k >= 3
        if it:
            info0["type"] = it
        if ie:
            info0["scales"][0]["encoding"] = ie
        if hb:
            info0["scales"][0]["compressed_segmentation_block_size"] = [4, 4, 4]
        d = os.path.join(R.tmp, f"gsi{k}")
        os.makedirs(d)
        src = os.path.join(d, "fullres.json")
        with open(src, "w") as f:
            json.dump(info0, f)
        argv = ["generate-scales-info", src, os.path.join(d, "out"), "--target-chunk-size", str(target)]
        if ms is not None:
            argv += ["--max-scales", str(ms)]
        if enc_cli:
            argv += ["--encoding", enc_cli]
        if type_cli:
            argv += ["--type", type_cli]
        rc = outcome_of(lambda: gsi.main(argv))
        direct, info_in, _ = run_impl(size, res, target, ms)
        case = {"size": size, "resolution": [r if isinstance(r, int) else float(r).hex() for r in res],
                "target": target, "max_scales": ms, "data_type": dt, "cli": [enc_cli, type_cli],
                "info": [it, ie, hb], "via": "generate_scales_info.main"}
        R.case(case, nontrivial=True)
        R.count(f"main:{rc[0] if rc[0] == 'ok' else rc[-1]}")
        m = R.model.call("set_info_params", [(type_cli or "").encode(), (enc_cli or "").encode(),
                                              (it or "").encode(), (ie or "").encode(), dt.encode(), hb])
        m_ty, m_enc, m_dt, m_blk = bytes(m[0]).decode(), bytes(m[1]).decode(), bytes(m[2]).decode(), m[3] == "true"
        if direct[0] != "ok":
            if rc[0] == "ok":
                R.disagree("main succeeded where fill_scales_for_dyadic_pyramid fails", case, rc, direct)
            continue
        if rc != ["ok", 0]:
            R.violation("generate_scales_info.main failed on a valid description", case, rc)
            continue
        try:
            with open(os.path.join(d, "out", "info")) as f:
                written = json.load(f)
        except (OSError, ValueError) as exc:
            R.violation("info file missing or not valid JSON", case, repr(exc))
            continue
        if pc.canon_scales(written) != direct[1]:
            R.disagree("info file vs fill_scales_for_dyadic_pyramid", case, _js(pc.canon_scales(written)),
                       _js(direct[1]))
        got = (written.get("type"), written["scales"][0].get("encoding"), written.get("data_type"))
        if got != (m_ty, m_enc, m_dt):
            R.disagree("set_info_params reconciliation", case, list(got), [m_ty, m_enc, m_dt])
        blk = written["scales"][0].get("compressed_segmentation_block_size")
        want_blk = [8, 8, 8] if m_blk else ([4, 4, 4] if hb else None)
        if blk != want_blk:
            R.disagree("set_info_params block size", case, blk, want_blk)
        # oracle: reconciliation rules of the statement + every scale accepted by the encoders
        if it is None and type_cli is None:
            want_ty = "segmentation" if written["scales"][0].get("encoding") == "compressed_segmentation" else "image"
            R.count("main:default-type:" + want_ty)
            if written.get("type") != want_ty:
                R.violation("the default dataset type does not follow the encoding of the scales (a "
                            "compressed_segmentation pyramid must be a segmentation)", case,
                            {"type": written.get("type"), "encoding": written["scales"][0].get("encoding")})
        if m_enc == "compressed_segmentation" and (written["data_type"] not in ("uint32", "uint64")
                                                   and dt in ("uint8", "uint16", "uint32", "uint64")):
            R.violation("compressed_segmentation kept a data type it does not support", case, written["data_type"])
        for s in written["scales"]:
            for fld in ("encoding", "voxel_offset", "compressed_segmentation_block_size"):
                if s.get(fld) != written["scales"][0].get(fld):
                    R.violation("per-scale field differs from the full-resolution scale", case, fld)
            ok_enc = not (m_enc == "jpeg" and (dt != "uint8" or nc not in (1, 3))) and \
                not (m_enc == "compressed_segmentation" and written["data_type"] not in ("uint32", "uint64"))
            enc = outcome_of(lambda: chunk_encoding.get_encoder(written, s) is not None)
            if ok_enc and enc != ["ok", True]:
                R.violation("a generated scale is refused by chunk_encoding.get_encoder", case, enc)

    # -------- second invocations and multi-scale descriptions (state surviving between calls)
    _rerun_and_multiscale_stream(R, rng, quick)

    # -------- libm probes (tests of modelling assumptions, not proofs)
    bad = []
    for s in list(range(1, 3000)) + [2 ** k + dd for k in range(2, 31) for dd in (-1, 0, 1)] + [10 ** 6, 10 ** 9]:
        for t in (0, 1, 3, 6, 8):
            if math.ceil(math.log2(s / 2 ** t)) != pc.log2_up(s) - t:
                bad.append((s, t))
    R.extra["ceil_log2_ratio_mismatches"] = bad[:10]
    if bad:
        R.violation("libm: ceil(log2(size/target)) differs from the exact value on a reachable size",
                    {"size_target": bad[0]}, {})
    bad2 = []
    for _ in range(20000 if quick else 400000):
        q = rng.uniform(1, 2) * 2 ** rng.randrange(0, 20)
        if int(round(math.log2(q))) != pc.exact_round_log2(Fraction(q)):
            bad2.append(q.hex())
    near = []
    for k in range(0, 12):
        x = math.sqrt(2) * 2 ** k
        for y in (math.nextafter(x, 0), x, math.nextafter(x, math.inf)):
            if int(round(math.log2(y))) != pc.exact_round_log2(Fraction(y)):
                near.append(y.hex())
    R.extra["round_log2_mismatches_random"] = bad2[:10]
    R.extra["round_log2_mismatches_adjacent_to_sqrt2"] = near[:10]
    R.notes.append("int(round(math.log2(q))) is modelled by the exact criterion 2^(2k-1) < q^2 < 2^(2k+1); tested on "
                   f"random ratios ({len(bad2)} mismatches) and on the floats adjacent to sqrt(2)*2^k "
                   f"({len(near)} mismatches; such ratios are not generated)")
    R.notes.append("math.ceil(math.log2(size/target)) is modelled by Z.log2_up size - t; tested on 1..2999, 2^k+-1, 1e6, 1e9")
    R.notes.append("float64 multiply/divide are Coq.Floats.SpecFloat SFmul/SFdiv (53, 1024); format(x,'.0f') is exact "
                   "half-to-even rounding of the binary value")
    if bad2:
        R.violation("libm: round(log2 q) differs from the exact value on a random ratio", {"q": bad2[0]}, {})

    # -------- self-check of the closed-form compatibility predicate against the per-axis simulation
    mism = []
    for os_ in range(1, 26):
        for f in (1, 2):
            ns = pc.ceil_div(os_, f)
            if (os_ == ns) != (f == 1):
                continue
            for oc in range(1, 10):
                for nc in range(1, 10):
                    if pc.py_compat_axis(os_, ns, oc, nc) != (pc.py_axis_sim(os_, ns, oc, nc) == "exact"):
                        mism.append((os_, ns, oc, nc))
    R.extra["compat_axis_vs_simulation_mismatches"] = mism[:10]
    if mism:
        R.disagree("compat_axis closed form vs per-axis simulation", {"axis": mism[0]}, None, None)
    logging.disable(logging.NOTSET)
    if os.environ.get("VERIF_DEBUG"):
        import collections
        print(collections.Counter(v["what"] for v in R.violations))
        for v in R.violations[:6]:
            print(v)
        for v in R.disagreements[:6]:
            print(v)


def _rerun_and_multiscale_stream(R, rng, quick, only=None):
    """(1) generate-scales-info invoked a SECOND time into a destination that already holds an info:
    either it fails, or the info found there is the pyramid of the description given to THAT run.
    (2) a description that already lists several scales (the info of an earlier run with another target,
    or hand-written extra scales): only the first scale counts, the written info / the filled dict is the
    pyramid of that scale for the requested target.  Kinds are stratified (k mod 4), not drawn."""
    from neuroglancer_scripts import dyadic_pyramid as dp
    from neuroglancer_scripts.scripts import generate_scales_info as gsi

    def expected(size, res, target, ms):
        mod = model_outcome(R.model.call(*model_req(size, res, target, ms)))
        return pc.canon_model_scales(mod[1]) if mod[0] == "ok" else None

    def desc(size, res, scales_extra=()):
        return {"type": "image", "data_type": "uint8", "num_channels": 1,
                "scales": [{"size": list(size), "resolution": list(res), "voxel_offset": [0, 0, 0],
                            "encoding": "raw"}] + list(scales_extra)}

    def run_main(k, tag, description, dest, target, ms):
        src = os.path.join(R.tmp, f"rr{k}-{tag}.json")
        with open(src, "w") as f:
            json.dump(description, f)
        before = open(src).read()
        argv = ["generate-scales-info", src, dest, "--target-chunk-size", str(target)]
        if ms is not None:
            argv += ["--max-scales", str(ms)]
        rc = outcome_of(lambda: gsi.main(argv))
        if open(src).read() != before:
            R.violation("generate-scales-info modified its input file", {"argv": argv[1:]}, {})
        return rc

    def written(dest):
        try:
            with open(os.path.join(dest, "info")) as f:
                return pc.canon_scales(json.load(f))
        except (OSError, ValueError, KeyError, TypeError) as exc:
            return repr(exc)

    kinds = ["second-invocation", "multi-scale-earlier-run", "multi-scale-junk", "fill-multi-scale"]
    for k in range(1 if only else (28 if quick else 400)):
        kind = kinds[k % 4]
        size, res, target, ms = gen_case(rng)
        if only:                                   # replay of one recorded case
            kind, size, res, target, ms = only
            k = 10 ** 6 + rng.randrange(10 ** 6)
        if ms == 0:
            ms = None
        exp = expected(size, res, target, ms)
        if exp is None:
            continue
        dest = os.path.join(R.tmp, f"rr{k}")
        case = {"kind": kind, "size": size, "resolution": [r if isinstance(r, int) else float(r).hex() for r in res],
                "target": target, "max_scales": ms}
        R.case(case, nontrivial=True)
        junk = {"size": [7, 7, 7], "resolution": [3, 3, 3], "voxel_offset": [0, 0, 0], "encoding": "raw",
                "key": "junk", "chunk_sizes": [[5, 5, 5]]}
        if kind == "second-invocation":
            rc1 = run_main(k, "a", desc(size, res), dest, target, ms)
            if rc1 != ["ok", 0] or written(dest) != exp:
                R.violation("first generate-scales-info run into a fresh destination failed or wrote another pyramid",
                            case, {"rc": rc1})
                continue
            size2 = [s + 1 + rng.randrange(3) for s in size]
            target2 = target * 2 if target < 256 else target // 2
            exp2 = expected(size2, res, target2, ms)
            rc2 = run_main(k, "b", desc(size2, res), dest, target2, ms)
            now = written(dest)
            R.count("second-invocation:" + ("rc0" if rc2 == ["ok", 0] else rc2[-1]))
            if rc2 == ["ok", 0]:
                if now != exp2:
                    R.violation("second generate-scales-info run reported success but the info at the destination is "
                                "not the pyramid of the description given to that run", {**case, "second_size": size2,
                                                                                          "second_target": target2},
                                {"info_is_the_stale_first_one": now == exp})
            elif now != exp:
                R.violation("a failed second generate-scales-info run damaged the existing info", case, {"rc": rc2})
            continue
        if kind == "multi-scale-earlier-run":
            earlier = pc.base_info(size, res)
            dp.fill_scales_for_dyadic_pyramid(earlier, target_chunk_size=(target * 4 if target <= 64 else target // 4),
                                              max_scales=3)
            extra = earlier["scales"][1:] or [junk]
        else:
            extra = [junk, dict(junk, key="junk2", size=[1, 2, 3])]
        if kind == "fill-multi-scale":
            d = desc(size, res, extra)
            ret = outcome_of(lambda: dp.fill_scales_for_dyadic_pyramid(d, target_chunk_size=target, max_scales=ms))
            R.count("fill-multi-scale:" + ret[0])
            if ret[0] != "ok" or pc.canon_scales(ret[1]) != exp:
                R.violation("fill_scales_for_dyadic_pyramid on a multi-scale description does not return the pyramid "
                            "of the first scale", case, {"outcome": ret[0]})
            elif ret[1] is not d or pc.canon_scales(d) != exp:
                R.violation("fill_scales_for_dyadic_pyramid did not fill the caller's info dict (documented in-place "
                            "contract; generate-scales-info writes that dict)", case,
                            {"caller_scales": len(d["scales"]), "expected_scales": len(exp)})
            continue
        rc = run_main(k, "m", desc(size, res, extra), dest, target, ms)
        R.count(f"{kind}:" + ("rc0" if rc == ["ok", 0] else rc[-1]))
        if rc != ["ok", 0]:
            R.violation("generate-scales-info failed on a description that lists several scales", case, {"rc": rc})
        elif written(dest) != exp:
            got = written(dest)
            R.violation("generate-scales-info on a multi-scale description did not write the pyramid of the first "
                        "scale for the requested target", case,
                        {"written_scales": len(got) if isinstance(got, list) else got, "expected_scales": len(exp)})


def replay(R, payload):
    """Re-run the recorded case; True iff a failure of the same kind is still observed."""
    case = payload.get("case", {})
    if case.get("kind") in ("second-invocation", "multi-scale-earlier-run", "multi-scale-junk", "fill-multi-scale"):
        import logging
        logging.disable(logging.CRITICAL)
        res = [r if isinstance(r, int) else float.fromhex(r) for r in case["resolution"]]
        _rerun_and_multiscale_stream(R, R.rng, True, only=(case["kind"], case["size"], res, case["target"],
                                                            case.get("max_scales")))
        logging.disable(logging.NOTSET)
        return bool(R.violations or R.disagreements)
    if "size" not in case or "length_nm" in case:
        return True
    res = [r if isinstance(r, int) else float.fromhex(r) for r in case["resolution"]]
    size, target, ms = case["size"], case["target"], case.get("max_scales")
    impl, info_in, info = run_impl(size, res, target, ms)
    mod = model_outcome(R.model.call(*model_req(size, res, target, ms)))
    judge(R, case, impl, mod, info_in, size, res, target, ms)
    return bool(R.violations or R.disagreements)
