"""C20 — reported statistics.

Correspondence: utils.readable_count and scale_stats.show_scales_info vs
coq/theories/Stats/Readable.v.  Oracle: the text is parsed back
(independently, in Python integers) and must have >= 2 significant digits (or
be the exact count), <= 6 characters below 2^60, and lie within half a unit of
the last displayed digit of the true value; reported chunk counts / sizes must
equal what a real conversion writes and decodes.
"""
import contextlib
import io
import json
import os
import re
import shutil
from fractions import Fraction

import numpy as np

from harness import pipeline

RULE = ("readable_count on every integer in windows around k*1024^j, 9.95*1024^j, 10*1024^j, "
        "999.5*1024^j, 1000*1024^j, an exhaustive initial range, random up to 2^70; "
        "show_scales_info on random infos and on datasets really converted. "
        "non-trivial = count >= 1000 (a prefix is chosen) or info with >= 2 chunks")

PREFIX = {"": 0, "ki": 10, "Mi": 20, "Gi": 30, "Ti": 40, "Pi": 50, "Ei": 60}


def oracle_readable(c, s):
    """None if s is an acceptable rendering of c, else a reason."""
    m = re.fullmatch(r"([0-9,]+)(?:\.([0-9]))? ([kMGTPE]i)?", s)
    if not m:
        return "unparseable"
    ip, frac, pre = m.group(1), m.group(2), m.group(3) or ""
    if "," in ip and c < 2 ** 60:
        return "thousands separator below 2^60"
    ipn = int(ip.replace(",", ""))
    factor = 2 ** PREFIX[pre]
    if frac is None:
        value, unit = Fraction(ipn), Fraction(1)
        digits = len(str(ipn)) if ipn else 1
    else:
        value, unit = Fraction(10 * ipn + int(frac), 10), Fraction(1, 10)
        digits = len(str(10 * ipn + int(frac))) if ipn else (1 if frac != "0" else 0)
    if c < 2 ** 60 and len(s) > 6:
        return "longer than 6 characters below 2^60"
    exact = (value * factor == c)
    if digits < 2 and not (exact and pre == ""):
        return "fewer than two significant digits"
    # float(count) is correctly rounded: allow its relative error above 2^53
    tol = unit * factor / 2 + (Fraction(c, 2 ** 53) if c >= 2 ** 53 else 0)
    if abs(value * factor - c) > tol:
        return f"not within rounding distance (|{value}*{factor} - {c}| > {tol})"
    return None


def run(R):
    from neuroglancer_scripts.utils import readable_count
    from neuroglancer_scripts.scripts import scale_stats
    R.rule = RULE
    rng = R.rng
    quick = R.tier == "quick"

    # ------------------------------------------------------------ readable_count
    vals = set(range(0, 12000 if quick else 1_000_000))
    w = 120 if quick else 3000
    for j in range(1, 8):
        f = 1024 ** j
        centres = [f, 10 * f, 1000 * f, 100 * f, (199 * f) // 20, (1999 * f) // 2, (19 * f) // 20,
                   (1999 * f) // 20, 999 * f, 1023 * f, 1024 * f - 1]
        for c in centres:
            lo = max(0, c - w)
            vals.update(range(lo, c + w))
    for _ in range(3000 if quick else 200000):
        vals.add(rng.getrandbits(rng.randrange(1, 71)))
    for k in range(50, 72):
        for d in (-2, -1, 0, 1, 2, 2 ** (k - 53), 2 ** (k - 54) + 1):
            vals.add(max(0, 2 ** k + d))
    vals = sorted(vals)
    replies = R.model.batch([("readable", [c]) for c in vals])
    for c, rep in zip(vals, replies):
        try:
            impl = readable_count(c)
        except Exception as e:  # noqa: BLE001
            impl = f"EXC {type(e).__name__}"
        mod = rep[0].decode()
        case = {"count": c}
        R.case(case, nontrivial=c >= 1000)
        R.count("readable:" + (impl.split(" ")[-1] or "unit"))
        if impl != mod:
            R.disagree("readable_count vs model", case, impl, mod)
        why = oracle_readable(c, impl)
        if why:
            R.violation("readable_count: " + why, case, {"impl": impl})
        # the model's own parser must agree with the Python oracle's reading (self-check)
        if c < 2 ** 60 and isinstance(rep[1], list):
            num, den, e = rep[1]
            if Fraction(num, den) * 2 ** e != _value_of(mod):
                R.violation("harness self-check: extracted parse_readable disagrees with the Python parser",
                            case, {"model": mod, "parsed": rep[1]})

    # ------------------------------------------------------------ show_scales_info on infos
    infos = []
    for _ in range(150 if quick else 5000):
        dt = rng.choice(["uint8", "uint16", "uint32", "uint64", "float32"])
        nch = rng.choice([1, 1, 2, 3, 4])
        scales = []
        for k in range(rng.randrange(1, 5)):
            size = [rng.choice([1, 2, 3, 63, 64, 65, 100, 1000, 4097, rng.randrange(1, 3000)]) for _ in range(3)]
            if rng.random() < 0.1:
                # large volumes, kept below the int64 range of np.prod (guard of the model: < 2^63 bytes)
                size = [rng.choice([10 ** 5, 2 ** 17, 2 ** 18 - 1]) for _ in range(3)]
            cs = [rng.choice([1, 2, 8, 32, 64, 128]) for _ in range(3)]
            css = [cs]
            if rng.random() < 0.3:       # several chunk layouts for one scale
                css += [[rng.choice([1, 4, 16, 64]) for _ in range(3)] for _ in range(rng.choice([1, 2]))]
            sc = {"key": f"s{k}", "size": size, "chunk_sizes": css, "resolution": [1, 1, 1],
                  "encoding": "raw", "voxel_offset": [0, 0, 0]}
            if rng.random() < 0.25:
                sc["sharding"] = {"@type": "neuroglancer_uint64_sharded_v1", "shard_bits": rng.randrange(0, 5),
                                  "minishard_bits": rng.randrange(0, 4), "preshift_bits": 0, "hash": "identity",
                                  "minishard_index_encoding": "raw", "data_encoding": "raw"}
            scales.append(sc)
        infos.append({"type": "image", "data_type": dt, "num_channels": nch, "scales": scales})
    for info in infos:
        _check_info(R, scale_stats, info, real=None)

    # ------------------------------------------------------------ really converted datasets
    n_real = 9 if quick else 60
    for i in range(n_real):
        shape = [rng.randrange(1, 14) for _ in range(3)]
        dt = rng.choice(["uint8", "uint16", "float32"])
        arr = (np.arange(int(np.prod(shape))) % 251).astype(dt).reshape(shape)
        # anisotropic voxels give anisotropic chunk sizes (a chunk grid that differs per axis)
        vox = rng.choice([(1.0, 1.0, 1.0), (1.0, 2.0, 1.0), (1.0, 1.0, 2.0), (2.0, 1.0, 1.0), (1.0, 4.0, 2.0)])
        if i == 0:
            shape = [5, 13, 5]
            arr = (np.arange(int(np.prod(shape))) % 251).astype(dt).reshape(shape)
            vox = (1.0, 2.0, 1.0)           # chunk size along y smaller than along z
        damage = i % 3 == 1
        if i == 2:
            # float32 volume whose chunks beyond x >= 8 hold nothing but NaN (outside the field of view)
            dt, shape, vox = "float32", [13, 5, 5], (1.0, 1.0, 1.0)
            arr = (np.arange(int(np.prod(shape))) % 251).astype(dt).reshape(shape)
            arr[8:, :, :] = np.nan
            R.count("real:float32-with-all-NaN-chunks")
        d = os.path.join(R.tmp, f"ds{i}")
        os.makedirs(d)
        nii = os.path.join(d, "v.nii")
        pipeline.write_nifti(nii, arr, affine=np.diag(list(vox) + [1.0]))
        # every dataset of the run is produced at the SAME path (removed in between): the statistics must be
        # those of the dataset that is there now, not of one seen earlier in this process
        out = os.path.join(R.tmp, "real-out")
        shutil.rmtree(out, ignore_errors=True)
        flat = rng.random() < 0.5
        opts = (["--flat"] if flat else []) + (["--no-gzip"] if rng.random() < 0.5 else [])
        steps = [("volume_to_precomputed", ["--generate-info", nii, out]),
                 ("generate_scales_info", [os.path.join(out, "info_fullres.json"), out,
                                           "--target-chunk-size", rng.choice([2, 4, 8])]),
                 ("volume_to_precomputed", [nii, out] + opts),
                 ("compute_scales", [out] + opts)]
        ok = True
        for name, args in steps:
            if name == "compute_scales" and damage:
                # one chunk of the full-resolution scale cut short: compute-scales must fail, or else the
                # statistics below must still match what is really there
                key0 = json.load(open(os.path.join(out, "info")))["scales"][0]["key"]
                files0 = sorted(os.path.join(r_, f_) for r_, _d, fs in os.walk(os.path.join(out, key0)) for f_ in fs)
                if files0 and len(json.load(open(os.path.join(out, "info")))["scales"]) > 1:
                    with open(files0[-1], "r+b") as fh:
                        fh.truncate(max(1, os.path.getsize(files0[-1]) // 2))
                    R.count("real:source-chunk-truncated")
                else:
                    damage = False
            rc, so, se = pipeline.run_script(name, args, inprocess=True)
            if rc != 0:
                ok = False
                R.count(f"real:{name}:failed")
                break
        if not ok:
            continue
        if damage:
            # compute-scales exited 0 on a truncated source chunk: the lower scales must be complete all the same
            info_d = json.load(open(os.path.join(out, "info")))
            for s_ in info_d["scales"][1:]:
                have = pipeline.count_grid_files(out, s_["key"], s_["size"], s_["chunk_sizes"][0])
                want = len(pipeline.chunk_grid(s_["size"], s_["chunk_sizes"][0]))
                if have != want:
                    R.violation("compute-scales exited 0 on an unreadable source chunk and scale-stats counts chunks "
                                "that were never written", {"scale": s_["key"]}, {"reported": want, "files": have})
            continue
        info = json.load(open(os.path.join(out, "info")))
        real = {}
        pio = pipeline.fresh_io(out)
        unreadable = None
        for s in info["scales"]:
            try:
                _vol, _n, nbytes = pipeline.read_scale(pio, s, info["num_channels"], np.dtype(info["data_type"]))
            except Exception as e:  # noqa: BLE001
                unreadable = (s, f"{type(e).__name__}: {e}"[:200])
                break
            real[s["key"]] = (pipeline.count_grid_files(out, s["key"], s["size"], s["chunk_sizes"][0]), nbytes)
        if unreadable:
            s_, why = unreadable
            have = pipeline.count_grid_files(out, s_["key"], s_["size"], s_["chunk_sizes"][0])
            R.violation("every command exited 0 but the chunks that scale-stats counts are not all there",
                        {"shape": shape, "voxel_size": list(vox), "scale": s_["key"], "chunk_size": s_["chunk_sizes"][0]},
                        {"reported": len(pipeline.chunk_grid(s_["size"], s_["chunk_sizes"][0])), "files": have,
                         "error": why})
            continue
        _check_info(R, scale_stats, info, real=real, via_cmd=out)
        R.count("real:ok")
        # the same dataset converted into a destination whose first scale lists a SECOND chunk size: every
        # chunking that scale-stats counts must really be on disk
        if i % 2 == 0:
            out2 = os.path.join(R.tmp, "real-out2")
            shutil.rmtree(out2, ignore_errors=True)
            info2 = json.loads(json.dumps(info))
            cs0 = info2["scales"][0]["chunk_sizes"][0]
            extra = [max(1, c // 2) if k == i % 3 else c * 2 for k, c in enumerate(cs0)]
            info2["scales"][0]["chunk_sizes"].append(extra)
            # the source gets the second chunking too (written through the I/O layer), then it is converted
            vol0 = pipeline.read_scale(pio, info["scales"][0], info["num_channels"], np.dtype(info["data_type"]))[0]
            with open(os.path.join(out, "info"), "w") as f:
                json.dump(info2, f)
            pio2 = pipeline.fresh_io(out, {"flat": flat, "gzip": "--no-gzip" not in opts})
            for (x0, x1, y0, y1, z0, z1) in pipeline.chunk_grid(info2["scales"][0]["size"], extra):
                pio2.write_chunk(np.ascontiguousarray(vol0[:, z0:z1, y0:y1, x0:x1]), info2["scales"][0]["key"],
                                 (x0, x1, y0, y1, z0, z1))
            rc, so, se = pipeline.run_script("convert_chunks", [out, out2, "--copy-info"] + opts, inprocess=True)
            R.count("real:two-chunk-sizes:" + ("converted" if rc == 0 else "convert-failed"))
            if rc == 0:
                buf = io.StringIO()
                with contextlib.redirect_stdout(buf), np.errstate(all="ignore"):
                    scale_stats.main(["scale-stats", out2])
                rows = [LINE.match(ln) for ln in buf.getvalue().splitlines() if ln.startswith("Scale ")]
                grids = [(s_, cs_) for s_ in info2["scales"] for cs_ in s_["chunk_sizes"]]
                if len(rows) != len(grids) or not all(rows):
                    R.violation("scale-stats output not parseable (two chunk sizes)", {"info": info2}, {})
                else:
                    for row, (s_, cs_) in zip(rows, grids):
                        rep = int(row.group(6).replace(",", ""))
                        have = pipeline.count_grid_files(out2, s_["key"], s_["size"], cs_)
                        if rep != have:
                            R.violation("reported chunk count differs from the files really written (scale with "
                                        "several chunk sizes)", {"scale": s_["key"], "chunk_size": cs_,
                                                                 "size": s_["size"]}, {"reported": rep, "files": have})

    _slice_datasets(R, rng, scale_stats)
    _sharded_datasets(R, rng, scale_stats)


def _sharded_datasets(R, rng, scale_stats):
    """Sharded conversions whose chunk grids are not powers of two (3 x 3 x 1 at full resolution; one minishard
    holding the identifiers 0,1,2,3,4,6,8,9,12 with three separate holes; 8 minishards of which two in the middle
    stay unused; two shards of two minishards).  Every chunk that scale-stats
    counts must be readable through a fresh accessor, and the decoded byte size must be the reported one."""
    for k, (shape, spec) in enumerate([([12, 12, 4], "0,0,0"), ([12, 12, 4], "3,0,0"), ([12, 9, 4], "1,1,0")]):
        d = os.path.join(R.tmp, f"shds{k}")
        os.makedirs(d)
        arr = (np.arange(int(np.prod(shape))) % 249 + 1).astype("uint8").reshape(shape)
        nii = os.path.join(d, "v.nii")
        pipeline.write_nifti(nii, arr, affine=np.eye(4))
        out = os.path.join(d, "out")
        steps = [("volume_to_precomputed", ["--generate-info", "--sharding", spec, nii, out]),
                 ("generate_scales_info", [os.path.join(out, "info_fullres.json"), out, "--target-chunk-size", 4]),
                 ("volume_to_precomputed", [nii, out]),
                 ("compute_scales", [out])]
        case = {"kind": "sharded dataset", "shape": shape, "sharding": spec}
        R.case(case, nontrivial=True)
        failed = None
        for name, args in steps:
            rc, so, se = pipeline.run_script(name, args, inprocess=False)
            if rc != 0:
                failed = name
                break
        if failed:
            R.count(f"sharded-real:{failed}:failed")
            R.violation("a sharded conversion of a small volume failed", dict(case, step=failed), {"stderr": se[-300:]})
            continue
        info = json.load(open(os.path.join(out, "info")))
        pio = pipeline.fresh_io(out)
        buf = io.StringIO()
        with contextlib.redirect_stdout(buf), np.errstate(all="ignore"):
            scale_stats.main(["scale-stats", out])
        rows = [LINE.match(ln) for ln in buf.getvalue().splitlines() if ln.startswith("Scale ")]
        if len(rows) != len(info["scales"]) or not all(rows):
            R.violation("scale-stats output not parseable (sharded dataset)", case, {"stdout": buf.getvalue()[:300]})
            continue
        R.count("sharded-real:ok")
        from neuroglancer_scripts.utils import readable_count
        for row, s_ in zip(rows, info["scales"]):
            rep = int(row.group(6).replace(",", ""))
            grid = pipeline.chunk_grid(s_["size"], s_["chunk_sizes"][0])
            readable, nbytes, err = 0, 0, None
            for cc in grid:
                try:
                    ch = pio.read_chunk(s_["key"], cc)
                    readable += 1
                    nbytes += ch.nbytes
                except Exception as e:  # noqa: BLE001
                    err = f"{type(e).__name__}: {e}"[:160]
            if readable != rep or readable != len(grid):
                R.violation("reported chunk count differs from the chunks that can be read back (sharded dataset)",
                            dict(case, scale=s_["key"]), {"reported": rep, "readable": readable, "grid": len(grid),
                                                          "error": err})
            elif readable_count(nbytes) != row.group(8):
                R.violation("reported size differs from the decoded byte size (sharded dataset)",
                            dict(case, scale=s_["key"]), {"reported": row.group(8), "decoded_bytes": nbytes})


def _slice_datasets(R, rng, scale_stats):
    """Datasets produced by slices-to-precomputed with non-cubic chunk sizes and non-axial orientations: the
    chunks that scale-stats counts must be on disk."""
    from PIL import Image
    from harness.props.c15 import make_info
    AXn = {"R": 0, "L": 0, "A": 1, "P": 1, "S": 2, "I": 2}
    for k, (code, chunk) in enumerate([("RIA", [4, 5, 2]), ("ASR", [2, 3, 5]), ("RAS", [3, 2, 4]), ("LIP", [4, 2, 8])]):
        size = [9, 11, 7]
        w, h, n = size[AXn[code[0]]], size[AXn[code[1]]], size[AXn[code[2]]]
        sdir = os.path.join(R.tmp, f"slstack{k}")
        os.makedirs(sdir)
        for j in range(n):
            Image.fromarray(np.frombuffer(rng.randbytes(w * h), dtype="uint8").reshape(h, w), mode="L").save(
                os.path.join(sdir, f"s{j:03d}.png"))
        dest = os.path.join(R.tmp, f"slout{k}")
        make_info(dest, size, chunk, 1, "uint8")
        rc, so, se = pipeline.run_script("slices_to_precomputed", [sdir, dest, "--input-orientation", code],
                                         inprocess=True)
        case = {"slices_dataset": True, "orientation": code, "size": size, "chunk_size": chunk}
        R.case(case, nontrivial=True)
        R.count("slices:" + ("converted" if rc == 0 else "failed"))
        if rc != 0:
            R.violation("slices-to-precomputed failed on a plain 8-bit stack", case, {"stderr": se[-300:]})
            continue
        buf = io.StringIO()
        with contextlib.redirect_stdout(buf), np.errstate(all="ignore"):
            scale_stats.main(["scale-stats", dest])
        rows = [LINE.match(ln) for ln in buf.getvalue().splitlines() if ln.startswith("Scale ")]
        if len(rows) != 1 or not rows[0]:
            R.violation("scale-stats output not parseable (slices dataset)", case, {})
            continue
        rep = int(rows[0].group(6).replace(",", ""))
        have = pipeline.count_grid_files(dest, "full", size, chunk)
        if rep != have:
            R.violation("reported chunk count differs from the files really written (dataset converted from slices)",
                        case, {"reported": rep, "files": have})


def _value_of(text):
    m = re.fullmatch(r"([0-9]+)(?:\.([0-9]))? ([kMGTPE]i)?", text)
    ip, frac, pre = m.group(1), m.group(2), m.group(3) or ""
    v = Fraction(int(ip)) if frac is None else Fraction(10 * int(ip) + int(frac), 10)
    return v * 2 ** PREFIX[pre]


LINE = re.compile(r"Scale (\S+), (.*?), chunk size \[(\d+), (\d+), (\d+)\]: ([\d,-]+) chunks, ([\d,-]+) directories,"
                  r" raw uncompressed size (.*)B$")
TOTAL = re.compile(r"Total: ([\d,-]+) chunks, ([\d,-]+) directories, raw uncompressed size (.*)B$")


def _check_info(R, scale_stats, info, real=None, via_cmd=None):
    from neuroglancer_scripts.utils import readable_count
    buf = io.StringIO()
    snapshot = json.dumps(info, sort_keys=True)
    with contextlib.redirect_stdout(buf), np.errstate(all="ignore"):
        if via_cmd:
            scale_stats.main(["scale-stats", via_cmd])
        else:
            scale_stats.show_scales_info(info)
    lines = buf.getvalue().splitlines()
    # the caller's info is only read, and asking again gives the same answer
    buf2 = io.StringIO()
    with contextlib.redirect_stdout(buf2), np.errstate(all="ignore"):
        scale_stats.show_scales_info(info)
    changed = json.dumps(info, sort_keys=True) != snapshot
    if changed or (not via_cmd and buf2.getvalue().splitlines() != lines):
        R.violation("show_scales_info modified the info it was given, or a second request on the same info "
                    "reports other numbers", {"data_type": info["data_type"], "num_channels": info["num_channels"],
                                               "scales": [[x["key"], x["size"][:3]] for x in info["scales"]]},
                    {"info_changed": changed, "first": lines[-1:], "second": buf2.getvalue().splitlines()[-1:]})
        info = json.loads(snapshot)
    itemsize = np.dtype(info["data_type"]).itemsize
    nch = info["num_channels"]
    reqs = []
    for s in info["scales"]:
        for cs in s["chunk_sizes"]:
            reqs.append(("stats", [s["size"], cs, itemsize, nch]))
    replies = R.model.batch(reqs)
    rows = [LINE.match(ln) for ln in lines if ln.startswith("Scale ")]
    case = {"data_type": info["data_type"], "num_channels": nch,
            "scales": [[s["key"], s["size"], s["chunk_sizes"]] for s in info["scales"]]}
    big = any(np.prod([float(x) for x in s["size"]]) * itemsize * nch >= 2 ** 63 for s in info["scales"])
    R.case(case, nontrivial=any(-(-s["size"][0] // s["chunk_sizes"][0][0]) > 1 for s in info["scales"]))
    R.count("stats:" + ("real" if real else "info") + (":int64-overflow" if big else "")
            + (":multi-layout" if any(len(s["chunk_sizes"]) > 1 for s in info["scales"]) else ""))
    if len(rows) != len(reqs) or not all(rows):
        R.violation("scale-stats output not parseable", case, {"stdout": lines[:6]})
        return
    tot_chunks = tot_bytes = 0
    owners = [s for s in info["scales"] for _cs in s["chunk_sizes"]]
    for (op, (size, cs, _i, _n)), rep, row, s in zip(reqs, replies, rows, owners):
        m_chunks, m_bytes = rep
        rep_chunks = int(row.group(6).replace(",", ""))
        rep_size = row.group(8)
        if rep_chunks != m_chunks:
            R.disagree("reported chunk count vs model", case, rep_chunks, m_chunks)
        true_chunks = 1
        for a, b in zip(size, cs):
            true_chunks *= -(-a // b)
        true_bytes = size[0] * size[1] * size[2] * itemsize * nch
        if true_chunks <= 5000:
            n_grid, n_vox = R.model.call("grid", [size, cs])
            if n_grid != true_chunks or n_vox != size[0] * size[1] * size[2]:
                R.violation("harness self-check: model chunk grid", case, {"model": [n_grid, n_vox]})
        if true_bytes < 2 ** 63:
            if rep_chunks != true_chunks:
                R.violation("reported chunk count differs from the chunk grid", case,
                            {"reported": rep_chunks, "grid": true_chunks, "scale": s["key"]})
            want = readable_count(true_bytes)
            if rep_size != want:
                R.violation("reported size is not the rendering of size*itemsize*channels", case,
                            {"reported": rep_size, "want": want, "scale": s["key"]})
            if m_bytes != true_bytes:
                R.disagree("model size vs reference", case, m_bytes, true_bytes)
            tot_chunks += true_chunks
            tot_bytes += true_bytes
        if real is not None:
            files, nbytes = real[s["key"]]
            if files != rep_chunks:
                R.violation("reported chunk count differs from the files really written", case,
                            {"reported": rep_chunks, "files": files, "scale": s["key"]})
            if readable_count(nbytes) != rep_size:
                R.violation("reported size differs from the decoded byte size", case,
                            {"reported": rep_size, "decoded_bytes": nbytes, "scale": s["key"]})
    t = TOTAL.match(lines[-1]) if lines else None
    if t and not big:
        # the model's accumulation (Readable.stats_totals, theorem C20_totals_exact) over the rows the model
        # computed for this info, against the Total line the command printed
        m_tot = R.model.call("totals", [[rep[0], rep[1]] for rep in replies])
        if int(t.group(1).replace(",", "")) != m_tot[0]:
            R.disagree("reported total chunk count vs model", case, t.group(1), m_tot[0])
        if m_tot[1] >= 0 and t.group(3) != readable_count(m_tot[1]):
            R.disagree("reported total size vs model", case, t.group(3), m_tot[1])
    if not t:
        R.violation("scale-stats total line missing", case, {"stdout": lines[-2:]})
    elif not big:
        if int(t.group(1).replace(",", "")) != tot_chunks or t.group(3) != readable_count(tot_bytes):
            R.violation("totals differ from the sum over scales", case,
                        {"reported": [t.group(1), t.group(3)], "want": [tot_chunks, readable_count(tot_bytes)]})


def replay(R, payload):
    from neuroglancer_scripts.utils import readable_count
    case = payload.get("case", {})
    if "count" in case:
        return oracle_readable(case["count"], readable_count(case["count"])) is not None
    # every other case: the generators are deterministic in the recorded seed and tier, so the recorded run is
    # executed again and the recorded kind of failure is looked for on the current tree
    import random
    R.tier = payload.get("tier", R.tier)
    R.rng = random.Random(f"{R.pid}:{payload.get('seed', 0)}")
    run(R)
    want = payload.get("what")
    if payload.get("kind") == "property-violation":
        return any(v["what"] == want for v in R.violations) if want else bool(R.violations)
    return bool(R.violations or R.disagreements)
