"""C02 — compressed_segmentation output conforms to the Neuroglancer format.

Correspondence: CompressedSegmentationEncoder(...).encode / .decode (obtained
through get_encoder) vs coq/theories/Codec/CSegEncode.v / CSegDecode.v.
Oracle, applied to the bytes the *implementation* produced: the extracted
specification decoder and structural validator (Codec/CSegSpec.v) and a short
independent pure-Python restatement of the format (spec_decode_py below); the
package's own decoder must give the input back as well.
"""
import itertools
import struct

from harness.common import outcome_of, model_outcome

RULE = ("chunks (C,Z,Y,X) with C in 1..3 and axes 1..9 (quick) / 1..14 plus 64^3 and 32-bit blocks judged by the Python oracles only (thorough); blocks from "
        "{1,2,3,4,8}^3 incl. non-cubic, larger than the chunk, not dividing it; label pools of size "
        "1,2,3,4,5,16,17,256,257,300 laid out per block region from a few sub-pools (repeated tables), "
        "values from {0,1,2^32-1,2^32,2^53+1,2^64-1,...}; hand-built edge cases first; the caller's array is "
        "presented (stratified) as native / big-endian / narrower unsigned type / Fortran order / strided view / "
        "read-only and must be left unchanged; sessions: one encoder object encodes and decodes several chunks "
        "(same shape, another shape, same shape again) and every earlier result is re-checked afterwards; one "
        "large chunk per run (channel > 2^20 words, table offsets using bits 20..23) judged by the oracles only; "
        "blocks whose distinct tables collide under CRC-32 / Adler-32 (recorded pairs and a fresh birthday search). "
        "non-trivial = at least 2 blocks in a channel and a block with >= 2 labels")

POOL_SIZES = [1, 2, 3, 4, 5, 16, 17, 256, 257, 300]
BLOCK_AXIS = [1, 2, 3, 4, 8]
SPECIAL = [0, 1, 2, 3, 255, 256, 65535, 65536, 2 ** 24 - 1, 2 ** 24, 2 ** 31, 2 ** 32 - 1, 2 ** 32,
           2 ** 32 + 1, 2 ** 53 - 1, 2 ** 53, 2 ** 53 + 1, 2 ** 63, 2 ** 64 - 2, 2 ** 64 - 1]


# ------------------------------------------------------------------ helpers

def dt_bits(dt):
    return 32 if dt == "uint32" else 64


def make_encoder(dt, C, blk):
    from neuroglancer_scripts import chunk_encoding as ce
    info = {"data_type": dt, "num_channels": C}
    scale = {"encoding": "compressed_segmentation", "compressed_segmentation_block_size": list(blk)}
    return ce.get_encoder(info, scale)


def arr_of(dt, C, shape_xyz, values):
    import numpy as np
    X, Y, Z = shape_xyz
    return np.array(values, dtype=np.dtype(dt).newbyteorder("<")).reshape(C, Z, Y, X)


INPUT_FORMS = ["native", "big_endian", "narrower", "fortran", "strided", "readonly"]


def present(a, form, dt):
    """The same label VALUES as [a] (little-endian, C order), held the way a caller may
    hold them: other byte order, a narrower unsigned type that casts safely, non-contiguous
    memory, a read-only buffer, nested Python lists.  Returns (object for encode(), form used)."""
    import numpy as np
    if form == "big_endian":
        return a.astype(a.dtype.newbyteorder(">")), form
    if form == "narrower":
        top = int(a.max()) if a.size else 0
        for cand in ("uint8", "uint16", "uint32"):
            if np.dtype(cand).itemsize < a.dtype.itemsize and top < 2 ** (8 * np.dtype(cand).itemsize):
                order = ">" if top % 2 else "<"
                return a.astype(np.dtype(cand).newbyteorder(order)), form + ":" + cand
        return a, "native"
    if form == "fortran":
        return np.asfortranarray(a), form
    if form == "strided":
        big = np.zeros(tuple(2 * s + 1 for s in a.shape), dtype=a.dtype)
        view = big[1::2, 1::2, 1::2, 1::2]
        view[...] = a
        return view, form
    if form == "readonly":
        b = np.frombuffer(a.tobytes(), dtype=a.dtype).reshape(a.shape)
        assert not b.flags.writeable
        return b, form
    return a, "native"


def canon_arr(a):
    """shape + dtype + little-endian bytes"""
    import numpy as np
    a = np.asarray(a)
    return [list(a.shape), a.dtype.name, np.ascontiguousarray(a).astype(a.dtype.newbyteorder("<")).tobytes()]


def spec_voxel_py(buf, dt, shape_xyz, blk, c, z, y, x):
    """One voxel, read as the format document says (independent of the package and of the model)."""
    X, Y, Z = shape_xyz
    bx, by, bz = blk
    gx, gy = -(-X // bx), -(-Y // by)

    def u32(off):
        if off < 0 or off + 4 > len(buf):
            raise ValueError(f"read of 4 bytes at {off} outside the file ({len(buf)})")
        return int.from_bytes(buf[off:off + 4], "little")
    base = 4 * u32(4 * c)
    h = base + 8 * ((x // bx) + gx * ((y // by) + gy * (z // bz)))
    w0, w1 = u32(h), u32(h + 4)
    table, bits = w0 & 0xFFFFFF, w0 >> 24
    if bits not in (0, 1, 2, 4, 8, 16, 32):
        raise ValueError(f"bit width {bits}")
    p = (x % bx) + bx * ((y % by) + by * (z % bz))
    idx = 0
    if bits:
        word = u32(base + 4 * (w1 + (p * bits) // 32))
        idx = (word >> ((p * bits) % 32)) & ((1 << bits) - 1)
    if dt == "uint64":
        t = base + 4 * table + 8 * idx
        return u32(t) | (u32(t + 4) << 32)
    return u32(base + 4 * table + 4 * idx)


def spec_decode_py(buf, dt, C, shape_xyz, blk):
    """Independent decoder written from the format document.  Returns the list
    of labels in (c, z, y, x) order or raises ValueError naming what is wrong."""
    X, Y, Z = shape_xyz
    bx, by, bz = blk
    gx, gy = -(-X // bx), -(-Y // by)
    wide = dt == "uint64"

    def u32(off):
        if off < 0 or off + 4 > len(buf):
            raise ValueError(f"read of 4 bytes at {off} outside the file ({len(buf)})")
        return int.from_bytes(buf[off:off + 4], "little")

    out = []
    for c in range(C):
        base = 4 * u32(4 * c)
        for z in range(Z):
            for y in range(Y):
                for x in range(X):
                    h = base + 8 * ((x // bx) + gx * ((y // by) + gy * (z // bz)))
                    w0, w1 = u32(h), u32(h + 4)
                    table, bits, values = w0 & 0xFFFFFF, w0 >> 24, w1
                    if bits not in (0, 1, 2, 4, 8, 16, 32):
                        raise ValueError(f"bit width {bits}")
                    p = (x % bx) + bx * ((y % by) + by * (z % bz))
                    if bits == 0:
                        idx = 0
                    else:
                        bitpos = p * bits
                        word = u32(base + 4 * (values + bitpos // 32))
                        idx = (word >> (bitpos % 32)) & ((1 << bits) - 1)
                    if wide:
                        t = base + 4 * table + 8 * idx
                        out.append(u32(t) | (u32(t + 4) << 32))
                    else:
                        out.append(u32(base + 4 * table + 4 * idx))
    return out


def header_stats(buf, C, shape_xyz, blk):
    """(bit widths of all blocks, number of blocks re-using an earlier table,
    number of blocks, max labels) read from well-formed bytes."""
    X, Y, Z = shape_xyz
    bx, by, bz = blk
    nblk = (-(-X // bx)) * (-(-Y // by)) * (-(-Z // bz))
    widths, reused = [], 0
    for c in range(C):
        base = 4 * struct.unpack_from("<I", buf, 4 * c)[0]
        seen = set()
        for k in range(nblk):
            w0, _w1 = struct.unpack_from("<II", buf, base + 8 * k)
            widths.append(w0 >> 24)
            if (w0 & 0xFFFFFF) in seen:
                reused += 1
            seen.add(w0 & 0xFFFFFF)
    return widths, reused, nblk


def dt_code(dt):
    return dt_bits(dt)


def enc_request(dt, C, blk, shape_xyz, data_bytes):
    X, Y, Z = shape_xyz
    return ("cseg_encode", [dt_code(dt), C, list(blk), [C, Z, Y, X], data_bytes])


def dec_request(dt, C, blk, shape_xyz, buf):
    return ("cseg_decode", [dt_code(dt), C, list(blk), list(shape_xyz), bytes(buf)])


def spec_request(dt, C, blk, shape_xyz, buf, full=True):
    X, Y, Z = shape_xyz
    return ("cseg_spec" if full else "cseg_wf", [dt_code(dt), [C, Z, Y, X], list(blk), bytes(buf)])


def model_arr(reply, dt):
    """model outcome carrying ( (C Z Y X) xBYTES ) -> comparable form"""
    o = model_outcome(reply)
    if o[0] == "ok":
        shape, data = o[1]
        return ["ok", [list(shape), dt, bytes(data)]]
    return o


def impl_arr(o):
    if o[0] == "ok":
        return ["ok", canon_arr(o[1])]
    return o


# ------------------------------------------------------------------ generator

def gen_values(rng, dt, C, shape_xyz, blk, pool_size):
    """Labels in (c,z,y,x) order: a pool of [pool_size] labels, a few sub-pools,
    one sub-pool per block region."""
    X, Y, Z = shape_xyz
    bx, by, bz = blk
    mask = (1 << dt_bits(dt)) - 1
    pool = set()
    style = rng.random()
    while len(pool) < pool_size:
        if style < 0.5 and rng.random() < 0.5:
            pool.add(rng.choice(SPECIAL) & mask)
        elif style < 0.8:
            pool.add(rng.getrandbits(rng.choice([3, 8, 16, 24, 32, 33, 53, 54, 64])) & mask)
        else:
            pool.add((rng.choice(SPECIAL) + rng.randrange(-400, 400)) & mask)
    pool = sorted(pool)
    rng.shuffle(pool)
    nsub = rng.choice([1, 1, 2, 3])
    subs = []
    for _ in range(nsub):
        k = rng.choice([len(pool), len(pool), max(1, len(pool) // 2), 1, 2])
        subs.append(pool[:k] if rng.random() < 0.5 else rng.sample(pool, min(k, len(pool))))
    region = {}
    vals = []
    mode = rng.random()
    for c in range(C):
        for z in range(Z):
            for y in range(Y):
                for x in range(X):
                    key = (c if rng.random() < 2 else 0, z // bz, y // by, x // bx)
                    if key not in region:
                        region[key] = rng.randrange(nsub)
                    sub = subs[region[key]]
                    if mode < 0.15 or (len(sub) > 256 and mode < 0.7):
                        # deterministic cycling: every label of the sub-pool appears, tables repeat
                        p = (x % bx) + bx * ((y % by) + by * (z % bz))
                        vals.append(sub[p % len(sub)])
                    else:
                        vals.append(rng.choice(sub))
    return vals


def gen_case(rng, quick):
    dt = rng.choice(["uint32", "uint64"])
    C = rng.choice([1, 1, 2, 3])
    pool_size = rng.choice(POOL_SIZES)
    hi = 9 if quick else 14
    if pool_size > 5 and rng.random() < 0.7:
        # make sure a block can hold the pool
        need = pool_size
        while True:
            blk = [rng.choice(BLOCK_AXIS) for _ in range(3)]
            shape = [rng.randint(max(1, min(b, hi) - 1), hi) for b in blk]
            inside = 1
            for s, b in zip(shape, blk):
                inside *= min(s, b)
            if inside >= need or (need > 256 and inside >= 200):
                break
            if need > 256:
                blk = [8, 8, 8]
                shape = [rng.randint(7, hi) for _ in range(3)]
                break
    else:
        blk = [rng.choice(BLOCK_AXIS) for _ in range(3)]
        shape = [rng.choice([1, 1, 2, 3, rng.randint(1, hi), rng.randint(1, hi)]) for _ in range(3)]
    vals = gen_values(rng, dt, C, shape, blk, pool_size)
    return {"dt": dt, "C": C, "shape": shape, "blk": blk, "values": vals, "pool": pool_size}


def edge_cases():
    out = []

    def add(dt, C, shape, blk, vals, note):
        out.append({"dt": dt, "C": C, "shape": list(shape), "blk": list(blk), "values": list(vals),
                    "pool": len(set(vals)), "note": note})
    add("uint32", 1, (1, 2, 1), (4, 2, 2), [1, 2], "design witness: non-cubic block larger than the chunk")
    add("uint64", 1, (5, 6, 7), (2, 1, 4), [(i * 7) % 5 for i in range(210)], "0-bit / non-cubic witness shape")
    add("uint64", 1, (5, 6, 7), (2, 1, 4), [9] * 210, "all blocks 0 bits, non-cubic")
    add("uint32", 1, (1, 1, 1), (1, 1, 1), [0], "single voxel")
    add("uint64", 3, (1, 1, 1), (8, 8, 8), [2 ** 64 - 1, 0, 2 ** 32], "single voxel, 3 channels, huge block")
    add("uint64", 2, (3, 3, 3), (2, 2, 2), [2 ** 53 + 1 + (i % 3) for i in range(54)], "values above 2^53")
    add("uint32", 1, (9, 1, 1), (4, 1, 1), list(range(9)), "x not divisible")
    add("uint32", 1, (1, 9, 1), (1, 4, 1), list(range(9)), "y not divisible")
    add("uint32", 1, (1, 1, 9), (1, 1, 4), list(range(9)), "z not divisible")
    add("uint32", 1, (3, 5, 2), (3, 5, 2), list(range(30)), "block equals chunk, non-cubic")
    add("uint32", 1, (4, 4, 4), (2, 4, 8), [i % 2 for i in range(64)], "1 bit, anisotropic block")
    add("uint64", 1, (8, 8, 8), (8, 8, 8), [i % 17 for i in range(512)], "17 labels: 8 bits")
    add("uint64", 1, (8, 8, 8), (8, 8, 8), [i % 257 for i in range(512)], "257 labels: 16 bits")
    add("uint32", 1, (8, 8, 8), (8, 8, 8), [i % 256 for i in range(512)], "256 labels: 8 bits exactly")
    add("uint32", 1, (8, 8, 8), (8, 8, 8), [i % 16 for i in range(512)], "16 labels: 4 bits exactly")
    # most frequent value decides the padding: ties resolved to the smallest label
    add("uint32", 1, (3, 1, 1), (2, 1, 1), [5, 5, 3], "padding with the most frequent value")
    add("uint32", 1, (3, 3, 1), (2, 2, 1), [7, 1, 7, 1, 7, 1, 7, 1, 4], "padding tie -> first maximum")
    add("uint32", 2, (4, 2, 2), (2, 2, 2), [1, 1, 2, 2] * 8, "identical tables in blocks and channels")
    # blocks whose voxel count does not fill the last 32-bit word of the packed indices, for every bit width,
    # followed by another block (and another channel) so that a short or long block shifts everything after it
    add("uint32", 1, (14, 7, 7), (7, 7, 7), [(i * 5) % 343 + 1000 * (i // 343) for i in range(686)],
        "16 bits, 343 voxels per block (odd): last word half used")
    add("uint64", 2, (7, 14, 7), (7, 7, 7), [2 ** 40 + (i * 3) % 343 for i in range(1372)],
        "16 bits, odd block, 2 channels, uint64")
    add("uint32", 1, (9, 9, 10), (9, 9, 5), [(i * 7) % 405 for i in range(810)], "16 bits, 405 voxels per block")
    add("uint32", 2, (6, 3, 3), (3, 3, 3), [(i * 5) % 27 for i in range(108)], "8 bits, 27 voxels per block")
    add("uint64", 1, (6, 3, 1), (3, 3, 1), [(i * 2) % 9 for i in range(18)], "4 bits, 9 voxels per block")
    add("uint32", 2, (6, 1, 1), (3, 1, 1), [1, 2, 3, 4, 5, 6, 1, 2, 3, 3, 2, 1], "2 bits, 3 voxels per block")
    add("uint32", 1, (9, 1, 1), (3, 1, 1), [1, 2, 1, 4, 4, 5, 7, 7, 7], "1 and 0 bits, 3 voxels per block")
    # labels that depend on one coordinate only, remainders on two axes: border blocks of DIFFERENT shapes
    # (8x4x8 and 4x8x8 voxels) hold the same sequence of values before padding
    add("uint32", 1, (12, 12, 8), (8, 8, 8), [i % 12 for i in range(1152)], "label = fastest coordinate, two remainders")
    add("uint32", 1, (12, 12, 8), (8, 8, 8), [(i // 12) % 12 for i in range(1152)], "label = middle coordinate")
    add("uint64", 1, (12, 12, 8), (8, 8, 8), [2 ** 33 + i // 144 for i in range(1152)], "label = slowest coordinate")
    add("uint32", 1, (8, 12, 12), (8, 8, 8), [i // 96 for i in range(1152)], "label = slowest coordinate, remainders y z")
    add("uint32", 1, (12, 8, 12), (8, 8, 8), [(i // 12) % 8 for i in range(1152)], "label = middle coordinate, remainders x z")
    return out


# label sets whose sorted little-endian table bytes have equal length and equal CRC-32 (random
# sampling meets such a pair with probability 2^-32 per pair of tables: they are regression inputs)
CRC32_COLLIDING_TABLES = [
    ("uint32", [7405403, 16488276], [2769076, 11651785]),
    ("uint32", [4676163, 6503254], [35306, 16203634]),
    ("uint64", [17352606086, 889083192700, 1048158989099], [403425361052, 463355558615, 467666295062]),
    ("uint64", [719416887463, 1010184768319, 1049246768751], [330550796307, 583173516059, 696741396096]),
]


def find_checksum_collisions(rng, want=3):
    """Fresh pairs of distinct equal-sized lookup tables that collide under the checksums an
    implementation might be tempted to key table re-use by (CRC-32, Adler-32, Python's hash of the
    first/last bytes is not searchable): a birthday search over 2-label uint32 tables, ~0.3 s."""
    import zlib
    out = []
    for name, fn, nsamp in (("crc32", zlib.crc32, 260000), ("adler32", zlib.adler32, 6000)):
        seen, found = {}, 0
        for _ in range(nsamp):
            a = rng.getrandbits(24)
            b = rng.getrandbits(24)
            if a == b:
                continue
            t = (min(a, b), max(a, b))
            k = fn(struct.pack("<II", *t))
            o = seen.setdefault(k, t)
            if o != t:
                out.append(("uint32", list(o), list(t), name))
                found += 1
                if found >= want:
                    break
    return out


def collision_cases(rng):
    """Channels whose blocks hold exactly the label sets A, B, A (and B, A in a second channel):
    block B must get its own table although its table bytes collide with A's under a checksum."""
    cases = []
    pairs = [(dt, ta, tb, "crc32 (recorded)") for dt, ta, tb in CRC32_COLLIDING_TABLES] + find_checksum_collisions(rng)
    for dt, ta, tb, how in pairs:
        n = len(ta)
        for C in (1, 2):
            vals = []
            for c in range(C):
                seq = (ta, tb, ta) if c == 0 else (tb, ta, tb)
                for t in seq:
                    vals += t
            cases.append({"dt": dt, "C": C, "shape": [3 * n, 1, 1], "blk": [n, 1, 1], "values": vals,
                          "pool": 2 * n, "note": "tables colliding under " + how, "form": "native"})
        # the same label sets in 8x8x8 blocks, every label present
        seq = (ta, tb, ta)
        vals = [seq[x // 8][(x + y + z) % n] for z in range(8) for y in range(8) for x in range(24)]
        cases.append({"dt": dt, "C": 1, "shape": [24, 8, 8], "blk": [8, 8, 8], "values": vals, "pool": 2 * n,
                      "note": "tables colliding under " + how, "form": "native"})
    return cases


# ------------------------------------------------------------------ one batch of cases

def check_cases(R, cases, model_level="full", kind="gen"):
    """model_level: "full" = model encode + extracted spec/validator + model decode;
    "encode" = model encode only; "none" = implementation judged by the Python
    oracles only (chunks too large for the extracted binary's list arithmetic)."""
    import numpy as np
    # 1. model encodings
    reqs = []
    arrays = []
    for cs in cases:
        a = arr_of(cs["dt"], cs["C"], cs["shape"], cs["values"])
        arrays.append(a)
        reqs.append(enc_request(cs["dt"], cs["C"], cs["blk"], cs["shape"], a.tobytes()))
    enc_replies = R.model.batch(reqs) if model_level != "none" else [None] * len(reqs)

    # 2. implementation encodings
    impl_bufs = []
    encoders = []
    arg_changed = []
    for i, (cs, a) in enumerate(zip(cases, arrays)):
        enc = make_encoder(cs["dt"], cs["C"], cs["blk"])
        encoders.append(enc)
        # stratified, not random: every form occurs in every batch, for both label types
        form = cs.get("form") or INPUT_FORMS[(i + (0 if cs["dt"] == "uint32" else 3)) % len(INPUT_FORMS)]
        given, used = present(a, form, cs["dt"])
        cs["_form"] = used
        before = (given.dtype.str, given.shape, given.strides, given.tobytes())
        impl_bufs.append(outcome_of(lambda: bytes(enc.encode(given))))
        after = (given.dtype.str, given.shape, given.strides, given.tobytes())
        arg_changed.append(before != after)

    # 3. model spec / decoder on the implementation's bytes
    reqs2 = []
    for cs, ib in zip(cases, impl_bufs):
        if ib[0] == "ok":
            small = model_level == "full" and len(cs["values"]) * len(ib[1]) <= 6_000_000
            cs["_small"] = small
            if small:
                reqs2.append(spec_request(cs["dt"], cs["C"], cs["blk"], cs["shape"], ib[1]))
            if model_level == "full":
                reqs2.append(dec_request(cs["dt"], cs["C"], cs["blk"], cs["shape"], ib[1]))
    rep2 = iter(R.model.batch(reqs2))

    kept = []     # (case, array object returned by decode(), expected) re-checked after the whole batch
    for cs, a, enc, ib, er, changed in zip(cases, arrays, encoders, impl_bufs, enc_replies, arg_changed):
        case = {"dt": cs["dt"], "C": cs["C"], "shape": cs["shape"], "blk": cs["blk"],
                "data": a.tobytes(), "note": cs.get("note", kind), "form": cs["_form"]}
        R.count("input_form:" + cs["_form"].split(":")[0])
        if changed:
            R.violation("encode() modified the caller's array", case, {})
        X, Y, Z = cs["shape"]
        want = canon_arr(a)
        R.count(f"model_level:{model_level}")
        if er is not None:
            mod = model_outcome(er)
            if ib != mod:
                R.disagree("encode bytes vs cseg_encode", case, _short(ib), _short(mod))
        if ib[0] != "ok":
            R.case(case, nontrivial=False)
            R.count(f"encode:{ib[0]}")
            R.violation("the encoder raised on a valid chunk", case, {"impl": ib})
            continue
        buf = ib[1]
        widths, reused, nblk = header_stats(buf, cs["C"], cs["shape"], cs["blk"]) \
            if len(buf) >= 4 * cs["C"] else ([], 0, 0)
        for w in set(widths):
            R.count(f"bits:{w}", widths.count(w))
        R.count("blocks", len(widths))
        R.count("blocks_reusing_a_table", reused)
        full = all(s % b == 0 for s, b in zip(cs["shape"], cs["blk"]))
        cubic = len(set(cs["blk"])) == 1
        R.count("shape:" + ("divisible" if full else "padded") + ":" + ("cubic" if cubic else "noncubic"))
        if any(b > s for s, b in zip(cs["shape"], cs["blk"])):
            R.count("block_larger_than_chunk")
        R.count(f"dtype:{cs['dt']}")
        R.count(f"channels:{cs['C']}")
        R.case(case, nontrivial=(nblk >= 2 and any(w > 0 for w in widths)))

        # oracle 1: extracted specification decoder + validator
        if cs["_small"]:
            wf, sd = next(rep2)
            if str(wf) != "true":
                R.violation("encoded bytes are not well-formed (extracted validator)", case, {"bytes": buf})
            if not isinstance(sd, (bytes, bytearray)):
                R.violation("specification decoder (extracted) undefined on the encoded bytes", case,
                            {"bytes": buf})
            elif bytes(sd) != want[2]:
                R.violation("specification decoder (extracted) does not recover the chunk", case,
                            {"bytes": buf, "decoded": bytes(sd)})
        # oracle 2: independent Python decoder
        try:
            pv = spec_decode_py(buf, cs["dt"], cs["C"], cs["shape"], cs["blk"])
            ok = pv == [int(v) for v in a.ravel()]
            det = None if ok else {"bytes": buf, "first_diff": next(
                i for i, (p, q) in enumerate(zip(pv, a.ravel())) if p != int(q))}
        except ValueError as exc:
            ok, det = False, {"bytes": buf, "error": str(exc)}
        if not ok:
            R.violation("independent Python format decoder does not recover the chunk", case, det)
        if len(buf) % 4:
            R.violation("encoded length is not a multiple of 4", case, {"len": len(buf)})
        # oracle 3: the package's own decoder
        raw_dec = outcome_of(lambda: enc.decode(buf, cs["shape"]))
        idec = impl_arr(raw_dec)
        if idec != ["ok", want]:
            R.violation("the package's decoder does not recover the chunk", case, {"impl": _short(idec)})
        elif len(kept) < 40:
            kept.append((case, raw_dec[1], want))
        if model_level == "full":
            mdec = model_arr(next(rep2), cs["dt"])
            if mdec != idec:
                R.disagree("decode of valid bytes vs cseg_decode", case, _short(idec), _short(mdec))
    recheck_kept(R, kept, "an array returned by decode() changed after later encode()/decode() calls")


def recheck_kept(R, kept, what):
    for case, arr, want in kept:
        if canon_arr(arr) != want:
            R.violation(what, case, {"now": _short(canon_arr(arr))})


def _short(o):
    if isinstance(o, list):
        return [_short(x) for x in o]
    if isinstance(o, (bytes, bytearray)) and len(o) > 400:
        return bytes(o[:400]).hex() + f"...({len(o)} bytes)"
    return o


def run_sessions(R, quick):
    """One encoder object used for several chunks (same shape, another shape, the same
    shape again), as PrecomputedIO does for the chunks of a scale: every result kept from
    an earlier call must still be right after the later calls, and so must the bytes."""
    import numpy as np
    rng = R.rng
    configs = []
    for dt in ("uint32", "uint64"):
        for C in (1, 2):
            for _ in range(2 if quick else 12):
                blk = [rng.choice(BLOCK_AXIS) for _ in range(3)]
                shape = [rng.randint(1, 6) for _ in range(3)]
                other = [s + rng.choice([1, 2]) for s in shape]
                configs.append((dt, C, blk, shape, other))
    for dt, C, blk, shape, other in configs:
        enc = make_encoder(dt, C, blk)
        plan = [shape, shape, other, shape, shape]
        arrays, bufs, snaps, decs = [], [], [], []
        for i, sh in enumerate(plan):
            vals = gen_values(rng, dt, C, sh, blk, rng.choice([1, 2, 3, 5, 17]))
            a = arr_of(dt, C, sh, vals)
            given, _used = present(a, INPUT_FORMS[(i + len(configs)) % len(INPUT_FORMS)], dt)
            arrays.append(a)
            b = enc.encode(given)
            bufs.append(b)
            snaps.append(bytes(b))
        order = list(range(len(plan)))
        rng.shuffle(order)
        for i in order:
            # a rejected buffer in between must not disturb anything either
            if rng.random() < 0.3:
                outcome_of(lambda: enc.decode(snaps[i][:-1], plan[i]))
            try:
                decs.append((i, enc.decode(snaps[i], plan[i])))
            except Exception as exc:  # noqa: BLE001
                R.violation("the package decoder refuses bytes its own encoder returned (session)",
                            {"dt": dt, "C": C, "blk": blk, "shapes": plan, "index": i,
                             "data": [x.tobytes() for x in arrays], "note": "session"},
                            {"exc": type(exc).__name__, "bytes": snaps[i]})
        case0 = {"dt": dt, "C": C, "blk": blk, "shapes": plan, "order": order,
                 "data": [x.tobytes() for x in arrays], "note": "session"}
        R.case(case0, nontrivial=True)
        R.count("session")
        for i, b in enumerate(bufs):
            if bytes(b) != snaps[i]:
                R.violation("bytes returned by encode() changed after later calls on the same encoder",
                            dict(case0, index=i), {})
            try:
                ok = spec_decode_py(snaps[i], dt, C, plan[i], blk) == [int(v) for v in arrays[i].ravel()]
            except ValueError:
                ok = False
            if not ok:
                R.violation("independent Python format decoder does not recover the chunk (session)",
                            dict(case0, index=i), {"bytes": snaps[i]})
        for i, d in decs:
            if canon_arr(d) != canon_arr(arrays[i]):
                R.violation("an array returned by decode() is wrong after later decode() calls on the same "
                            "encoder object", dict(case0, index=i), {"now": _short(canon_arr(d))})


def run_large(R):
    """One chunk per run whose encoded channel exceeds 2^20 words (4 MiB), so that lookup-table
    offsets use bits 20..23 of the 24-bit field and value offsets exceed 2^20.  The extracted model
    is quadratic in the chunk size, so this case is judged by the oracles only: the package decoder
    must return the input, and the independent Python format reader must read the right label at
    sampled voxels (all of the first and last blocks, the blocks around the 2^20-word boundary, and
    random ones)."""
    import numpy as np
    rng = R.rng
    dt = rng.choice(["uint64", "uint64", "uint32"])
    blk = [8, 8, 8]
    shape = [128 if dt == "uint64" else 192, 64, 64]
    shape = [shape[i] for i in rng.sample(range(3), 3)]
    X, Y, Z = shape
    n = X * Y * Z
    mult, add = (2654435761, 2 ** 53 + 1) if dt == "uint64" else (2654435761, 7)
    a = ((np.arange(n, dtype=np.uint64) * np.uint64(mult) + np.uint64(add)) % np.uint64(2 ** dt_bits(dt) - 1))
    a = a.astype(np.dtype(dt).newbyteorder("<")).reshape(1, Z, Y, X)
    a[0, :8, :, :] = a[0, 0, 0, 0]                # one layer of 0-bit blocks sharing a table as well
    enc = make_encoder(dt, 1, blk)
    case = {"dt": dt, "C": 1, "shape": shape, "blk": blk, "note": "large chunk: a[i] = (i*%d+%d) mod (2^%d-1), "
            "first 8 z-planes constant" % (mult, add, dt_bits(dt))}
    R.case(case, nontrivial=True)
    R.count("large_chunk")
    ib = outcome_of(lambda: bytes(enc.encode(a)))
    if ib[0] != "ok":
        R.violation("the encoder raised on a valid chunk", case, {"impl": ib})
        return
    buf = ib[1]
    gx, gy, gz = -(-X // 8), -(-Y // 8), -(-Z // 8)
    base = 4 * struct.unpack_from("<I", buf, 0)[0]
    offs = [struct.unpack_from("<II", buf, base + 8 * k) for k in range(gx * gy * gz)]
    top = max(w0 & 0xFFFFFF for w0, _w1 in offs)
    R.extra["large_chunk_max_table_offset_words"] = top
    R.count("large_chunk:table_offset>=2^20" if top >= 2 ** 20 else "large_chunk:table_offset<2^20")
    if top < 2 ** 20:
        R.notes.append("large chunk did not reach a table offset of 2^20 words")
    if len(buf) % 4:
        R.violation("encoded length is not a multiple of 4", case, {"len": len(buf)})
    dec = outcome_of(lambda: enc.decode(buf, shape))
    if dec[0] != "ok" or dec[1].shape != a.shape or dec[1].dtype != a.dtype or not np.array_equal(dec[1], a):
        bad = None
        if dec[0] == "ok" and dec[1].shape == a.shape:
            bad = [int(v) for v in np.argwhere(dec[1] != a)[0]]
        R.violation("the package's decoder does not recover a chunk whose channel exceeds 2^20 words", case,
                    {"impl": dec[0] if dec[0] != "ok" else "ok", "first_wrong_voxel_czyx": bad,
                     "max_table_offset_words": top})
    # sampled voxels through the independent format reader
    blocks = {0, len(offs) - 1}
    over = [k for k, (w0, _w1) in enumerate(offs) if (w0 & 0xFFFFFF) >= 2 ** 20]
    blocks.update(over[:2] + over[-2:])
    blocks.update(rng.randrange(len(offs)) for _ in range(6))
    vox = []
    for k in blocks:
        xb, yb, zb = k % gx, (k // gx) % gy, k // (gx * gy)
        vox += [(zb * 8 + dz, yb * 8 + dy, xb * 8 + dx) for dz in range(8) for dy in range(8) for dx in range(8)
                if zb * 8 + dz < Z and yb * 8 + dy < Y and xb * 8 + dx < X]
    vox += [(rng.randrange(Z), rng.randrange(Y), rng.randrange(X)) for _ in range(1500)]
    for (z, y, x) in vox:
        try:
            v = spec_voxel_py(buf, dt, shape, blk, 0, z, y, x)
        except ValueError as exc:
            v = str(exc)
        if v != int(a[0, z, y, x]):
            R.violation("independent Python format reader does not find the label in a large encoded chunk", case,
                        {"voxel_zyx": [z, y, x], "read": v, "want": int(a[0, z, y, x])})
            break


def run_offset_limit(R):
    """Thorough tier only (about 3 s and 300 MB): one channel that needs a NEW lookup table 2^24 words
    (64 MiB) or more into the channel - beyond the format's 24-bit table offset.  The encoder must
    either refuse (the model: Crash AssertionError, theorem C02_encode_ok's bound is exceeded) or
    return bytes from which the format reader recovers the labels; it must not return a file that
    decodes to other labels."""
    import numpy as np
    dt, blk = "uint64", [64, 64, 64]
    nb = 23
    shape = [64 * nb, 64, 64]
    X, Y, Z = shape
    n = X * Y * Z
    a = (np.arange(n, dtype=np.uint64) * np.uint64(2654435761) + np.uint64(2 ** 40 + 1)).reshape(1, Z, Y, X)
    enc = make_encoder(dt, 1, blk)
    case = {"dt": dt, "C": 1, "shape": shape, "blk": blk,
            "note": "offset limit: a[i] = i*2654435761 + 2^40+1 (all labels distinct), 23 blocks of 3 MiB"}
    R.case(case, nontrivial=True)
    ib = outcome_of(lambda: bytes(enc.encode(a)))
    R.count("offset_limit:" + (ib[0] if ib[0] != "Crash" else "refused-" + ib[1]))
    if ib[0] != "ok":
        if ib != ["Crash", "AssertionError"]:
            R.violation("the encoder failed in an unexpected way beyond the 24-bit offset limit", case, {"impl": ib})
        return
    buf = ib[1]
    rng = R.rng
    vox = [(rng.randrange(Z), rng.randrange(Y), rng.randrange(X)) for _ in range(600)]
    vox += [(rng.randrange(Z), rng.randrange(Y), 64 * (nb - 1) + rng.randrange(64)) for _ in range(600)]
    for (z, y, x) in vox:
        try:
            v = spec_voxel_py(buf, dt, shape, blk, 0, z, y, x)
        except ValueError as exc:
            v = str(exc)
        if v != int(a[0, z, y, x]):
            R.violation("the encoder returned bytes for a channel beyond the 24-bit table offset limit that do "
                        "not decode to the chunk", case, {"voxel_zyx": [z, y, x], "read": v, "want": int(a[0, z, y, x])})
            return


def run(R):
    R.rule = RULE
    rng = R.rng
    quick = R.tier == "quick"
    check_cases(R, edge_cases(), kind="edge")
    cc = collision_cases(rng)
    R.extra["checksum_collision_pairs"] = len(cc) // 3
    check_cases(R, cc, kind="collision")
    run_sessions(R, quick)
    run_large(R)
    # exhaustive tiny shapes x blocks with two labels
    tiny = []
    for shape in itertools.product([1, 2, 3], repeat=3):
        for blk in [(1, 1, 1), (2, 1, 1), (1, 2, 1), (1, 1, 2), (2, 2, 1), (1, 2, 3), (3, 2, 1), (2, 3, 4)]:
            n = shape[0] * shape[1] * shape[2]
            dt = rng.choice(["uint32", "uint64"])
            tiny.append({"dt": dt, "C": 1, "shape": list(shape), "blk": list(blk),
                         "values": [rng.choice([0, 1, 2 ** dt_bits(dt) - 1]) for _ in range(n)], "pool": 3})
    check_cases(R, tiny, kind="tiny")
    n = 480 if quick else 6000
    step = 140
    for i in range(0, n, step):
        check_cases(R, [gen_case(rng, quick) for _ in range(min(step, n - i))])
    if not quick:
        # large chunks: the extracted binary's list arithmetic is quadratic in the chunk size
        # (get4 = nth on the flat data), so these are judged by the Python oracles only
        big = []
        for _ in range(4):
            dt = rng.choice(["uint32", "uint64"])
            blk = rng.choice([[8, 8, 8], [8, 4, 16], [64, 64, 64], [5, 7, 3]])
            shape = rng.choice([[64, 64, 64], [33, 47, 20], [64, 16, 40]])
            big.append({"dt": dt, "C": rng.choice([1, 2]), "shape": shape, "blk": blk,
                        "values": None, "pool": 300})
        for cs in big:
            cs["values"] = gen_values(rng, cs["dt"], cs["C"], cs["shape"], cs["blk"], 300)
        # blocks with more than 65536 labels: 32 bits
        for dt, shape in (("uint64", [41, 41, 41]), ("uint32", [256, 257, 1])):
            nvox = shape[0] * shape[1] * shape[2]
            vals = list(range(100, 100 + nvox))
            if dt == "uint64":
                vals[7] = 2 ** 64 - 1
                vals[8] = 2 ** 53 + 1
            rng.shuffle(vals)
            big.append({"dt": dt, "C": 1, "shape": shape, "blk": list(shape), "values": vals,
                        "pool": nvox, "note": "32-bit block"})
        check_cases(R, big, model_level="none", kind="big")
        run_offset_limit(R)
        R.notes.append("chunks above ~16^3 voxels and the 32-bit blocks are judged by the Python oracles "
                       "(independent format decoder, package decoder) only: the extracted model is too slow there")
    for w in (0, 1, 2, 4, 8, 16) + (() if quick else (32,)):
        if not R.dist.get(f"bits:{w}"):
            R.notes.append(f"generator did not produce a block with {w} bits in this run")
    R.extra["bit_width_histogram"] = {k: v for k, v in sorted(R.dist.items()) if k.startswith("bits:")}
    R.notes.append("encode() is given arrays whose dtype casts safely to the encoder's (other byte order, narrower "
                   "unsigned types, any memory layout): the expected bytes are the model's encoding of the VALUES; "
                   "unsafe casts (TypeError) are outside the property and not exercised")


def _replay_large():
    """Re-run the deterministic large-chunk cases (every label type / axis order); True iff one fails."""
    import random
    viol = []
    R2 = type("Tmp", (), {})()
    R2.case = lambda *a, **k: None
    R2.count = lambda *a, **k: None
    R2.extra, R2.notes = {}, []
    R2.violation = lambda *a, **k: viol.append(a)
    for seed in range(4):
        R2.rng = random.Random(seed)
        run_large(R2)
    return bool(viol)


def _replay_session(case, datas):
    """Same encoder object, the recorded chunks and decode order: True iff a kept result is wrong."""
    import numpy as np
    dt, C, blk, plan, order = case["dt"], case["C"], case["blk"], case["shapes"], case["order"]
    enc = make_encoder(dt, C, blk)
    arrays = [np.frombuffer(d, dtype=np.dtype(dt).newbyteorder("<")).reshape(C, sh[2], sh[1], sh[0]).copy()
              for d, sh in zip(datas, plan)]
    try:
        bufs = [enc.encode(a) for a in arrays]
        snaps = [bytes(b) for b in bufs]
        decs = [(i, enc.decode(snaps[i], plan[i])) for i in order]
    except Exception:  # noqa: BLE001
        return True
    if any(bytes(b) != s for b, s in zip(bufs, snaps)):
        return True
    for i, s in enumerate(snaps):
        try:
            if spec_decode_py(s, dt, C, plan[i], blk) != [int(v) for v in arrays[i].ravel()]:
                return True
        except ValueError:
            return True
    return any(canon_arr(d) != canon_arr(arrays[i]) for i, d in decs)


def replay(R, payload):
    """Re-run the recorded case on the current tree; True iff the oracle still rejects."""
    import numpy as np
    case = payload.get("case") or (payload.get("disagreements") or [{}])[0].get("case", {})
    if str(case.get("note", "")).startswith("offset limit"):
        viol = []
        R2 = type("Tmp", (), {})()
        R2.case = lambda *a, **k: None
        R2.count = lambda *a, **k: None
        R2.violation = lambda *a, **k: viol.append(a)
        R2.rng = __import__("random").Random(0)
        run_offset_limit(R2)
        return bool(viol)
    if str(case.get("note", "")).startswith("large chunk"):
        case = dict(case)
        case.pop("data", None)
    elif "data" not in case:
        return True
    if "data" not in case:
        return _replay_large()
    data = case["data"]

    def unhex(d):
        return bytes.fromhex(d[1:] if d.startswith("x") else d) if isinstance(d, str) else bytes(d)
    if case.get("note") == "session":
        return _replay_session(case, [unhex(d) for d in data])
    data = unhex(data)
    dt, C, shape, blk = case["dt"], case["C"], case["shape"], case["blk"]
    X, Y, Z = shape
    a = np.frombuffer(data, dtype=np.dtype(dt).newbyteorder("<")).reshape(C, Z, Y, X).copy()
    enc = make_encoder(dt, C, blk)
    given, _used = present(a, case.get("form", "native").split(":")[0], dt)
    before = given.tobytes()
    ib = outcome_of(lambda: bytes(enc.encode(given)))
    if given.tobytes() != before:
        return True
    if ib[0] != "ok":
        return True
    try:
        if spec_decode_py(ib[1], dt, C, shape, blk) != [int(v) for v in a.ravel()]:
            return True
    except ValueError:
        return True
    wf = R.model.call(*spec_request(dt, C, blk, shape, ib[1], full=False))
    if str(wf) != "true":
        return True
    idec = impl_arr(outcome_of(lambda: enc.decode(ib[1], shape)))
    if idec != ["ok", canon_arr(a)]:
        return True
    mod = model_outcome(R.model.call(*enc_request(dt, C, blk, shape, a.tobytes())))
    return mod != ib
