"""Scripted loopback web server for the C14 / C18 harnesses.

Implements the static serving that docs/serving-data.rst prescribes
(the flat -> deep rewrite of the nginx/Apache snippets, gzip_static-style
serving of pre-compressed ``.gz`` files with ``Content-Encoding: gzip``, byte
``Range`` requests) plus scripted behaviours, selected per request number:

    "normal"            static serving
    ("status", code)    reply with that status and an empty body
    ("status-json", code)  reply with that status and a JSON error document
                        (Content-Type: application/json), as object stores and gateways do
    "drop"              close the connection without replying
    "short" / "long"    reply as normal but with a body one byte shorter / longer
                        (Content-Length consistent with what is sent)
    "ignore-range"      ignore the Range header (200 with the full body)
    "cut-body"          status line and headers of the normal reply (full Content-Length), then
                        only half of the body, then the connection is closed
    "cut-chunked"       the same with chunked transfer encoding, cut before the last chunk
    "bad-gzip"          200/206 with "Content-Encoding: gzip" and a damaged gzip stream as body
                        (the last three only apply to GET replies that would be 200/206;
                        otherwise the normal reply is sent)

The server counts requests from 0 (``site.reset()``) and logs
(method, path, range) for each.  It is the counterpart of StHttp.serve /
D_C12.scripted in the Coq model.
"""
import gzip
import http.server
import os
import re
import socket
import threading
import urllib.parse

FLAT_RE = re.compile(r"^(.*)/([0-9]+-[0-9]+)_([0-9]+-[0-9]+)_([0-9]+-[0-9]+)$")
RANGE_RE = re.compile(r"^bytes=(\d+)-(\d+)$")


class Site:
    def __init__(self, root, rewrite=False, gzip_static=True):
        self.root = root
        self.rewrite = rewrite
        self.gzip_static = gzip_static
        self.script = []
        self.log = []
        self.lock = threading.Lock()

    def reset(self, script=()):
        with self.lock:
            self.script = list(script)
            self.log = []

    def next_behaviour(self, entry):
        with self.lock:
            n = len(self.log)
            self.log.append(entry)
            return self.script[n] if n < len(self.script) else "normal"

    def locate(self, url_path):
        """(encoded?, bytes) or None."""
        path = urllib.parse.unquote(url_path.split("?", 1)[0].split("#", 1)[0])
        parts = [p for p in path.split("/") if p != ""]
        if ".." in parts:
            return None
        rel = "/" + "/".join(parts)
        if self.rewrite:
            m = FLAT_RE.match(rel)
            if m and m.group(1) != "":
                rel = f"{m.group(1)}/{m.group(2)}/{m.group(3)}/{m.group(4)}"
        full = self.root + rel
        if self.gzip_static and os.path.isfile(full + ".gz") and rel != "/":
            with open(full + ".gz", "rb") as f:
                return True, f.read()
        if os.path.isfile(full):
            with open(full, "rb") as f:
                return False, f.read()
        return None


class Handler(http.server.BaseHTTPRequestHandler):
    protocol_version = "HTTP/1.0"
    site = None

    def log_message(self, *a):       # silence
        pass

    def _reply(self, status, body=b"", enc=False, head=False, total=None, rng=None,
               ctype="application/octet-stream"):
        self.send_response(status)
        self.send_header("Content-Length", str(len(body)))
        self.send_header("Content-Type", ctype)
        self.send_header("Accept-Ranges", "bytes")
        if enc:
            self.send_header("Content-Encoding", "gzip")
        if rng is not None:
            self.send_header("Content-Range", f"bytes {rng[0]}-{rng[1]}/{total}")
        self.end_headers()
        if not head:
            self.wfile.write(body)

    def _serve(self, head):
        site = self.site
        rh = self.headers.get("Range")
        m = RANGE_RE.match(rh) if rh else None
        rng = (int(m.group(1)), int(m.group(2))) if m else None
        beh = site.next_behaviour(("HEAD" if head else "GET", self.path, rng))
        if beh == "drop":
            try:
                self.connection.shutdown(socket.SHUT_RDWR)
            except OSError:
                pass
            self.close_connection = True
            return
        if isinstance(beh, (tuple, list)) and beh[0] == "status":
            self._reply(int(beh[1]), b"", head=head)
            return
        if isinstance(beh, (tuple, list)) and beh[0] == "status-json":
            self._reply(int(beh[1]), b'{"error": {"code": %d, "message": "temporarily unavailable"}}' % int(beh[1]),
                        head=head, ctype="application/json")
            return
        if beh == "ignore-range":
            rng = None
        found = site.locate(self.path)
        if found is None:
            self._reply(404, b"", head=head)
            return
        enc, data = found
        if head:
            # Content-Length of the entity, no body
            self.send_response(200)
            self.send_header("Content-Length", str(len(data)))
            if enc:
                self.send_header("Content-Encoding", "gzip")
            self.end_headers()
            return
        status, body, crange = 200, data, None
        if rng is not None and rng[1] >= rng[0]:
            if rng[0] >= len(data):
                self._reply(416, b"")
                return
            end = min(rng[1], len(data) - 1)
            status, body, crange = 206, data[rng[0]:end + 1], (rng[0], end)
        if beh == "short" and not enc:
            body = body[:-1]
        elif beh == "long" and not enc:
            body = body + b"\0"
        elif beh == "bad-gzip":
            good = gzip.compress(body or b"x" * 16)
            body, enc = good[:10] + b"\xff" * 6 + good[-8:], True
        elif beh in ("cut-body", "cut-chunked"):
            self.send_response(status)
            self.send_header("Content-Type", "application/octet-stream")
            if enc:
                self.send_header("Content-Encoding", "gzip")
            half = body[:len(body) // 2]
            if beh == "cut-body":
                self.send_header("Content-Length", str(len(body) if len(body) > 1 else len(body) + 7))
                self.end_headers()
                self.wfile.write(half)
            else:
                self.send_header("Transfer-Encoding", "chunked")
                self.end_headers()
                self.wfile.write(b"%x\r\n" % max(len(half), 1) + (half or b"x") + b"\r\n")
            self.wfile.flush()
            try:
                self.connection.shutdown(socket.SHUT_RDWR)
            except OSError:
                pass
            self.close_connection = True
            return
        ctype = ("application/json" if self.path.split("?")[0].endswith((".json", "/info"))
                 else "application/octet-stream")
        self._reply(status, body, enc=enc, total=len(data), rng=crange, ctype=ctype)

    def do_GET(self):
        self._serve(False)

    def do_HEAD(self):
        self._serve(True)


class Server:
    """with Server(site) as s: s.url -> 'http://127.0.0.1:port'"""

    def __init__(self, site):
        handler = type("H", (Handler,), {"site": site})
        self.httpd = http.server.ThreadingHTTPServer(("127.0.0.1", 0), handler)
        self.httpd.daemon_threads = True
        self.port = self.httpd.server_address[1]
        self.url = f"http://127.0.0.1:{self.port}"
        self.thread = threading.Thread(target=self.httpd.serve_forever, kwargs={"poll_interval": 0.05},
                                       daemon=True)

    def __enter__(self):
        self.thread.start()
        return self

    def __exit__(self, *a):
        self.httpd.shutdown()
        self.httpd.server_close()
        self.thread.join(timeout=5)
