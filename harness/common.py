"""Shared machinery of the correspondence harness.

Everything here runs under /venv/bin/python with PYTHONPATH=/repo/src forced,
so the live working tree of /repo is what gets imported.
"""
import hashlib
import json
import os
import random
import shutil
import subprocess
import sys
import tempfile
import time

VERIF = os.path.dirname(os.path.dirname(os.path.abspath(__file__)))
REPO = os.environ.get("VERIF_REPO") or "/repo"
REPO_SRC = os.path.join(REPO, "src")
MODEL_BIN = os.environ.get("VERIF_MODEL_BIN") or os.path.join(VERIF, "bin", "ngsmodel")
COQ_DIR = os.path.join(VERIF, "coq")
PY = "/venv/bin/python"


def force_repo_path():
    """Make sure the package is imported from /repo's working tree."""
    sys.path[:] = [p for p in sys.path if "neuroglancer" not in p]
    if REPO_SRC not in sys.path:
        sys.path.insert(0, REPO_SRC)
    import neuroglancer_scripts
    got = os.path.dirname(os.path.abspath(neuroglancer_scripts.__file__))
    want = os.path.join(REPO_SRC, "neuroglancer_scripts")
    if os.path.realpath(got) != os.path.realpath(want):
        raise RuntimeError(f"neuroglancer_scripts imported from {got}, not {want}")


# ---------------------------------------------------------------- values

class Atom(str):
    """Bare atom of the wire syntax."""
    def __repr__(self):
        return f"Atom({str.__repr__(self)})"


def ser(v):
    """Python value -> wire syntax.  int -> decimal, bytes -> xHEX,
    Atom/bool -> atom, list/tuple -> ( ... )."""
    if isinstance(v, bool):
        return "true" if v else "false"
    if isinstance(v, Atom):
        return str(v)
    if isinstance(v, int):
        return str(v)
    if isinstance(v, (bytes, bytearray, memoryview)):
        return "x" + bytes(v).hex()
    if isinstance(v, (list, tuple)):
        return "(" + " ".join(ser(x) for x in v) + ")"
    if hasattr(v, "item") and hasattr(v, "dtype"):   # numpy integer scalar
        return str(int(v))
    raise TypeError(f"cannot serialise {type(v)}: {v!r}")


def parse(s):
    """Wire syntax -> Python (ints, bytes, Atom, lists)."""
    pos = 0
    n = len(s)

    def value():
        nonlocal pos
        while pos < n and s[pos] == " ":
            pos += 1
        if pos >= n:
            raise ValueError("eof in " + s[:80])
        if s[pos] == "(":
            pos += 1
            out = []
            while True:
                while pos < n and s[pos] == " ":
                    pos += 1
                if pos >= n:
                    raise ValueError("unclosed in " + s[:80])
                if s[pos] == ")":
                    pos += 1
                    return out
                out.append(value())
        j = pos
        while j < n and s[j] not in " ()":
            j += 1
        t = s[pos:j]
        pos = j
        c = t[0]
        if c == "x":
            return bytes.fromhex(t[1:])
        if c.isdigit() or c == "-":
            return int(t)
        return Atom(t)

    return value()


class Model:
    """Client of the extracted model binary (bin/ngsmodel)."""

    def __init__(self):
        if not os.path.exists(MODEL_BIN):
            raise RuntimeError(f"{MODEL_BIN} missing: run the setup command (make -C /verif)")
        self.calls = 0
        self.sample = []          # (op, request text, reply text) kept for the in-kernel cross-check
        self.sample_ops = {}

    def _keep(self, op, req_text, reply_text):
        n = self.sample_ops.get(op, 0)
        if n < 40 and len(req_text) + len(reply_text) < 6000 and len(self.sample) < 400:
            self.sample_ops[op] = n + 1
            self.sample.append((op, req_text, reply_text))

    def batch(self, requests):
        """requests: list of (op, value).  Returns the list of parsed replies."""
        if not requests:
            return []
        text = "".join(f"{op} {ser(v)}\n" for op, v in requests)
        r = subprocess.run([MODEL_BIN], input=text.encode(), stdout=subprocess.PIPE,
                           stderr=subprocess.PIPE,
                           preexec_fn=_unlimit_stack)
        lines = r.stdout.decode().split("\n")
        if r.returncode != 0 or len(lines) < len(requests) + 1:
            raise RuntimeError(f"model binary failed rc={r.returncode} "
                               f"{len(lines) - 1}/{len(requests)} replies; stderr={r.stderr[-400:]!r}; "
                               f"next request: {text.splitlines()[max(0, len(lines) - 1)][:300]}")
        self.calls += len(requests)
        step = max(1, len(requests) // 40)
        for i in range(0, len(requests), step):
            self._keep(requests[i][0], ser(requests[i][1]), lines[i])
        return [parse(ln) for ln in lines[:len(requests)]]

    def call(self, op, v):
        return self.batch([(op, v)])[0]


def coq_term(v):
    """Parsed wire value -> Gallina term of type val."""
    if isinstance(v, Atom):
        return 'VT "%s"' % str(v)
    if isinstance(v, bool):
        return 'VT "%s"' % ("true" if v else "false")
    if isinstance(v, int):
        return "VZ (%d)%%Z" % v
    if isinstance(v, (bytes, bytearray)):
        return "VS [" + "; ".join("%d%%N" % b for b in v) + "]"
    if isinstance(v, (list, tuple)):
        return "VL [" + "; ".join(coq_term(x) for x in v) + "]"
    raise TypeError(type(v))


def kernel_crosscheck(model, workdir):
    """Re-evaluate the sampled requests inside Coq (vm_compute on NGS.Dispatch)
    and compare with what the extracted binary answered.  Returns
    (n_checked, mismatching_cases)."""
    cases = model.sample
    if not cases:
        return 0, []
    os.makedirs(workdir, exist_ok=True)
    path = os.path.join(workdir, "XCheck.v")
    with open(path, "w") as f:
        f.write("From Coq Require Import NArith ZArith List String.\n"
                "From NGS Require Import Val Dispatch ValEq.\nImport ListNotations.\n"
                "Open Scope string_scope.\n"
                "Definition cases : list (string * val * val) := [\n")
        f.write(";\n".join('  ("%s", %s, %s)' % (op, coq_term(parse(rq)), coq_term(parse(rp)))
                            for op, rq, rp in cases))
        f.write("\n].\nEval vm_compute in (mismatches cases).\n")
    r = subprocess.run(["coqc", "-Q", os.path.join(COQ_DIR, "theories"), "NGS",
                        "-Q", os.path.join(COQ_DIR, "generated"), "NGSGen", path],
                       stdout=subprocess.PIPE, stderr=subprocess.STDOUT, timeout=3000,
                       preexec_fn=_unlimit_stack)
    out = r.stdout.decode()
    m = __import__("re").search(r"=\s*\[([^\]]*)\]", out)
    if r.returncode != 0 or not m:
        return len(cases), [{"error": out[-500:]}]
    idx = [int(x) for x in m.group(1).replace("%nat", "").split(";") if x.strip()]
    return len(cases), [{"op": cases[i][0], "request": cases[i][1][:300], "binary_reply": cases[i][2][:300]}
                        for i in idx]


def _unlimit_stack():
    import resource
    try:
        resource.setrlimit(resource.RLIMIT_STACK, (resource.RLIM_INFINITY, resource.RLIM_INFINITY))
    except (ValueError, OSError):
        try:
            soft, hard = resource.getrlimit(resource.RLIMIT_STACK)
            resource.setrlimit(resource.RLIMIT_STACK, (hard, hard))
        except (ValueError, OSError):
            pass


# ---------------------------------------------------------------- outcomes

def classify_exception(exc):
    """Map a Python exception escaping from the implementation to the model's
    outcome classes (coq/theories/Base/Val.v)."""
    import struct
    import zlib
    from neuroglancer_scripts import accessor, chunk_encoding, mesh
    from neuroglancer_scripts.sharded_base import ShardedIOError
    name = type(exc).__name__
    if isinstance(exc, chunk_encoding.InvalidFormatError) or isinstance(
            exc, getattr(mesh, "InvalidMeshDataError", ())):
        return ["FormatErr"]
    if isinstance(exc, chunk_encoding.InvalidInfoError):
        return ["InfoErr"]
    if isinstance(exc, accessor.DataAccessError):
        return ["AccessErr"]
    if isinstance(exc, ShardedIOError):
        return ["IOErr"]
    if isinstance(exc, struct.error):
        return ["Crash", "StructError"]
    if isinstance(exc, zlib.error):
        return ["Crash", "ZlibError"]
    if isinstance(exc, EOFError):
        return ["Crash", "EOFError"]
    if isinstance(exc, OSError):
        return ["IOErr"]
    if isinstance(exc, ZeroDivisionError):
        return ["Crash", "ZeroDivisionError"]
    if isinstance(exc, OverflowError):
        return ["Crash", "OverflowError"]
    if isinstance(exc, NotImplementedError):
        return ["Crash", "NotImplementedError"]
    if isinstance(exc, RuntimeError):
        return ["Crash", "RuntimeError"]
    if isinstance(exc, (IndexError, AssertionError, ValueError, TypeError, KeyError)):
        return ["Crash", name]
    return ["Crash", name]


def outcome_of(fn, *a, **k):
    """Run fn; return ['ok', result] or the outcome class of its exception."""
    try:
        return ["ok", fn(*a, **k)]
    except Exception as exc:  # noqa: BLE001 - classification is the point
        return classify_exception(exc)


def model_outcome(v):
    """Parsed model reply -> same shape as outcome_of (atoms to str)."""
    if isinstance(v, list) and v and isinstance(v[0], Atom):
        if v[0] == "ok":
            return ["ok", v[1]]
        return [str(x) for x in v]
    return v


# ---------------------------------------------------------------- run context

class Run:
    """One execution of one property's check: collects counts, samples,
    distributions, violations, known findings; writes evidence."""

    def __init__(self, pid, tier, seed):
        self.pid = pid
        self.tier = tier
        self.seed = seed
        self.rng = random.Random(f"{pid}:{seed}")
        self.t0 = time.time()
        self.evaluations = 0
        self.nontrivial = set()
        self.samples = []
        self.dist = {}
        self.violations = []          # (kind, case, detail)
        self.disagreements = []       # model vs implementation
        self.known_hits = {}          # finding id -> count
        self.traces = 0
        self.notes = []
        self.model = Model()
        self.tmp = tempfile.mkdtemp(prefix=f"ngsverif-{pid}-")
        self.findings = load_findings(pid)
        self.rule = ""
        self.exhaustive = False
        self.extra = {}

    # -- bookkeeping
    def count(self, key, n=1):
        self.dist[key] = self.dist.get(key, 0) + n

    def case(self, case, nontrivial=False, sample_every=0):
        self.evaluations += 1
        if nontrivial:
            h = hashlib.sha1(json.dumps(case, sort_keys=True, default=_jd).encode()).hexdigest()[:16]
            self.nontrivial.add(h)
        if len(self.samples) < 3 or (sample_every and self.evaluations % sample_every == 0
                                     and len(self.samples) < 8):
            self.samples.append(_trim(case))

    def disagree(self, what, case, impl, model):
        self.disagreements.append({"what": what, "case": case, "impl": impl, "model": model})

    def violation(self, what, case, detail):
        self.violations.append({"what": what, "case": case, "detail": detail})

    def known(self, fid, n=1):
        self.known_hits[fid] = self.known_hits.get(fid, 0) + n

    def cleanup(self):
        shutil.rmtree(self.tmp, ignore_errors=True)


def _jd(o):
    if isinstance(o, (bytes, bytearray)):
        return "x" + bytes(o).hex()
    if hasattr(o, "tolist"):
        return o.tolist()
    if isinstance(o, set):
        return sorted(o)
    return repr(o)


def _trim(o, limit=600):
    s = json.dumps(o, default=_jd, sort_keys=True)
    if len(s) <= limit:
        return json.loads(s)
    return {"truncated": s[:limit]}


def load_findings(pid):
    """Open findings of a property, from the committed known-findings file."""
    path = os.path.join(VERIF, "known_findings.json")
    if not os.path.exists(path):
        return []
    with open(path) as f:
        data = json.load(f)
    return [e for e in data.get("findings", []) if e.get("property") == pid]


def write_replay(pid, payload):
    d = os.path.join(VERIF, "replays", pid)
    os.makedirs(d, exist_ok=True)
    s = json.dumps(payload, default=_jd, sort_keys=True, indent=1)
    h = hashlib.sha1(s.encode()).hexdigest()[:12]
    path = os.path.join(d, f"{h}.json")
    with open(path, "w") as f:
        f.write(s)
    return path
