"""Helpers for end-to-end runs of the package's command modules."""
import contextlib
import importlib
import io
import json
import logging
import os
import subprocess
import sys

import numpy as np

from harness.common import PY, REPO_SRC


def run_script(name, args, cwd=None, inprocess=False, timeout=300):
    """Run neuroglancer_scripts.scripts.<name> with args.
    Returns (returncode, stdout, stderr)."""
    if inprocess:
        mod = importlib.import_module(f"neuroglancer_scripts.scripts.{name}")
        out, err = io.StringIO(), io.StringIO()
        old = os.getcwd()
        rc = None
        logging.disable(logging.CRITICAL)
        try:
            if cwd:
                os.chdir(cwd)
            with contextlib.redirect_stdout(out), contextlib.redirect_stderr(err):
                try:
                    rc = mod.main([name] + [str(a) for a in args])
                except SystemExit as e:
                    rc = e.code if isinstance(e.code, int) else (0 if e.code is None else 1)
                except Exception as e:  # noqa: BLE001
                    err.write(f"EXC {type(e).__name__}: {e}")
                    rc = 1
        finally:
            os.chdir(old)
            logging.disable(logging.NOTSET)
        return (rc or 0), out.getvalue(), err.getvalue()
    env = dict(os.environ)
    env["PYTHONPATH"] = REPO_SRC
    env["PYTHONHASHSEED"] = "0"
    r = subprocess.run([PY, "-m", f"neuroglancer_scripts.scripts.{name}"] + [str(a) for a in args],
                       cwd=cwd, env=env, stdout=subprocess.PIPE, stderr=subprocess.PIPE, timeout=timeout)
    return r.returncode, r.stdout.decode(errors="replace"), r.stderr.decode(errors="replace")


def write_nifti(path, array, affine=None, slope=None, inter=None, big_endian=False):
    """Write array (x,y,z[,c]) as NIfTI with nibabel; on-disk dtype = array dtype
    (big_endian: the file is stored in the non-native byte order)."""
    import nibabel as nib
    if affine is None:
        affine = np.eye(4)
    if big_endian and array.dtype.fields is None:
        hdr = nib.Nifti1Header(endianness=">")
        img = nib.Nifti1Image(array, affine, header=hdr, dtype=array.dtype)
    else:
        img = nib.Nifti1Image(array, affine, dtype=array.dtype)
    img.header.set_data_dtype(array.dtype)
    if slope is not None:
        img.header.set_slope_inter(slope, inter if inter is not None else 0.0)
    nib.save(img, path)
    return path


def fresh_io(url, options=None):
    from neuroglancer_scripts import accessor, precomputed_io
    acc = accessor.get_accessor_for_url(url, options or {})
    return precomputed_io.get_IO_for_existing_dataset(acc)


def chunk_grid(size, chunk_size):
    """All chunk coordinate tuples of a scale (independent of the package)."""
    out = []
    for x0 in range(0, size[0], chunk_size[0]):
        for y0 in range(0, size[1], chunk_size[1]):
            for z0 in range(0, size[2], chunk_size[2]):
                out.append((x0, min(x0 + chunk_size[0], size[0]),
                            y0, min(y0 + chunk_size[1], size[1]),
                            z0, min(z0 + chunk_size[2], size[2])))
    return out


class ScaleCodecMismatch(Exception):
    """A stored chunk does not decode, with the codec its OWN scale declares,
    to what PrecomputedIO.read_chunk returned."""


def read_scale(pio, scale_info, num_channels, dtype):
    """Reassemble a whole scale as a (C,Z,Y,X) array through read_chunk.
    Every chunk's stored bytes are also decoded with an encoder built from this
    scale's own info (independently of PrecomputedIO's bookkeeping) and must
    give the same array.  Returns (array, n_chunks_read, decoded_bytes)."""
    from neuroglancer_scripts import chunk_encoding
    size = scale_info["size"]
    cs = scale_info["chunk_sizes"][0]
    vol = np.zeros((num_channels, size[2], size[1], size[0]), dtype=dtype)
    n = 0
    nbytes = 0
    own = chunk_encoding.get_encoder(pio.info, scale_info)
    for cc in chunk_grid(size, cs):
        chunk = pio.read_chunk(scale_info["key"], cc)
        if not own.lossy:
            raw = pio.accessor.fetch_chunk(scale_info["key"], cc)
            again = own.decode(raw, (cc[1] - cc[0], cc[3] - cc[2], cc[5] - cc[4]))
            if again.shape != chunk.shape or again.tobytes() != np.ascontiguousarray(chunk).tobytes():
                raise ScaleCodecMismatch(f"scale {scale_info['key']} chunk {cc}: stored bytes do not decode "
                                         f"with the scale's own {scale_info['encoding']} codec to the array "
                                         "read_chunk returned")
        x0, x1, y0, y1, z0, z1 = cc
        vol[:, z0:z1, y0:y1, x0:x1] = chunk
        n += 1
        nbytes += chunk.nbytes
    # a scale may list several chunk sizes: each is a complete chunking of the same voxels
    for other in scale_info["chunk_sizes"][1:]:
        for cc in chunk_grid(size, other):
            x0, x1, y0, y1, z0, z1 = cc
            chunk = pio.read_chunk(scale_info["key"], cc)
            if not np.array_equal(chunk, vol[:, z0:z1, y0:y1, x0:x1]):
                raise ScaleCodecMismatch(f"scale {scale_info['key']}: chunk {cc} of the chunking {other} holds other "
                                         f"voxels than the chunking {cs}")
    return vol, n, nbytes


def read_dataset(url, options=None):
    """All scales of a dataset: {key: (C,Z,Y,X) array}, plus the info."""
    pio = fresh_io(url, options)
    info = pio.info
    dtype = np.dtype(info["data_type"])
    out = {}
    for s in info["scales"]:
        out[s["key"]] = read_scale(pio, s, info["num_channels"], dtype)[0]
    return info, out


def count_chunk_files(base, key):
    """Number of chunk files below base/key (any layout, .gz or not)."""
    n = 0
    for _root, _dirs, files in os.walk(os.path.join(base, key)):
        n += len(files)
    return n


def count_grid_files(base, key, size, chunk_size):
    """Number of chunks of ONE chunking of a scale that exist as files (flat or per-axis
    sub-directories, plain or .gz)."""
    n = 0
    for (x0, x1, y0, y1, z0, z1) in chunk_grid(size, chunk_size):
        flat = os.path.join(base, key, f"{x0}-{x1}_{y0}-{y1}_{z0}-{z1}")
        deep = os.path.join(base, key, f"{x0}-{x1}", f"{y0}-{y1}", f"{z0}-{z1}")
        if any(os.path.isfile(p_ + sfx) for p_ in (flat, deep) for sfx in ("", ".gz")):
            n += 1
    return n
