(* C06 - each pyramid level equals the whole previous level downscaled once.
   Statements only; the model is theories/Pyramid/PyrTiling.v (a pointwise
   model of compute_dyadic_downscaling, parametric in the downscaling
   function) and PyrCompute.v (the level loop); proofs are in
   PyrTilingProofs.v and PyrComputeProofs.v. *)
From Coq Require Import ZArith List Bool Lia.
From NGS Require Import Val Ints PyrScales PyrKeys PyrTiling PyrCompute
                        PyrScalesProofs PyrTilingProofs PyrComputeProofs.
Import ListNotations.
Open Scope Z_scope.

(* The three downscalers (striding, exact integer mean with edge padding
   rounded half to even, majority) produce ceil(shape / factor) arrays and are
   LOCAL: downscaling a chunk that starts on a multiple of the factor and is
   full or ends at the border of the array equals the restriction of
   downscaling the whole array. *)
Theorem C06_local_stride : ds_shape_prop ds_stride /\ ds_local_prop ds_stride.
Proof. exact (conj stride_shape stride_local). Qed.
Print Assumptions C06_local_stride.

Theorem C06_local_average : ds_shape_prop ds_avg /\ ds_local_prop ds_avg.
Proof. exact (conj avg_shape avg_local). Qed.
Print Assumptions C06_local_average.

Theorem C06_local_majority : ds_shape_prop ds_majority /\ ds_local_prop ds_majority.
Proof. exact (conj majority_shape majority_local). Qed.
Print Assumptions C06_local_majority.

(* For EVERY local downscaling function and every geometry satisfying the
   executable predicate [compat] (old chunk = factor * half chunk, new chunk =
   the half chunk or twice it, or the level fits one new chunk and two half
   chunks), compute_dyadic_downscaling raises nothing, writes the chunks of the
   new grid in np.ndindex order, and every voxel of every chunk is the
   whole-level downscale at its global position. *)
Theorem C06_tiling_exact : forall ds, ds_shape_prop ds -> ds_local_prop ds ->
  forall g lvl, compat g = true -> a_sh lvl = g_os g -> a_c lvl = g_ch g ->
  exists chunks, tile_level ds g lvl = Ok chunks /\
    map (fun c => fst (fst c)) chunks = map (new_lo g) (ndindex (chunk_range g)) /\
    Forall (chunk_is_restriction ds g lvl) chunks.
Proof. exact tiling_exact. Qed.
Print Assumptions C06_tiling_exact.

(* "If a pair of scales cannot be processed, the tool fails with an error
   instead of writing wrong data" - WITHOUT any guard (since /repo e7c7a72
   refuses the half-chunk-1 stretch up front): for every geometry with positive
   sizes and every local downscaler, a transition that does not raise wrote,
   in every chunk, the whole previous level downscaled once. *)
Theorem C06_tiling_sound : forall ds, ds_shape_prop ds -> ds_local_prop ds ->
  forall g lvl chunks,
  geom_pos g = true -> a_sh lvl = g_os g -> a_c lvl = g_ch g ->
  tile_level ds g lvl = Ok chunks ->
  Forall (chunk_is_restriction ds g lvl) chunks.
Proof. exact tiling_sound. Qed.
Print Assumptions C06_tiling_sound.

(* no voxel of a written chunk is left uninitialised *)
Theorem C06_no_uninit : forall ds, ds_shape_prop ds -> ds_local_prop ds ->
  forall g lvl chunks,
  geom_pos g = true -> a_sh lvl = g_os g -> a_c lvl = g_ch g ->
  tile_level ds g lvl = Ok chunks ->
  forall lo hi buf c p, In (lo, hi, buf) chunks -> 0 <= c < g_ch g ->
    (forall a, 0 <= get3 a p < get3 a (sub3 hi lo)) -> b_get buf c p <> Uninit.
Proof. exact no_uninit. Qed.
Print Assumptions C06_no_uninit.

(* exact characterisation of the transitions that are processed: "no error"
   coincides with the executable predicate compat *)
Theorem C06_ok_iff_compat : forall ds, ds_shape_prop ds -> ds_local_prop ds ->
  forall g lvl,
  geom_pos g = true -> a_sh lvl = g_os g -> a_c lvl = g_ch g ->
  ((exists chunks, tile_level ds g lvl = Ok chunks) <-> compat g = true).
Proof. exact ok_iff_compat. Qed.
Print Assumptions C06_ok_iff_compat.

(* The source scale as a chunk STORE with fallible reads (the accessor fetch and
   the decoder behind chunk_reader.read_chunk; load_and_downscale_old_chunk has
   no try/except).  (a) Refinement: when every chunk of the old grid reads as
   the corresponding slice of a level array, the store variant IS the array
   variant, so every theorem above applies to it. *)
Theorem C06_store_refines_array : forall ds g src lvl,
  src_agrees g src lvl -> tile_level_src ds g src = tile_level ds g lvl.
Proof. exact tile_level_src_refines. Qed.
Print Assumptions C06_store_refines_array.

Theorem C06_store_of_complete_level : forall ds g lvl,
  tile_level_src ds g (src_of_level lvl) = tile_level ds g lvl.
Proof. exact tile_level_src_of_level. Qed.
Print Assumptions C06_store_of_complete_level.

(* every chunk of the old grid is needed by some assignment of some new chunk
   when the pair is compat *)
Theorem C06_every_source_chunk_needed : forall g, compat g = true ->
  forall j, in_old_grid g j = true ->
  exists idx b, In idx (ndindex (chunk_range g)) /\ In b octants /\
    forall3_3 ax_cond b (sub3 (new_hi g idx) (new_lo g idx)) (half_chunk g) = true /\
    add3 (mul3 idx (fetch_factor g)) b = j.
Proof. exact old_chunk_needed. Qed.
Print Assumptions C06_every_source_chunk_needed.

(* (b) "If a pair of scales cannot be processed, the tool fails with an error
   instead of writing wrong data", data side: on a compat pair whose store
   returns, for each chunk of the old grid, either the slice that was written
   or a failure, ONE unreadable chunk of the old grid makes the transition not
   Ok; its outcome is the error of a read that failed (same class), nothing
   else is returned. *)
Theorem C06_fails_on_unreadable_source : forall ds, ds_shape_prop ds ->
  forall g lvl src, a_c lvl = g_ch g -> compat g = true ->
  (forall lo hi, validate_chunk_coords (g_os g) (g_oc g) lo hi = true ->
     src lo hi = Ok (restrict lvl lo (sub3 hi lo)) \/ (forall a, src lo hi <> Ok a)) ->
  forall j, in_old_grid g j = true ->
  (forall a, src (old_chunk_lo g j) (old_chunk_hi g j) <> Ok a) ->
  (forall chunks, tile_level_src ds g src <> Ok chunks) /\
  failed_read g src (tile_level_src ds g src).
Proof. exact fails_on_unreadable_source. Qed.
Print Assumptions C06_fails_on_unreadable_source.

(* and with no unreadable chunk the same transition is all written or - never,
   by C06_store_refines_array + C06_tiling_exact - a failed read *)
Theorem C06_store_outcomes : forall ds, ds_shape_prop ds ->
  forall g lvl src, a_c lvl = g_ch g -> compat g = true ->
  (forall lo hi, validate_chunk_coords (g_os g) (g_oc g) lo hi = true ->
     src lo hi = Ok (restrict lvl lo (sub3 hi lo)) \/ (forall a, src lo hi <> Ok a)) ->
  (exists chunks, tile_level_src ds g src = Ok chunks) \/ failed_read g src (tile_level_src ds g src).
Proof. exact level_src_cases. Qed.
Print Assumptions C06_store_outcomes.

(* (c) non-vacuity: a compat transition whose old chunk at (4,0,0) cannot be
   fetched ends in AccessErr; with the complete store it is Ok *)
Example C06_fails_on_unreadable_source_example :
  compat src_example_geom = true /\ in_old_grid src_example_geom (1, 0, 0) = true /\
  a_c src_example_level = g_ch src_example_geom /\
  src_example_store (old_chunk_lo src_example_geom (1, 0, 0)) (old_chunk_hi src_example_geom (1, 0, 0))
    = AccessErr /\
  tile_level_src ds_avg src_example_geom src_example_store = AccessErr /\
  (exists chunks, tile_level_src ds_avg src_example_geom (src_of_level src_example_level) = Ok chunks).
Proof. exact fails_on_unreadable_source_example. Qed.

(* The level read back after one transition (whatever np.empty contained). *)
Theorem C06_next_level_exact : forall ds poison, ds_shape_prop ds -> ds_local_prop ds ->
  forall ch s0 s1 lvl,
  compat (geom_of ch s0 s1) = true -> a_sh lvl = sg_size s0 -> a_c lvl = ch ->
  exists nl, next_level ds poison ch s0 s1 lvl = Ok nl /\
    a_sh nl = sg_size s1 /\ a_c nl = ch /\
    forall c q, 0 <= c < ch -> (forall a, 0 <= get3 a q < get3 a (sg_size s1)) ->
      a_get nl c q = a_get (ds (factors (geom_of ch s0 s1)) lvl) c q.
Proof. exact next_level_exact. Qed.
Print Assumptions C06_next_level_exact.

(* The whole level loop (compute_dyadic_scales): when every consecutive pair
   of scales is compat, nothing is raised and every level is the whole previous
   level downscaled once (arr_eq = same extents, same voxels); the three
   downscalers only look inside the array (ds_ext_prop). *)
Theorem C06_downscalers_ext :
  ds_ext_prop ds_stride /\ ds_ext_prop ds_avg /\ ds_ext_prop ds_majority.
Proof. exact (conj stride_ext (conj avg_ext majority_ext)). Qed.
Print Assumptions C06_downscalers_ext.

Theorem C06_pyramid_exact : forall ds poison,
  ds_shape_prop ds -> ds_local_prop ds -> ds_ext_prop ds ->
  forall ch scales lvl lvl',
  all_pairs_ok compat ch scales = true ->
  (forall s0, hd_error scales = Some s0 -> a_sh lvl = sg_size s0) -> a_c lvl = ch ->
  arr_eq lvl lvl' ->
  exists out, pyramid ds poison ch scales lvl = Ok out /\
              Forall2 arr_eq out (pyramid_ref ds scales lvl').
Proof. exact pyramid_exact. Qed.
Print Assumptions C06_pyramid_exact.

(* The level loop without any guard: on scales with positive sizes,
   compute_dyadic_scales either raises or every level is the whole previous
   level downscaled once. *)
Theorem C06_pyramid_sound : forall ds poison,
  ds_shape_prop ds -> ds_local_prop ds -> ds_ext_prop ds ->
  forall ch scales lvl lvl' out,
  all_pairs_ok geom_pos ch scales = true ->
  (forall s0, hd_error scales = Some s0 -> a_sh lvl = sg_size s0) -> a_c lvl = ch ->
  arr_eq lvl lvl' ->
  pyramid ds poison ch scales lvl = Ok out ->
  Forall2 arr_eq out (pyramid_ref ds scales lvl').
Proof. exact pyramid_sound. Qed.
Print Assumptions C06_pyramid_sound.

(* Composition with the scale generator (C08), positive form: over every info
   the generator can produce, every channel count and every level-0 array, the
   pyramid computation is classified exact-or-error. *)
Theorem C06_generated_pairs : forall ds poison,
  ds_shape_prop ds -> ds_local_prop ds -> ds_ext_prop ds ->
  forall full res target ms scales ch lvl out,
  gen_scales full res target ms = Ok scales -> 0 < ch ->
  (forall s0, hd_error (map geo_of_scale scales) = Some s0 -> a_sh lvl = sg_size s0) ->
  a_c lvl = ch ->
  pyramid ds poison ch (map geo_of_scale scales) lvl = Ok out ->
  Forall2 arr_eq out (pyramid_ref ds (map geo_of_scale scales) lvl).
Proof. exact generated_pairs. Qed.
Print Assumptions C06_generated_pairs.

(* non-vacuity, and the former silent-wrong witnesses: both are now refused
   with ValueError (old chunks (8,2,2) -> new chunks (8,4,4) on sizes (9,5,1) ->
   (5,3,1); generator output for 65 x 5 x 1 voxels at 1:8:32 nm, target 4) *)
Example C06_former_witness_refused :
  stretch_class witness_geom = true /\ geom_pos witness_geom = true /\
  tile_level ds_stride witness_geom witness_level = Crash ValueError /\
  tile_level ds_avg witness_geom witness_level = Crash ValueError.
Proof. exact former_witness_refused. Qed.

Example C06_former_generated_witness_refused :
  generated_pair_bad gp_full gp_res 4 = true /\
  pyramid_outcome_is_value_error ds_stride gp_full gp_res 4 (levels 325) = true /\
  pyramid_outcome_is_value_error ds_avg gp_full gp_res 4 (levels 325) = true.
Proof. exact former_generated_witness_refused. Qed.

Example C06_compat_example :
  compat {| g_os := (9, 5, 3); g_ns := (5, 5, 2); g_oc := (4, 2, 2); g_nc := (4, 2, 1); g_ch := 2 |} = true.
Proof. exact compat_example. Qed.

(* ---------- link with the downscaler layer of C07 (Link/LinkDownscale.v) ----------

   The theorems above are instantiated with the executable downscalers of
   PyrTiling.v over the functional array type [arr]; C07 models the package's
   downscalers over nested lists [arr4] (shape (nc, nz, ny, nx), indexed
   channel, z, y, x) and proves them equal to stride_spec / majority_spec /
   avg_spec.  [arr_of4] reads a C07 array as a C06 array by indexing,
   [arr4_of] tabulates back ([arr4_of (arr_of4 .. a) = a] on rect4 arrays);
   [fx_of f = fac (list3 f) 0], ... are the factors as the C07 layer reads the
   Python sequence (Dx, Dy, Dz); [get4z d a c (x, y, z)] reads a nested list at
   integer coordinates. *)
From NGS Require Import DType Convert Downscale AverageProofs LinkDownscale.

(* The C06 downscalers ARE the C07 specifications, for all factors >= 1 (in
   particular {1,2}^3) and every shape: as whole arrays, and voxel by voxel at
   every in-range output voxel - striding: the voxel of stride_spec; majority:
   the statistic is_majority / majority_ref of the C07 (clamped) block, the
   voxel of majority_spec; averaging on integer data of type dt: mean_rhe of
   the edge-padded block (outside value None), the voxel of avg_spec. *)
Theorem C06_downscalers_are_C07_spec : forall f nc nz ny nx (V : arr4 Z),
  (forall ax, 1 <= get3 ax f) -> rect4 nc nz ny nx V ->
  let A := arr_of4 nc nz ny nx V in
  let fx := fx_of f in let fy := fy_of f in let fz := fz_of f in
  arr4_of (ds_stride f A) = stride_spec 0 fx fy fz nc nz ny nx V /\
  map4 Some (arr4_of (ds_majority f A)) = majority_spec fx fy fz nc nz ny nx V /\
  (forall dt, is_int dt = true -> Forall4 (in_range dt) V ->
     map4 NI (arr4_of (ds_avg f A))
     = avg_spec dt None fx fy fz nc nz ny nx (map4 QArith_base.inject_Z V)) /\
  forall c p, 0 <= c < Z.of_nat nc ->
    (forall ax, 0 <= get3 ax p < get3 ax (cdiv3 (sh3 nz ny nx) f)) ->
    let c' := Z.to_nat c in
    let z := Z.to_nat (get3 AZ p) in let y := Z.to_nat (get3 AY p) in
    let x := Z.to_nat (get3 AX p) in
    a_get (ds_stride f A) c p = get4z 0 (stride_spec 0 fx fy fz nc nz ny nx V) c p /\
    is_majority (majority_block_at fx fy fz V c' z y x) (a_get (ds_majority f A) c p) /\
    majority_ref (majority_block_at fx fy fz V c' z y x) = Some (a_get (ds_majority f A) c p) /\
    get4z None (majority_spec fx fy fz nc nz ny nx V) c p = Some (a_get (ds_majority f A) c p) /\
    (forall dt, is_int dt = true -> Forall4 (in_range dt) V ->
       mean_rhe dt (block_values None fx fy fz nz ny nx (map4 QArith_base.inject_Z V) c' z y x)
         = NI (a_get (ds_avg f A) c p) /\
       get4z (NI 0) (avg_spec dt None fx fy fz nc nz ny nx (map4 QArith_base.inject_Z V)) c p
         = NI (a_get (ds_avg f A) c p)).
Proof. exact downscalers_are_C07_spec. Qed.
Print Assumptions C06_downscalers_are_C07_spec.

(* ... hence (C07_stride_spec, C07_majority_spec) they are what the C07 MODELS
   of StridingDownscaler and MajorityDownscaler return *)
Theorem C06_downscalers_are_C07_models : forall f nc nz ny nx (V : arr4 Z),
  (forall ax, 1 <= get3 ax f) -> rect4 nc nz ny nx V ->
  stride_model (list3 f) V = Ok (arr4_of (ds_stride f (arr_of4 nc nz ny nx V))) /\
  majority_model (list3 f) nz ny nx V = Ok (arr4_of (ds_majority f (arr_of4 nc nz ny nx V))).
Proof. exact downscalers_are_C07_models. Qed.
Print Assumptions C06_downscalers_are_C07_models.

(* ... and, on uint8 / uint16 / uint32 data and factors in {1,2}^3, what the
   float64 MODEL of AveragingDownscaler (edge padding) returns.  Through
   C07_avg_exact: depends on the four standard-library axioms of Flocq's reals. *)
Theorem C06_average_is_C07_model : forall dt f nc nz ny nx (V : arr4 Z),
  (forall ax, get3 ax f = 1 \/ get3 ax f = 2) ->
  small_uint dt = true -> rect4 nc nz ny nx V -> Forall4 (in_range dt) V ->
  avg_model dt None (list3 f) (map4 NI V)
  = Ok (map4 NI (arr4_of (ds_avg f (arr_of4 nc nz ny nx V)))).
Proof. exact link_avg_model. Qed.
Print Assumptions C06_average_is_C07_model.

(* C06_tiling_sound for the package's downscaler models.  The previous level is
   the C07 array V of shape (nc, nz, ny, nx) with positive extents; a
   transition of the real tiling that does not raise wrote, in every chunk, the
   restriction of what the model of the package's downscaler computes on the
   ENTIRE previous level: every voxel of every chunk buffer holds a written
   value v, and the model's result holds v at the chunk's global position. *)
Theorem C06_tiling_sound_C07 : forall dt nc nz ny nx (V : arr4 Z) g chunks,
  small_uint dt = true -> rect4 nc nz ny nx V -> Forall4 (in_range dt) V ->
  geom_pos g = true /\ g_os g = sh3 nz ny nx /\ g_ch g = Z.of_nat nc ->
  tile_level ds_avg g (arr_of4 nc nz ny nx V) = Ok chunks ->
  exists out, avg_model dt None (list3 (factors g)) (map4 NI V) = Ok out /\
    out = avg_spec dt None (fx_of (factors g)) (fy_of (factors g)) (fz_of (factors g))
                   nc nz ny nx (map4 QArith_base.inject_Z V) /\
    Forall (fun ch => let '(lo, hi, buf) := ch in
      exists idx, In idx (ndindex (chunk_range g)) /\ lo = new_lo g idx /\ hi = new_hi g idx /\
        forall c p, 0 <= c < g_ch g -> (forall a, 0 <= get3 a p < get3 a (sub3 hi lo)) ->
          exists v, b_get buf c p = PyrTiling.Val v /\ get4z (NI 0) out c (add3 lo p) = NI v)
      chunks.
Proof. exact tiling_sound_avg_model. Qed.
Print Assumptions C06_tiling_sound_C07.

(* the same for StridingDownscaler and MajorityDownscaler (any labels),
   without axioms *)
Theorem C06_tiling_sound_C07_stride : forall nc nz ny nx (V : arr4 Z) g chunks,
  rect4 nc nz ny nx V ->
  geom_pos g = true /\ g_os g = sh3 nz ny nx /\ g_ch g = Z.of_nat nc ->
  tile_level ds_stride g (arr_of4 nc nz ny nx V) = Ok chunks ->
  exists out, stride_model (list3 (factors g)) V = Ok out /\
    Forall (fun ch => let '(lo, hi, buf) := ch in
      exists idx, In idx (ndindex (chunk_range g)) /\ lo = new_lo g idx /\ hi = new_hi g idx /\
        forall c p, 0 <= c < g_ch g -> (forall a, 0 <= get3 a p < get3 a (sub3 hi lo)) ->
          exists v, b_get buf c p = PyrTiling.Val v /\ get4z 0 out c (add3 lo p) = v)
      chunks.
Proof. exact tiling_sound_stride_model. Qed.
Print Assumptions C06_tiling_sound_C07_stride.

Theorem C06_tiling_sound_C07_majority : forall nc nz ny nx (V : arr4 Z) g chunks,
  rect4 nc nz ny nx V ->
  geom_pos g = true /\ g_os g = sh3 nz ny nx /\ g_ch g = Z.of_nat nc ->
  tile_level ds_majority g (arr_of4 nc nz ny nx V) = Ok chunks ->
  exists out, majority_model (list3 (factors g)) nz ny nx V = Ok out /\
    Forall (fun ch => let '(lo, hi, buf) := ch in
      exists idx, In idx (ndindex (chunk_range g)) /\ lo = new_lo g idx /\ hi = new_hi g idx /\
        forall c p, 0 <= c < g_ch g -> (forall a, 0 <= get3 a p < get3 a (sub3 hi lo)) ->
          exists v, b_get buf c p = PyrTiling.Val v /\ get4z 0 out c (add3 lo p) = v)
      chunks.
Proof. exact tiling_sound_majority_model. Qed.
Print Assumptions C06_tiling_sound_C07_majority.

(* non-vacuity: concrete uint8 data / labels of shape (1, 1, 2, 3) and factors
   (2, 2, 1) meet the hypotheses, both layers compute the same concrete arrays
   (block (1, 2, 250, 255) -> 127; edge-padded block (4, 4, 7, 7) -> 5.5 -> 6;
   labels (5, 2, 7, 7) -> 7, clipped block (2, 9) -> 2), and a transition on
   that level is processed by the tiling *)
Example C06_link_examples :
  (forall ax, 1 <= get3 ax (2, 2, 1)) /\ f12 (2, 2, 1) /\
  rect4 1 1 2 3 ex_V /\ rect4 1 1 2 3 ex_L /\
  small_uint U8 = true /\ Forall4 (in_range U8) ex_V /\
  arr4_of (ds_stride (2, 2, 1) (arr_of4 1 1 2 3 ex_L)) = [[[[5; 2]]]] /\
  stride_model [2; 2; 1] ex_L = Ok [[[[5; 2]]]] /\
  arr4_of (ds_majority (2, 2, 1) (arr_of4 1 1 2 3 ex_L)) = [[[[7; 2]]]] /\
  majority_model [2; 2; 1] 1 2 3 ex_L = Ok [[[[7; 2]]]] /\
  majority_spec 2 2 1 1 1 2 3 ex_L = [[[[Some 7; Some 2]]]] /\
  arr4_of (ds_avg (2, 2, 1) (arr_of4 1 1 2 3 ex_V)) = [[[[127; 6]]]] /\
  avg_model U8 None [2; 2; 1] (map4 NI ex_V) = Ok [[[[NI 127; NI 6]]]] /\
  avg_spec U8 None 2 2 1 1 1 2 3 (map4 QArith_base.inject_Z ex_V) = [[[[NI 127; NI 6]]]].
Proof. exact link_examples. Qed.

Example C06_link_tiling_examples :
  (geom_pos ex_geom = true /\ g_os ex_geom = sh3 1 2 3 /\ g_ch ex_geom = Z.of_nat 1) /\
  factors ex_geom = (2, 2, 1) /\ compat ex_geom = true /\
  (exists chunks, tile_level ds_avg ex_geom (arr_of4 1 1 2 3 ex_V) = Ok chunks /\ length chunks = 2%nat) /\
  (exists chunks, tile_level ds_stride ex_geom (arr_of4 1 1 2 3 ex_L) = Ok chunks /\ length chunks = 2%nat) /\
  (exists chunks, tile_level ds_majority ex_geom (arr_of4 1 1 2 3 ex_L) = Ok chunks /\ length chunks = 2%nat).
Proof. exact tiling_examples. Qed.

(* the two conversions are inverse to each other (on arrays of the stated
   shape; arr_eq = same extents, same voxels inside them) *)
Theorem C06_array_conversions :
  (forall nc nz ny nx (a : arr4 Z), rect4 nc nz ny nx a -> arr4_of (arr_of4 nc nz ny nx a) = a) /\
  (forall a : arr, 0 <= a_c a -> (forall ax, 0 <= get3 ax (a_sh a)) ->
     arr_eq (arr_of4 (Z.to_nat (a_c a)) (Z.to_nat (get3 AZ (a_sh a))) (Z.to_nat (get3 AY (a_sh a)))
                     (Z.to_nat (get3 AX (a_sh a))) (arr4_of a)) a).
Proof. exact (conj arr4_of_arr_of4 arr_of4_arr4_of). Qed.
Print Assumptions C06_array_conversions.
