(* C06 - each pyramid level equals the whole previous level downscaled once.
   Statements only; the model is theories/Pyramid/PyrTiling.v (a pointwise
   model of compute_dyadic_downscaling, parametric in the downscaling
   function) and PyrCompute.v (the level loop); proofs are in
   PyrTilingProofs.v and PyrComputeProofs.v. *)
From Coq Require Import ZArith List Bool Lia.
From NGS Require Import Val Ints PyrScales PyrKeys PyrTiling PyrCompute
                        PyrScalesProofs PyrTilingProofs PyrComputeProofs.
Import ListNotations.
Open Scope Z_scope.

(* The three downscalers (striding, exact integer mean with edge padding
   rounded half to even, majority) produce ceil(shape / factor) arrays and are
   LOCAL: downscaling a chunk that starts on a multiple of the factor and is
   full or ends at the border of the array equals the restriction of
   downscaling the whole array. *)
Theorem C06_local_stride : ds_shape_prop ds_stride /\ ds_local_prop ds_stride.
Proof. exact (conj stride_shape stride_local). Qed.
Print Assumptions C06_local_stride.

Theorem C06_local_average : ds_shape_prop ds_avg /\ ds_local_prop ds_avg.
Proof. exact (conj avg_shape avg_local). Qed.
Print Assumptions C06_local_average.

Theorem C06_local_majority : ds_shape_prop ds_majority /\ ds_local_prop ds_majority.
Proof. exact (conj majority_shape majority_local). Qed.
Print Assumptions C06_local_majority.

(* For EVERY local downscaling function and every geometry satisfying the
   executable predicate [compat] (old chunk = factor * half chunk, new chunk =
   the half chunk or twice it, or the level fits one new chunk and two half
   chunks), compute_dyadic_downscaling raises nothing, writes the chunks of the
   new grid in np.ndindex order, and every voxel of every chunk is the
   whole-level downscale at its global position. *)
Theorem C06_tiling_exact : forall ds, ds_shape_prop ds -> ds_local_prop ds ->
  forall g lvl, compat g = true -> a_sh lvl = g_os g -> a_c lvl = g_ch g ->
  exists chunks, tile_level ds g lvl = Ok chunks /\
    map (fun c => fst (fst c)) chunks = map (new_lo g) (ndindex (chunk_range g)) /\
    Forall (chunk_is_restriction ds g lvl) chunks.
Proof. exact tiling_exact. Qed.
Print Assumptions C06_tiling_exact.

(* Inside [tiling_guard] (compat, or along each other axis: old chunk = factor
   * half chunk, half chunk >= 2 and dividing the new chunk) a run that does
   not raise wrote the right data: "fails with an error instead of writing
   wrong data". *)
Theorem C06_tiling_sound_on_guard : forall ds, ds_shape_prop ds -> ds_local_prop ds ->
  forall g lvl chunks, tiling_guard g = true -> a_sh lvl = g_os g -> a_c lvl = g_ch g ->
  tile_level ds g lvl = Ok chunks -> Forall (chunk_is_restriction ds g lvl) chunks.
Proof. exact tiling_sound_on_guard. Qed.
Print Assumptions C06_tiling_sound_on_guard.

Theorem C06_no_uninit_on_guard : forall ds, ds_shape_prop ds -> ds_local_prop ds ->
  forall g lvl chunks, tiling_guard g = true -> a_sh lvl = g_os g -> a_c lvl = g_ch g ->
  tile_level ds g lvl = Ok chunks ->
  forall lo hi buf c p, In (lo, hi, buf) chunks -> 0 <= c < g_ch g ->
    (forall a, 0 <= get3 a p < get3 a (sub3 hi lo)) -> b_get buf c p <> Uninit.
Proof. exact no_uninit_on_guard. Qed.
Print Assumptions C06_no_uninit_on_guard.

(* Stronger: for any geometry with positive sizes, a run that does not raise
   OUTSIDE the stretch class (half chunk of exactly 1 facing min(new chunk,
   new size) >= 3 along some axis) is a compat geometry - so the length-1
   stretch is the ONLY way compute_dyadic_downscaling can write a wrong level
   without raising. *)
Theorem C06_ok_outside_stretch_is_compat : forall ds, ds_shape_prop ds ->
  forall g lvl chunks,
  geom_pos g = true -> tile_level ds g lvl = Ok chunks -> stretch_class g = false ->
  compat g = true.
Proof. exact ok_outside_stretch_is_compat. Qed.
Print Assumptions C06_ok_outside_stretch_is_compat.

Theorem C06_tiling_sound_outside_stretch : forall ds, ds_shape_prop ds -> ds_local_prop ds ->
  forall g lvl chunks,
  geom_pos g = true -> stretch_class g = false -> a_sh lvl = g_os g -> a_c lvl = g_ch g ->
  tile_level ds g lvl = Ok chunks ->
  Forall (chunk_is_restriction ds g lvl) chunks.
Proof. exact tiling_sound_outside_stretch. Qed.
Print Assumptions C06_tiling_sound_outside_stretch.

(* Outside the guard the property fails: old chunks (8,2,2) -> new chunks
   (8,4,4) on sizes (9,5,1) -> (5,3,1), factors (2,2,1).  Along y the half
   chunk is 1 and the new chunk has 3 rows: NumPy repeats the single
   downscaled row, nothing is raised, the data is wrong. *)
Theorem C06_tiling_refuted :
  tiling_guard witness_geom = false /\ stretch_class witness_geom = true /\
  geom_pos witness_geom = true /\ sizes_ok witness_geom = true /\
  a_sh witness_level = g_os witness_geom /\ a_c witness_level = g_ch witness_geom /\
  exists chunks, tile_level ds_stride witness_geom witness_level = Ok chunks /\
                 ~ Forall (chunk_is_restriction ds_stride witness_geom witness_level) chunks.
Proof. exact tiling_refuted_stride. Qed.
Print Assumptions C06_tiling_refuted.

Theorem C06_tiling_refuted_average :
  exists chunks, tile_level ds_avg witness_geom witness_level = Ok chunks /\
                 ~ Forall (chunk_is_restriction ds_avg witness_geom witness_level) chunks.
Proof. exact tiling_refuted_avg. Qed.
Print Assumptions C06_tiling_refuted_average.

(* The level read back after one transition (whatever np.empty contained). *)
Theorem C06_next_level_exact : forall ds poison, ds_shape_prop ds -> ds_local_prop ds ->
  forall ch s0 s1 lvl,
  compat (geom_of ch s0 s1) = true -> a_sh lvl = sg_size s0 -> a_c lvl = ch ->
  exists nl, next_level ds poison ch s0 s1 lvl = Ok nl /\
    a_sh nl = sg_size s1 /\ a_c nl = ch /\
    forall c q, 0 <= c < ch -> (forall a, 0 <= get3 a q < get3 a (sg_size s1)) ->
      a_get nl c q = a_get (ds (factors (geom_of ch s0 s1)) lvl) c q.
Proof. exact next_level_exact. Qed.
Print Assumptions C06_next_level_exact.

(* The whole level loop (compute_dyadic_scales): when every consecutive pair
   of scales is compat, nothing is raised and every level is the whole previous
   level downscaled once (arr_eq = same extents, same voxels); the three
   downscalers only look inside the array (ds_ext_prop). *)
Theorem C06_downscalers_ext :
  ds_ext_prop ds_stride /\ ds_ext_prop ds_avg /\ ds_ext_prop ds_majority.
Proof. exact (conj stride_ext (conj avg_ext majority_ext)). Qed.
Print Assumptions C06_downscalers_ext.

Theorem C06_pyramid_exact : forall ds poison,
  ds_shape_prop ds -> ds_local_prop ds -> ds_ext_prop ds ->
  forall ch scales lvl lvl',
  all_pairs_ok compat ch scales = true ->
  (forall s0, hd_error scales = Some s0 -> a_sh lvl = sg_size s0) -> a_c lvl = ch ->
  arr_eq lvl lvl' ->
  exists out, pyramid ds poison ch scales lvl = Ok out /\
              Forall2 arr_eq out (pyramid_ref ds scales lvl').
Proof. exact pyramid_exact. Qed.
Print Assumptions C06_pyramid_exact.

(* Composition with the scale generator (C08): the scales the generator emits
   CAN reach the silent class - for 65 x 5 x 1 voxels at 1:8:32 nm and target
   chunk size 4 the first three transitions are exact and the last one writes
   wrong voxels without any error. *)
Theorem C06_generated_pairs_refuted :
  generated_pair_bad gp_full gp_res 4 = true /\
  silent_wrong_run ds_stride gp_full gp_res 4 (levels 325) = true /\
  silent_wrong_run ds_avg gp_full gp_res 4 (levels 325) = true.
Proof. exact generated_pairs_refuted. Qed.
Print Assumptions C06_generated_pairs_refuted.

Theorem C06_generated_pairs_on_guard : forall full res target scales ch,
  gen_scales full res target 0 = Ok scales ->
  all_pairs_ok compat ch (map geo_of_scale scales) = true ->
  forall s0 s1 pre post, map geo_of_scale scales = pre ++ s0 :: s1 :: post ->
    compat (geom_of ch s0 s1) = true.
Proof. exact generated_pairs_on_guard. Qed.
Print Assumptions C06_generated_pairs_on_guard.

(* non-vacuity *)
Example C06_compat_example :
  compat {| g_os := (9, 5, 3); g_ns := (5, 5, 2); g_oc := (4, 2, 2); g_nc := (4, 2, 1); g_ch := 2 |} = true.
Proof. exact compat_example. Qed.

Example C06_guard_example :
  let g := {| g_os := (20, 5, 3); g_ns := (10, 5, 3); g_oc := (4, 2, 2); g_nc := (8, 2, 2); g_ch := 1 |} in
  tiling_guard g = true /\ compat g = false.
Proof. exact guard_not_compat_example. Qed.
