(* C06 - each pyramid level equals the whole previous level downscaled once.
   Statements only; the model is theories/Pyramid/PyrTiling.v (a pointwise
   model of compute_dyadic_downscaling, parametric in the downscaling
   function) and PyrCompute.v (the level loop); proofs are in
   PyrTilingProofs.v and PyrComputeProofs.v. *)
From Coq Require Import ZArith List Bool Lia.
From NGS Require Import Val Ints PyrScales PyrKeys PyrTiling PyrCompute
                        PyrScalesProofs PyrTilingProofs PyrComputeProofs.
Import ListNotations.
Open Scope Z_scope.

(* The three downscalers (striding, exact integer mean with edge padding
   rounded half to even, majority) produce ceil(shape / factor) arrays and are
   LOCAL: downscaling a chunk that starts on a multiple of the factor and is
   full or ends at the border of the array equals the restriction of
   downscaling the whole array. *)
Theorem C06_local_stride : ds_shape_prop ds_stride /\ ds_local_prop ds_stride.
Proof. exact (conj stride_shape stride_local). Qed.
Print Assumptions C06_local_stride.

Theorem C06_local_average : ds_shape_prop ds_avg /\ ds_local_prop ds_avg.
Proof. exact (conj avg_shape avg_local). Qed.
Print Assumptions C06_local_average.

Theorem C06_local_majority : ds_shape_prop ds_majority /\ ds_local_prop ds_majority.
Proof. exact (conj majority_shape majority_local). Qed.
Print Assumptions C06_local_majority.

(* For EVERY local downscaling function and every geometry satisfying the
   executable predicate [compat] (old chunk = factor * half chunk, new chunk =
   the half chunk or twice it, or the level fits one new chunk and two half
   chunks), compute_dyadic_downscaling raises nothing, writes the chunks of the
   new grid in np.ndindex order, and every voxel of every chunk is the
   whole-level downscale at its global position. *)
Theorem C06_tiling_exact : forall ds, ds_shape_prop ds -> ds_local_prop ds ->
  forall g lvl, compat g = true -> a_sh lvl = g_os g -> a_c lvl = g_ch g ->
  exists chunks, tile_level ds g lvl = Ok chunks /\
    map (fun c => fst (fst c)) chunks = map (new_lo g) (ndindex (chunk_range g)) /\
    Forall (chunk_is_restriction ds g lvl) chunks.
Proof. exact tiling_exact. Qed.
Print Assumptions C06_tiling_exact.

(* "If a pair of scales cannot be processed, the tool fails with an error
   instead of writing wrong data" - WITHOUT any guard (since /repo e7c7a72
   refuses the half-chunk-1 stretch up front): for every geometry with positive
   sizes and every local downscaler, a transition that does not raise wrote,
   in every chunk, the whole previous level downscaled once. *)
Theorem C06_tiling_sound : forall ds, ds_shape_prop ds -> ds_local_prop ds ->
  forall g lvl chunks,
  geom_pos g = true -> a_sh lvl = g_os g -> a_c lvl = g_ch g ->
  tile_level ds g lvl = Ok chunks ->
  Forall (chunk_is_restriction ds g lvl) chunks.
Proof. exact tiling_sound. Qed.
Print Assumptions C06_tiling_sound.

(* no voxel of a written chunk is left uninitialised *)
Theorem C06_no_uninit : forall ds, ds_shape_prop ds -> ds_local_prop ds ->
  forall g lvl chunks,
  geom_pos g = true -> a_sh lvl = g_os g -> a_c lvl = g_ch g ->
  tile_level ds g lvl = Ok chunks ->
  forall lo hi buf c p, In (lo, hi, buf) chunks -> 0 <= c < g_ch g ->
    (forall a, 0 <= get3 a p < get3 a (sub3 hi lo)) -> b_get buf c p <> Uninit.
Proof. exact no_uninit. Qed.
Print Assumptions C06_no_uninit.

(* exact characterisation of the transitions that are processed: "no error"
   coincides with the executable predicate compat *)
Theorem C06_ok_iff_compat : forall ds, ds_shape_prop ds -> ds_local_prop ds ->
  forall g lvl,
  geom_pos g = true -> a_sh lvl = g_os g -> a_c lvl = g_ch g ->
  ((exists chunks, tile_level ds g lvl = Ok chunks) <-> compat g = true).
Proof. exact ok_iff_compat. Qed.
Print Assumptions C06_ok_iff_compat.

(* The level read back after one transition (whatever np.empty contained). *)
Theorem C06_next_level_exact : forall ds poison, ds_shape_prop ds -> ds_local_prop ds ->
  forall ch s0 s1 lvl,
  compat (geom_of ch s0 s1) = true -> a_sh lvl = sg_size s0 -> a_c lvl = ch ->
  exists nl, next_level ds poison ch s0 s1 lvl = Ok nl /\
    a_sh nl = sg_size s1 /\ a_c nl = ch /\
    forall c q, 0 <= c < ch -> (forall a, 0 <= get3 a q < get3 a (sg_size s1)) ->
      a_get nl c q = a_get (ds (factors (geom_of ch s0 s1)) lvl) c q.
Proof. exact next_level_exact. Qed.
Print Assumptions C06_next_level_exact.

(* The whole level loop (compute_dyadic_scales): when every consecutive pair
   of scales is compat, nothing is raised and every level is the whole previous
   level downscaled once (arr_eq = same extents, same voxels); the three
   downscalers only look inside the array (ds_ext_prop). *)
Theorem C06_downscalers_ext :
  ds_ext_prop ds_stride /\ ds_ext_prop ds_avg /\ ds_ext_prop ds_majority.
Proof. exact (conj stride_ext (conj avg_ext majority_ext)). Qed.
Print Assumptions C06_downscalers_ext.

Theorem C06_pyramid_exact : forall ds poison,
  ds_shape_prop ds -> ds_local_prop ds -> ds_ext_prop ds ->
  forall ch scales lvl lvl',
  all_pairs_ok compat ch scales = true ->
  (forall s0, hd_error scales = Some s0 -> a_sh lvl = sg_size s0) -> a_c lvl = ch ->
  arr_eq lvl lvl' ->
  exists out, pyramid ds poison ch scales lvl = Ok out /\
              Forall2 arr_eq out (pyramid_ref ds scales lvl').
Proof. exact pyramid_exact. Qed.
Print Assumptions C06_pyramid_exact.

(* The level loop without any guard: on scales with positive sizes,
   compute_dyadic_scales either raises or every level is the whole previous
   level downscaled once. *)
Theorem C06_pyramid_sound : forall ds poison,
  ds_shape_prop ds -> ds_local_prop ds -> ds_ext_prop ds ->
  forall ch scales lvl lvl' out,
  all_pairs_ok geom_pos ch scales = true ->
  (forall s0, hd_error scales = Some s0 -> a_sh lvl = sg_size s0) -> a_c lvl = ch ->
  arr_eq lvl lvl' ->
  pyramid ds poison ch scales lvl = Ok out ->
  Forall2 arr_eq out (pyramid_ref ds scales lvl').
Proof. exact pyramid_sound. Qed.
Print Assumptions C06_pyramid_sound.

(* Composition with the scale generator (C08), positive form: over every info
   the generator can produce, every channel count and every level-0 array, the
   pyramid computation is classified exact-or-error. *)
Theorem C06_generated_pairs : forall ds poison,
  ds_shape_prop ds -> ds_local_prop ds -> ds_ext_prop ds ->
  forall full res target ms scales ch lvl out,
  gen_scales full res target ms = Ok scales -> 0 < ch ->
  (forall s0, hd_error (map geo_of_scale scales) = Some s0 -> a_sh lvl = sg_size s0) ->
  a_c lvl = ch ->
  pyramid ds poison ch (map geo_of_scale scales) lvl = Ok out ->
  Forall2 arr_eq out (pyramid_ref ds (map geo_of_scale scales) lvl).
Proof. exact generated_pairs. Qed.
Print Assumptions C06_generated_pairs.

(* non-vacuity, and the former silent-wrong witnesses: both are now refused
   with ValueError (old chunks (8,2,2) -> new chunks (8,4,4) on sizes (9,5,1) ->
   (5,3,1); generator output for 65 x 5 x 1 voxels at 1:8:32 nm, target 4) *)
Example C06_former_witness_refused :
  stretch_class witness_geom = true /\ geom_pos witness_geom = true /\
  tile_level ds_stride witness_geom witness_level = Crash ValueError /\
  tile_level ds_avg witness_geom witness_level = Crash ValueError.
Proof. exact former_witness_refused. Qed.

Example C06_former_generated_witness_refused :
  generated_pair_bad gp_full gp_res 4 = true /\
  pyramid_outcome_is_value_error ds_stride gp_full gp_res 4 (levels 325) = true /\
  pyramid_outcome_is_value_error ds_avg gp_full gp_res 4 (levels 325) = true.
Proof. exact former_generated_witness_refused. Qed.

Example C06_compat_example :
  compat {| g_os := (9, 5, 3); g_ns := (5, 5, 2); g_oc := (4, 2, 2); g_nc := (4, 2, 1); g_ch := 2 |} = true.
Proof. exact compat_example. Qed.
