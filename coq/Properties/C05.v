(* C05 — sharded storage returns what was stored, whatever the order of
   writes.  Statements only; proofs live in theories/Shard/*Proofs.v.

   Notation: sp = (minishard, shard, preshift) bit counts; [mk sp mb n] is the
   n-th identifier of the (shard, minishard) class whose class bits are mb;
   [rank], [mbits] the inverse decomposition; [closed_mini] the state of a
   MiniShard object after close() as a function of the SET of stored
   (identifier, payload) pairs. *)
From Coq Require Import NArith ZArith List Bool Lia Permutation.
From NGS Require Import Val Ints Morton ShardBytes MiniShard ShardFile ShardReader ShardSpecReader
  ShardCanon MiniShardProofs ShardFileProofs ShardReaderProofs ShardWitness ShardWitnessProofs.
Import ListNotations.
Open Scope N_scope.

(* (1) the arithmetic core: identifier <-> (class, rank) is a bijection,
   monotone in the rank, for ALL bit counts *)
Theorem C05_class_rank_bij : forall sp,
  (forall id, mk sp (mbits sp id) (rank sp id) = id) /\
  (forall K n, K < 2 ^ (sp_s sp + sp_m sp) ->
     rank sp (mk sp (K * 2 ^ sp_p sp) n) = n /\ mbits sp (mk sp (K * 2 ^ sp_p sp) n) = K * 2 ^ sp_p sp) /\
  (forall K n1 n2, K < 2 ^ (sp_s sp + sp_m sp) -> n1 < n2 ->
     mk sp (K * 2 ^ sp_p sp) n1 < mk sp (K * 2 ^ sp_p sp) n2).
Proof.
  intro sp. split; [exact (mk_rank sp)|]. split.
  - intros K n HK. split; [exact (rank_mk sp K n HK) | exact (mbits_mk sp K n HK)].
  - exact (mk_mono sp).
Qed.
Print Assumptions C05_class_rank_bij.

(* MiniShard.next_cmc, with its uint64 shifts (shift counts >= 64 give 0),
   is the n-th identifier of the class whenever that identifier exists *)
Theorem C05_next_cmc_is_mk : forall sp K n,
  K < 2 ^ (sp_s sp + sp_m sp) -> cbits sp < 2 ^ 64 -> mk sp (K * 2 ^ sp_p sp) n < 2 ^ 64 ->
  next_cmc sp (K * 2 ^ sp_p sp) n = mk sp (K * 2 ^ sp_p sp) n.
Proof. exact next_cmc_is_mk. Qed.
Print Assumptions C05_next_cmc_is_mk.

(* masked_bits computed from the masks is the class-bits field of the identifier *)
Theorem C05_masked_bits_is_class : forall sp id,
  id < 2 ^ 64 -> sp_m sp + sp_s sp < 2 ^ 64 -> masked_of sp id = mbits sp id.
Proof. exact masked_of_is_mbits. Qed.
Print Assumptions C05_masked_bits_is_class.

(* (2) the reorder buffer, over ALL store sequences of distinct identifiers of
   one class: no store raises, close() terminates within its fuel without an
   exception, and the closed object is [closed_mini] of the stored set *)
Theorem C05_mini_close_canonical : forall sp enc K ops,
  K < 2 ^ (sp_s sp + sp_m sp) -> cbits sp < 2 ^ 64 ->
  ops <> [] -> NoDup (map fst ops) ->
  (forall id, In id (map fst ops) -> in_class sp K id) ->
  exists st,
    ms_run sp enc ms_init ops = (st, map (fun _ => Ok tt) ops) /\
    ms_close sp st = (closed_mini sp enc (K * 2 ^ sp_p sp) ops, Ok tt).
Proof. exact mini_close_canonical. Qed.
Print Assumptions C05_mini_close_canonical.

(* two orders of the same chunk set leave byte-identical minishard data and index *)
Theorem C05_mini_order_independent : forall sp enc K ops1 ops2,
  K < 2 ^ (sp_s sp + sp_m sp) -> cbits sp < 2 ^ 64 ->
  ops1 <> [] -> NoDup (map fst ops1) ->
  (forall id, In id (map fst ops1) -> in_class sp K id) ->
  Permutation ops1 ops2 ->
  exists st1 st2 c,
    ms_run sp enc ms_init ops1 = (st1, map (fun _ => Ok tt) ops1) /\
    ms_run sp enc ms_init ops2 = (st2, map (fun _ => Ok tt) ops2) /\
    ms_close sp st1 = (c, Ok tt) /\ ms_close sp st2 = (c, Ok tt).
Proof. exact mini_order_independent. Qed.
Print Assumptions C05_mini_order_independent.

Example C05_mini_hypotheses_inhabited :
  let sp := {| sp_m := 1; sp_s := 1; sp_p := 1 |} in
  let ops := [(13, [1; 2]); (4, []); (21, [3])] in
  1 < 2 ^ (sp_s sp + sp_m sp) /\ cbits sp < 2 ^ 64 /\ ops <> [] /\ NoDup (map fst ops) /\
  (forall id, In id (map fst ops) -> in_class sp 2 id) /\
  snd (ms_close sp (fst (ms_run sp (fun b => b) ms_init ops))) = Ok tt /\
  ms_hdr (fst (ms_close sp (fst (ms_run sp (fun b => b) ms_init ops)))) =
    [4; 0; 0;  1; 0; 0;  7; 0; 0;  1; 0; 2;  7; 0; 0;  1; 0; 1].
Proof. exact mini_hyps_example. Qed.

(* (5) entries written by the gap filling of close() are empty *)
Theorem C05_gap_entries_empty : forall sp enc (sm : store_map) mbv i,
  alookup (mk sp mbv (N.of_nat i)) sm = None ->
  cpay sp enc sm mbv i = [] /\
  (forall off a, (i < a)%nat -> nth (3 * i + 2) (chdr sp enc sm mbv off a) 1 = 0).
Proof. exact gap_entries_empty. Qed.
Print Assumptions C05_gap_entries_empty.

(* (5) never stored => never reported as data, reader half, for EVERY file
   content: the package reader only returns bytes of an index entry whose
   cumulative identifier is the requested one, at most size_i of them; so if
   the only entries carrying that identifier have size 0 the result is empty.
   FULL statement (not proved: it needs the byte-level parse of the canonical
   file, see C04):  never_stored : id not in S ->
     scale_fetch (files (close (run ops))) id  is IOErr, Crash _ or Ok []. *)
Theorem C05_never_stored_partial : forall sp s ws cmc b,
  Nat.modulo (length ws) 3 = 0%nat ->
  (forall i, (i < Nat.div (length ws) 3)%nat -> cum_id ws i = cmc ->
             nth (2 * Nat.div (length ws) 3 + i) ws 0 = 0) ->
  mini_fetch_raw sp s ws cmc = Ok b -> b = [].
Proof. exact fetch_of_empty_entry. Qed.
Print Assumptions C05_never_stored_partial.

Theorem C05_fetch_reads_listed_entry : forall sp s ws cmc b,
  Nat.modulo (length ws) 3 = 0%nat ->
  mini_fetch_raw sp s ws cmc = Ok b ->
  exists i, (i < Nat.div (length ws) 3)%nat /\ cum_id ws i = cmc /\
            lenN b <= nth (2 * Nat.div (length ws) 3 + i) ws 0.
Proof. exact fetch_reads_listed_entry. Qed.
Print Assumptions C05_fetch_reads_listed_entry.

(* (4) impl_reads_canonical — instances evaluated in the kernel (whole
   pipeline: routing, reorder buffers, Shard.close, the package reader):
   the package reader returns the stored bytes for all 24 chunks of the 3x4x2
   dataset although two shards use minishards {0,2}, and for the 2x3x2 dataset
   stored in reverse order.
   FULL statement (not proved):  impl_reads_canonical : S id = Some b ->
     scale_fetch (files (close (run ops))) id = Ok b   for every chunk set. *)
Theorem C05_impl_reads_instances :
  forallb (fun id => outcome_eqb (scale_fetch wit_sp raw_dec raw_dec (dir_of 2 wit_files) id) (wit_payload id))
          wit_ids = true /\
  forallb (fun id => outcome_eqb (scale_fetch ok_sp raw_dec raw_dec (dir_of 1 ok_files) id) (ok_payload id))
          ok_ids = true.
Proof.
  split; [exact (proj2 (proj2 (proj2 (proj2 (proj2 (proj2 (proj2 old_witness_reads)))))))
         | exact (proj1 (proj2 (proj2 (proj2 (proj2 guard_example)))))].
Qed.
Print Assumptions C05_impl_reads_instances.

(* (2) order_independent, file level, for EVERY grid / parameter triple with
   p + s + m < 2^64, every set of distinct identifiers (< 2^64, rank + 1 < 2^64)
   and every pair of store orders: no store raises under either order and
   ShardedScale.close produces the same list of (file name, result of
   Shard.close) — byte-identical files.  The encoders are arbitrary functions
   (raw or the gzip oracle).  ops are (identifier, payload) pairs as seen by
   ShardedScale.store_cmc_chunk. *)
Theorem C05_order_independent : forall sp enc ienc, cbits sp < 2 ^ 64 ->
  forall ops1 ops2, ops_valid sp ops1 -> Permutation ops1 ops2 ->
  snd (run_cmc_stores sp enc [] ops1) = map (fun _ => Ok tt) ops1 /\
  snd (run_cmc_stores sp enc [] ops2) = map (fun _ => Ok tt) ops2 /\
  scale_close sp ienc (fst (run_cmc_stores sp enc [] ops1)) =
  scale_close sp ienc (fst (run_cmc_stores sp enc [] ops2)).
Proof. exact order_independent. Qed.
Print Assumptions C05_order_independent.

(* the same through ShardedFileAccessor.store_chunk (chunk origins resolved by
   get_cmc): a whole writing session *)
Theorem C05_session_order_independent : forall sp enc ienc v ops1 ops2 cms1 cms2,
  cbits sp < 2 ^ 64 ->
  Forall2 (resolves v) ops1 cms1 -> Forall2 (resolves v) ops2 cms2 ->
  ops_valid sp cms1 -> Permutation cms1 cms2 ->
  fst (run_session sp enc ienc v ops1) = map (fun _ => Ok tt) ops1 /\
  fst (run_session sp enc ienc v ops2) = map (fun _ => Ok tt) ops2 /\
  snd (run_session sp enc ienc v ops1) = snd (run_session sp enc ienc v ops2).
Proof. exact session_order_independent. Qed.
Print Assumptions C05_session_order_independent.

(* every reachable minishard object is the result of the stores routed to it,
   whatever happened to the other minishards (valid for ALL store sequences,
   including ones with rejected stores) *)
Theorem C05_routing_decomposition : forall sp enc ops st sk mk,
  get2 (fst (run_cmc_stores sp enc st ops)) sk mk =
  after sp enc (get2 st sk mk) (routed sp sk mk ops).
Proof. intros sp enc ops st sk mk. exact (proj1 (run_step sp enc ops st) sk mk). Qed.
Print Assumptions C05_routing_decomposition.

(* non-vacuity + instance: all 24 chunks of the 3x4x2 dataset stored in
   increasing and in decreasing order give identical files (in-kernel run) *)
Theorem C05_order_instance : snd wit_session = snd wit_session_rev.
Proof. exact wit_order_instance. Qed.
Print Assumptions C05_order_instance.

Example C05_ops_valid_inhabited :
  ops_valid {| sp_m := 2; sp_s := 2; sp_p := 0 |} [(10, [9; 9; 9]); (8, [2; 2; 2]); (26, [])].
Proof.
  split.
  - repeat constructor; simpl; intuition discriminate.
  - intros id [<-|[<-|[<-|[]]]]; vm_compute; split; reflexivity.
Qed.

(* Strategy independence ("in memory" vs "on disk" buffers) is NOT a theorem:
   both strategies are the same abstract map / byte sequence in the model; that
   the real OnDiskBytesDict / OnDiskByteArray behave like dict / bytearray is
   checked by the correspondence run (harness/props/c05.py compares the files
   written under both strategies byte for byte with each other and the model). *)
