(* C05 — sharded storage returns what was stored, whatever the order of
   writes.  Statements only; proofs live in theories/Shard/*Proofs.v.

   Notation: sp = (minishard, shard, preshift) bit counts; [mk sp mb n] is the
   n-th identifier of the (shard, minishard) class whose class bits are mb;
   [rank], [mbits] the inverse decomposition; [closed_mini] the state of a
   MiniShard object after close() as a function of the SET of stored
   (identifier, payload) pairs. *)
From Coq Require Import NArith ZArith List Bool Lia Permutation.
From NGS Require Import Val Ints Morton ShardBytes MiniShard ShardFile ShardReader ShardSpecReader
  ShardCanon MiniShardProofs ShardFileProofs ShardReaderProofs ShardCloseProofs ShardSpecProofs
  ShardTopProofs ShardImplProofs ShardWitness ShardWitnessProofs ShardSession ShardSessionProofs.
Import ListNotations.
Open Scope N_scope.

(* (1) the arithmetic core: identifier <-> (class, rank) is a bijection,
   monotone in the rank, for ALL bit counts *)
Theorem C05_class_rank_bij : forall sp,
  (forall id, mk sp (mbits sp id) (rank sp id) = id) /\
  (forall K n, K < 2 ^ (sp_s sp + sp_m sp) ->
     rank sp (mk sp (K * 2 ^ sp_p sp) n) = n /\ mbits sp (mk sp (K * 2 ^ sp_p sp) n) = K * 2 ^ sp_p sp) /\
  (forall K n1 n2, K < 2 ^ (sp_s sp + sp_m sp) -> n1 < n2 ->
     mk sp (K * 2 ^ sp_p sp) n1 < mk sp (K * 2 ^ sp_p sp) n2).
Proof.
  intro sp. split; [exact (mk_rank sp)|]. split.
  - intros K n HK. split; [exact (rank_mk sp K n HK) | exact (mbits_mk sp K n HK)].
  - exact (mk_mono sp).
Qed.
Print Assumptions C05_class_rank_bij.

(* MiniShard.next_cmc, with its uint64 shifts (shift counts >= 64 give 0),
   is the n-th identifier of the class whenever that identifier exists *)
Theorem C05_next_cmc_is_mk : forall sp K n,
  K < 2 ^ (sp_s sp + sp_m sp) -> cbits sp < 2 ^ 64 -> mk sp (K * 2 ^ sp_p sp) n < 2 ^ 64 ->
  next_cmc sp (K * 2 ^ sp_p sp) n = mk sp (K * 2 ^ sp_p sp) n.
Proof. exact next_cmc_is_mk. Qed.
Print Assumptions C05_next_cmc_is_mk.

(* masked_bits computed from the masks is the class-bits field of the identifier *)
Theorem C05_masked_bits_is_class : forall sp id,
  id < 2 ^ 64 -> sp_m sp + sp_s sp < 2 ^ 64 -> masked_of sp id = mbits sp id.
Proof. exact masked_of_is_mbits. Qed.
Print Assumptions C05_masked_bits_is_class.

(* (2) the reorder buffer, over ALL store sequences of distinct identifiers of
   one class: no store raises, close() terminates within its fuel without an
   exception, and the closed object is [closed_mini] of the stored set *)
Theorem C05_mini_close_canonical : forall sp enc K ops,
  K < 2 ^ (sp_s sp + sp_m sp) -> cbits sp < 2 ^ 64 ->
  ops <> [] -> NoDup (map fst ops) ->
  (forall id, In id (map fst ops) -> in_class sp K id) ->
  exists st,
    ms_run sp enc ms_init ops = (st, map (fun _ => Ok tt) ops) /\
    ms_close sp st = (closed_mini sp enc (K * 2 ^ sp_p sp) ops, Ok tt).
Proof. exact mini_close_canonical. Qed.
Print Assumptions C05_mini_close_canonical.

(* two orders of the same chunk set leave byte-identical minishard data and index *)
Theorem C05_mini_order_independent : forall sp enc K ops1 ops2,
  K < 2 ^ (sp_s sp + sp_m sp) -> cbits sp < 2 ^ 64 ->
  ops1 <> [] -> NoDup (map fst ops1) ->
  (forall id, In id (map fst ops1) -> in_class sp K id) ->
  Permutation ops1 ops2 ->
  exists st1 st2 c,
    ms_run sp enc ms_init ops1 = (st1, map (fun _ => Ok tt) ops1) /\
    ms_run sp enc ms_init ops2 = (st2, map (fun _ => Ok tt) ops2) /\
    ms_close sp st1 = (c, Ok tt) /\ ms_close sp st2 = (c, Ok tt).
Proof. exact mini_order_independent. Qed.
Print Assumptions C05_mini_order_independent.

Example C05_mini_hypotheses_inhabited :
  let sp := {| sp_m := 1; sp_s := 1; sp_p := 1 |} in
  let ops := [(13, [1; 2]); (4, []); (21, [3])] in
  1 < 2 ^ (sp_s sp + sp_m sp) /\ cbits sp < 2 ^ 64 /\ ops <> [] /\ NoDup (map fst ops) /\
  (forall id, In id (map fst ops) -> in_class sp 2 id) /\
  snd (ms_close sp (fst (ms_run sp (fun b => b) ms_init ops))) = Ok tt /\
  ms_hdr (fst (ms_close sp (fst (ms_run sp (fun b => b) ms_init ops)))) =
    [4; 0; 0;  1; 0; 0;  7; 0; 0;  1; 0; 2;  7; 0; 0;  1; 0; 1].
Proof. exact mini_hyps_example. Qed.

(* (5) entries written by the gap filling of close() are empty *)
Theorem C05_gap_entries_empty : forall sp enc (sm : store_map) mbv i,
  alookup (mk sp mbv (N.of_nat i)) sm = None ->
  cpay sp enc sm mbv i = [] /\
  (forall off a, (i < a)%nat -> nth (3 * i + 2) (chdr sp enc sm mbv off a) 1 = 0).
Proof. exact gap_entries_empty. Qed.
Print Assumptions C05_gap_entries_empty.

(* (4) impl_reads_canonical: after close, the package's own reader on a
   freshly opened accessor (populate_minishard_dict with its skip of unused
   slots and recognition by first identifier, the flat index walk, the uint64
   offset sums) returns exactly the stored bytes of every stored chunk — for
   every parameter triple (minishard_bits < 59), every set of chunks with
   distinct identifiers, every store order, encoders with left-inverse decoders
   (raw / gzip oracle), shard files below 2^63 bytes (signed file offsets). *)
Theorem C05_impl_reads_canonical : forall sp enc ienc idx_o data_o,
  cbits sp < 2 ^ 64 ->
  (forall b, idx_o (ienc b) = Ok b) -> (forall b, data_o (enc b) = Ok b) ->
  (forall b, b <> [] -> ienc b <> []) -> sp_m sp < 59 ->
  forall ops id b,
  ops_valid sp ops -> sizes_ok63 sp enc ienc ops -> In (id, b) ops ->
  scale_fetch sp idx_o data_o (dir_of (sp_s sp) (session_files sp enc ienc ops)) id = Ok b.
Proof. exact impl_reads_canonical. Qed.
Print Assumptions C05_impl_reads_canonical.

(* (5) never_stored, full: whatever the freshly opened reader returns for an
   identifier that was never stored, it is an exception outcome or the empty
   byte string — never voxel data.  [Hempty]: decoding the empty string gives
   the empty string (raw) or fails (zlib.decompress(b"") raises). *)
Theorem C05_never_stored : forall sp enc ienc idx_o data_o,
  cbits sp < 2 ^ 64 ->
  (forall b, idx_o (ienc b) = Ok b) -> (forall b, b <> [] -> ienc b <> []) -> sp_m sp < 59 ->
  (forall y, data_o [] = Ok y -> y = []) ->
  forall ops id b,
  ops_valid sp ops -> sizes_ok63 sp enc ienc ops -> id < 2 ^ 64 ->
  ~ In id (map fst ops) ->
  scale_fetch sp idx_o data_o (dir_of (sp_s sp) (session_files sp enc ienc ops)) id = Ok b ->
  b = [].
Proof. exact never_stored. Qed.
Print Assumptions C05_never_stored.

Example C05_reader_hypotheses_inhabited :
  let sp := {| sp_m := 2; sp_s := 2; sp_p := 0 |} in
  let ops := [(10, [9; 9; 9]); (8, [2; 2; 2]); (26, []); (40, [7])] in
  let raw := fun b : bytes => b in
  let rawo := fun b : bytes => Ok b in
  cbits sp < 2 ^ 64 /\ sp_m sp < 59 /\ ops_valid sp ops /\ sizes_ok63 sp raw raw ops /\
  (forall y, rawo [] = Ok y -> y = []) /\ ~ In 24 (map fst ops) /\
  scale_fetch sp rawo rawo (dir_of 2 (session_files sp raw raw ops)) 10 = Ok [9; 9; 9] /\
  scale_fetch sp rawo rawo (dir_of 2 (session_files sp raw raw ops)) 24 = Ok [] /\
  scale_fetch sp rawo rawo (dir_of 2 (session_files sp raw raw ops)) 9 = Crash AssertionError.
Proof. exact impl_hyps_example. Qed.

(* reader half valid for EVERY file content (also damaged or foreign files) *)
Theorem C05_never_stored_any_file : forall sp s ws cmc b,
  Nat.modulo (length ws) 3 = 0%nat ->
  (forall i, (i < Nat.div (length ws) 3)%nat -> cum_id ws i = cmc ->
             nth (2 * Nat.div (length ws) 3 + i) ws 0 = 0) ->
  mini_fetch_raw sp s ws cmc = Ok b -> b = [].
Proof. exact fetch_of_empty_entry. Qed.
Print Assumptions C05_never_stored_any_file.

Theorem C05_fetch_reads_listed_entry : forall sp s ws cmc b,
  Nat.modulo (length ws) 3 = 0%nat ->
  mini_fetch_raw sp s ws cmc = Ok b ->
  exists i, (i < Nat.div (length ws) 3)%nat /\ cum_id ws i = cmc /\
            lenN b <= nth (2 * Nat.div (length ws) 3 + i) ws 0.
Proof. exact fetch_reads_listed_entry. Qed.
Print Assumptions C05_fetch_reads_listed_entry.

(* instances evaluated in the kernel (whole pipeline incl. routing from chunk
   origins and the 3x4x2 dataset whose shards use minishards {0,2}) *)
Theorem C05_impl_reads_instances :
  forallb (fun id => outcome_eqb (scale_fetch wit_sp raw_dec raw_dec (dir_of 2 wit_files) id) (wit_payload id))
          wit_ids = true /\
  forallb (fun id => outcome_eqb (scale_fetch ok_sp raw_dec raw_dec (dir_of 1 ok_files) id) (ok_payload id))
          ok_ids = true.
Proof.
  split; [exact (proj2 (proj2 (proj2 (proj2 (proj2 (proj2 (proj2 old_witness_reads)))))))
         | exact (proj1 (proj2 (proj2 (proj2 (proj2 guard_example)))))].
Qed.
Print Assumptions C05_impl_reads_instances.

(* (2) order_independent, file level, for EVERY grid / parameter triple with
   p + s + m < 2^64, every set of distinct identifiers (< 2^64, rank + 1 < 2^64)
   and every pair of store orders: no store raises under either order and
   ShardedScale.close produces the same list of (file name, result of
   Shard.close) — byte-identical files.  The encoders are arbitrary functions
   (raw or the gzip oracle).  ops are (identifier, payload) pairs as seen by
   ShardedScale.store_cmc_chunk. *)
Theorem C05_order_independent : forall sp enc ienc, cbits sp < 2 ^ 64 ->
  forall ops1 ops2, ops_valid sp ops1 -> Permutation ops1 ops2 ->
  snd (run_cmc_stores sp enc [] ops1) = map (fun _ => Ok tt) ops1 /\
  snd (run_cmc_stores sp enc [] ops2) = map (fun _ => Ok tt) ops2 /\
  scale_close sp ienc (fst (run_cmc_stores sp enc [] ops1)) =
  scale_close sp ienc (fst (run_cmc_stores sp enc [] ops2)).
Proof. exact order_independent. Qed.
Print Assumptions C05_order_independent.

(* the same through ShardedFileAccessor.store_chunk (chunk origins resolved by
   get_cmc): a whole writing session *)
Theorem C05_session_order_independent : forall sp enc ienc v ops1 ops2 cms1 cms2,
  cbits sp < 2 ^ 64 ->
  Forall2 (resolves v) ops1 cms1 -> Forall2 (resolves v) ops2 cms2 ->
  ops_valid sp cms1 -> Permutation cms1 cms2 ->
  fst (run_session sp enc ienc v ops1) = map (fun _ => Ok tt) ops1 /\
  fst (run_session sp enc ienc v ops2) = map (fun _ => Ok tt) ops2 /\
  snd (run_session sp enc ienc v ops1) = snd (run_session sp enc ienc v ops2).
Proof. exact session_order_independent. Qed.
Print Assumptions C05_session_order_independent.

(* every reachable minishard object is the result of the stores routed to it,
   whatever happened to the other minishards (valid for ALL store sequences,
   including ones with rejected stores) *)
Theorem C05_routing_decomposition : forall sp enc ops st sk mk,
  get2 (fst (run_cmc_stores sp enc st ops)) sk mk =
  after sp enc (get2 st sk mk) (routed sp sk mk ops).
Proof. intros sp enc ops st sk mk. exact (proj1 (run_step sp enc ops st) sk mk). Qed.
Print Assumptions C05_routing_decomposition.

(* non-vacuity + instance: all 24 chunks of the 3x4x2 dataset stored in
   increasing and in decreasing order give identical files (in-kernel run) *)
Theorem C05_order_instance : snd wit_session = snd wit_session_rev.
Proof. exact wit_order_instance. Qed.
Print Assumptions C05_order_instance.

Example C05_ops_valid_inhabited :
  ops_valid {| sp_m := 2; sp_s := 2; sp_p := 0 |} [(10, [9; 9; 9]); (8, [2; 2; 2]); (26, [])].
Proof.
  split.
  - repeat constructor; simpl; intuition discriminate.
  - intros id [<-|[<-|[<-|[]]]]; vm_compute; split; reflexivity.
Qed.

(* Strategy independence ("in memory" vs "on disk" buffers) is NOT a theorem:
   both strategies are the same abstract map / byte sequence in the model; that
   the real OnDiskBytesDict / OnDiskByteArray behave like dict / bytearray is
   checked by the correspondence run (harness/props/c05.py compares the files
   written under both strategies byte for byte with each other and the model). *)

(* ---------------------------------------------------------------------------
   End to end, position level (link C03 <-> C09 <-> C04/C05): PrecomputedIO
   over the SHARDED accessor, one scale.  Model: theories/Link/LinkSharded.v
   (write phase = a list of write_chunk calls: validate_chunk_coords, chunk
   encoder, ShardedFileAccessor.store_chunk = get_cmc + store_cmc_chunk; then
   close(); read_chunk through a freshly opened accessor: validate, fetch_chunk
   = get_cmc + the package reader on the written files, chunk decoder).
   Proofs: theories/Link/LinkShardedProofs.v.

   The identifier-level hypothesis [ops_valid] of the theorems above (distinct
   identifiers < 2^64 with rank + 1 < 2^64) is DISCHARGED here from the
   position-level hypotheses through C09 (get_cmc total on accepted positions,
   identifiers below 2^(total bits) <= 2^64, injective).  What remains:
     - cbits sp < 2^64, sp_m sp < 59          (bounds on the sharding triple)
     - rank_room sp v: the grid needs fewer than 64 identifier bits, or there
       is at least one shard / minishard bit and preshift_bits < 64 (excludes
       only identifier 2^64 - 1 having rank 2^64 - 1, where the uint64 counter
       of MiniShard wraps)
     - sizes_ok63 on sh_ops (the encoded chunks that reach the writer): every
       shard file stays below 2^63 bytes (signed file offsets of the reader);
       executable sufficient check: LinkShardedProofs.sizes_ok63_check
     - data / index encoders with left-inverse decoders, non-empty encoded index
     - the chunk codec round-trip law of C03_io_refinement.
   [find_scale scales key = Some (cubic_scale ...)]: the scale addressed is the
   one PrecomputedIO finds under [key]; it has ONE cubic chunk size and voxel
   offset (0,0,0) (what ShardVolumeSpec / validate_chunk_coords accept), and
   [v] is the ShardVolumeSpec built from the same size and chunk size. *)
From NGS Require Import PioModel LinkSharded LinkShardedProofs.

(* for every volume size and cubic chunk size accepted by mk_vspec, every
   sharding triple within the bounds, every list of writes to pairwise distinct
   accepted positions in ANY order:
   (1) no write is refused by the sharded writer - a write fails exactly when
       the chunk encoder fails, with the encoder's exception;
   (2) every Shard.close returns normally and writes its file;
   (3) after close, reading any position whose write succeeded through a
       freshly opened accessor returns exactly the chunk written there. *)
Theorem C05_chunk_io_roundtrip :
  forall (chunk : Type) (encode : list N -> chunk -> outcome bytes)
         (decode : list N -> bytes -> triple -> outcome chunk) (shape_of : chunk -> triple)
         (sp : sparams) (denc ienc : bytes -> bytes) (ddec idec : bytes -> outcome bytes)
         (scales : list PioModel.scale) (key : list N) (sx sy sz cs : Z) (v : vspec),
  (forall k ch b, encode k ch = Ok b -> decode k b (shape_of ch) = Ok ch) ->
  cbits sp < 2 ^ 64 -> sp_m sp < 59 ->
  (forall b, ddec (denc b) = Ok b) -> (forall b, idec (ienc b) = Ok b) ->
  (forall b, b <> [] -> ienc b <> []) ->
  find_scale scales key = Some (cubic_scale key sx sy sz cs) ->
  mk_vspec [cs; cs; cs] [sx; sy; sz] = Ok v ->
  rank_room sp v ->
  forall ws : list (chunk * PioModel.coords),
  NoDup (map snd ws) ->
  Forall (fun w => check_valid scales key (snd w) = Ok tt) ws ->
  sizes_ok63 sp denc ienc (sh_ops chunk encode scales v key ws) ->
  fst (sh_session chunk encode sp denc ienc scales v key ws) =
    map (fun w => bind (encode key (fst w)) (fun _ => Ok tt)) ws /\
  (forall name r, In (name, r) (snd (sh_session chunk encode sp denc ienc scales v key ws)) ->
     exists f, r = Ok (Some f)) /\
  (forall ch c b, In (ch, c) ws -> encode key ch = Ok b -> shape_of ch = extents c ->
     sh_read_chunk chunk decode sp ddec idec scales v
       (sh_files chunk encode sp denc ienc scales v key ws) key c = Ok ch).
Proof. exact chunk_io_roundtrip. Qed.
Print Assumptions C05_chunk_io_roundtrip.

(* two orders of the same write list (pairwise distinct accepted positions):
   the expected outcome for every write under both orders, the same list of
   (file name, result of Shard.close) - byte-identical files - and therefore
   the same result for EVERY read_chunk (written position or not, any key)
   through a fresh reader.  Needs neither the size bound nor any decoder law. *)
Theorem C05_chunk_io_order_independent :
  forall (chunk : Type) (encode : list N -> chunk -> outcome bytes)
         (decode : list N -> bytes -> triple -> outcome chunk)
         (sp : sparams) (denc ienc : bytes -> bytes) (ddec idec : bytes -> outcome bytes)
         (scales : list PioModel.scale) (key : list N) (sx sy sz cs : Z) (v : vspec),
  cbits sp < 2 ^ 64 ->
  find_scale scales key = Some (cubic_scale key sx sy sz cs) ->
  mk_vspec [cs; cs; cs] [sx; sy; sz] = Ok v ->
  rank_room sp v ->
  forall ws1 ws2 : list (chunk * PioModel.coords),
  NoDup (map snd ws1) ->
  Forall (fun w => check_valid scales key (snd w) = Ok tt) ws1 ->
  Permutation ws1 ws2 ->
  fst (sh_session chunk encode sp denc ienc scales v key ws1) =
    map (fun w => bind (encode key (fst w)) (fun _ => Ok tt)) ws1 /\
  fst (sh_session chunk encode sp denc ienc scales v key ws2) =
    map (fun w => bind (encode key (fst w)) (fun _ => Ok tt)) ws2 /\
  snd (sh_session chunk encode sp denc ienc scales v key ws1) =
  snd (sh_session chunk encode sp denc ienc scales v key ws2) /\
  sh_files chunk encode sp denc ienc scales v key ws1 =
  sh_files chunk encode sp denc ienc scales v key ws2 /\
  (forall k c,
     sh_read_chunk chunk decode sp ddec idec scales v
       (sh_files chunk encode sp denc ienc scales v key ws1) k c =
     sh_read_chunk chunk decode sp ddec idec scales v
       (sh_files chunk encode sp denc ienc scales v key ws2) k c).
Proof. exact chunk_io_order_independent. Qed.
Print Assumptions C05_chunk_io_order_independent.

(* the write phase is the identifier-level session of the theorems above on
   [sh_ops], for EVERY write list (rejected positions, failing encoders and
   repeated positions included) *)
Theorem C05_chunk_io_write_phase :
  forall (chunk : Type) (encode : list N -> chunk -> outcome bytes) sp denc scales v key ws st,
  snd (sh_write_all chunk encode sp denc scales v key st ws) =
  fst (run_cmc_stores sp denc st (sh_ops chunk encode scales v key ws)).
Proof. exact write_state. Qed.
Print Assumptions C05_chunk_io_write_phase.

(* position-level never_stored: an accepted position that no successful write
   addressed holds no voxel data - fetch_chunk of the fresh reader raises or
   returns the empty byte string *)
Theorem C05_chunk_io_unwritten_empty :
  forall (chunk : Type) (encode : list N -> chunk -> outcome bytes)
         (sp : sparams) (denc ienc : bytes -> bytes) (ddec idec : bytes -> outcome bytes)
         (scales : list PioModel.scale) (key : list N) (sx sy sz cs : Z) (v : vspec),
  cbits sp < 2 ^ 64 -> sp_m sp < 59 ->
  (forall b, idec (ienc b) = Ok b) -> (forall b, b <> [] -> ienc b <> []) ->
  find_scale scales key = Some (cubic_scale key sx sy sz cs) ->
  mk_vspec [cs; cs; cs] [sx; sy; sz] = Ok v ->
  rank_room sp v ->
  forall ws : list (chunk * PioModel.coords),
  (forall y, ddec [] = Ok y -> y = []) ->
  NoDup (map snd ws) ->
  Forall (fun w => check_valid scales key (snd w) = Ok tt) ws ->
  sizes_ok63 sp denc ienc (sh_ops chunk encode scales v key ws) ->
  forall c buf, check_valid scales key c = Ok tt ->
  (forall ch b, In (ch, c) ws -> encode key ch <> Ok b) ->
  sh_fetch_chunk sp ddec idec v (sh_files chunk encode sp denc ienc scales v key ws) c = Ok buf ->
  buf = [].
Proof. exact unwritten_position_empty. Qed.
Print Assumptions C05_chunk_io_unwritten_empty.

(* the identifier-level hypothesis follows from the position-level ones *)
Theorem C05_ops_valid_from_positions :
  forall (chunk : Type) (encode : list N -> chunk -> outcome bytes) (sp : sparams)
         (scales : list PioModel.scale) (key : list N) (sx sy sz cs : Z) (v : vspec),
  find_scale scales key = Some (cubic_scale key sx sy sz cs) ->
  mk_vspec [cs; cs; cs] [sx; sy; sz] = Ok v ->
  rank_room sp v ->
  forall ws : list (chunk * PioModel.coords),
  NoDup (map snd ws) ->
  Forall (fun w => check_valid scales key (snd w) = Ok tt) ws ->
  ops_valid sp (sh_ops chunk encode scales v key ws).
Proof. exact ops_valid_of_positions. Qed.
Print Assumptions C05_ops_valid_from_positions.

(* executable sufficient check of the size hypothesis: only the shards that
   receive a chunk have to be measured *)
Theorem C05_sizes_ok63_check : forall sp enc ienc ops,
  sp_m sp < 59 ->
  forallb (shard_size_okb sp enc ienc ops)
          (map (fun o => shard_key_model (sp_p sp) (sp_m sp) (sp_s sp) (fst o)) ops) = true ->
  sizes_ok63 sp enc ienc ops.
Proof. exact sizes_ok63_check. Qed.
Print Assumptions C05_sizes_ok63_check.

(* non-vacuity: volume 20 x 30 x 13, chunk size 8 (grid 3 x 4 x 2 with clipped
   border chunks), m = 2, s = 2, p = 0, raw encoders, scale key "10um", the 24
   chunks written in decreasing (x, y, z) order.  EVERY hypothesis of
   C05_chunk_io_roundtrip holds, and its conclusions are confirmed by running
   the model in the kernel: 24 writes Ok, 4 shard files closed Ok, all 24
   positions read back through the fresh reader give the chunk written there;
   the increasing order gives byte-identical files. *)
Example C05_chunk_io_example :
  (forall k ch b, ex_encode k ch = Ok b -> ex_decode k b (fst ch) = Ok ch) /\
  cbits ex_sp < 2 ^ 64 /\ sp_m ex_sp < 59 /\
  (forall b, raw_dec (raw_enc b) = Ok b) /\ (forall b : bytes, b <> [] -> raw_enc b <> []) /\
  find_scale ex_scales ex_key = Some (cubic_scale ex_key 20 30 13 8) /\
  mk_vspec [8; 8; 8]%Z [20; 30; 13]%Z = Ok ex_v /\
  rank_room ex_sp ex_v /\
  length ex_ws = 24%nat /\
  NoDup (map snd ex_ws) /\
  Forall (fun w => check_valid ex_scales ex_key (snd w) = Ok tt) ex_ws /\
  Forall (fun w => fst (fst w) = extents (snd w)) ex_ws /\
  sizes_ok63 ex_sp raw_enc raw_enc (sh_ops ex_chunk ex_encode ex_scales ex_v ex_key ex_ws) /\
  hd_error ex_ws = Some (((4, 6, 5)%Z, [54; 54; 54]), (16, 20, 24, 30, 8, 13)%Z) /\
  fst (ex_session ex_ws) = map (fun _ => Ok tt) ex_ws /\
  forallb (fun nr => okb (snd nr)) (snd (ex_session ex_ws)) = true /\
  length (ex_files ex_ws) = 4%nat /\
  map (fun w => ex_read (ex_files ex_ws) (snd w)) ex_ws = map (fun w => Ok (fst w)) ex_ws /\
  snd (ex_session (rev ex_ws)) = snd (ex_session ex_ws).
Proof. exact sh_example. Qed.
Print Assumptions C05_chunk_io_example.

(* WHY the positions must be pairwise distinct: the sharded writer does NOT
   handle a second store of the same chunk uniformly (MiniShard.store_cmc_chunk).
   If the first copy has already been appended to its minishard the second
   store raises RuntimeError and the FIRST chunk stays (position (0,0,0),
   identifier 0); if the first copy still waits in the reorder buffer for a
   smaller identifier of its class, "_chunk_buffer[cmc] = ..." silently
   replaces it and the LAST chunk is stored (position (0,16,0), identifier 16,
   written before (0,0,0)).  The same three writes in another order end with a
   different chunk at that position: with repeated positions the result
   depends on the order of the writes.  (Instances evaluated in the kernel on
   the dataset above; a general characterisation - refused iff the identifier
   is below next_cmc of its minishard at that moment - is the definition of
   MiniShard.ms_store and is not restated at the position level.) *)
Example C05_chunk_io_second_store :
  let c0 := ex_coords 20 30 13 8 0 0 0 in
  let c16 := ex_coords 20 30 13 8 0 2 0 in
  let A := ((8, 8, 8)%Z, [1]) in let B := ((8, 8, 8)%Z, [2]) in let C := ((8, 8, 8)%Z, [3]) in
  sh_cmc ex_v c0 = Ok 0 /\ sh_cmc ex_v c16 = Ok 16 /\
  fst (ex_session [(A, c0); (B, c0)]) = [Ok tt; Crash RuntimeError] /\
  ex_read (ex_files [(A, c0); (B, c0)]) c0 = Ok A /\
  fst (ex_session [(A, c16); (B, c16); (C, c0)]) = [Ok tt; Ok tt; Ok tt] /\
  ex_read (ex_files [(A, c16); (B, c16); (C, c0)]) c16 = Ok B /\
  fst (ex_session [(C, c0); (A, c16); (B, c16)]) = [Ok tt; Ok tt; Crash RuntimeError] /\
  ex_read (ex_files [(C, c0); (A, c16); (B, c16)]) c16 = Ok A.
Proof. exact sh_second_store_example. Qed.
Print Assumptions C05_chunk_io_second_store.

(* ---------- accessor-level sessions: several scales, repeated close() ----------
   Model: theories/Shard/ShardSession.v (ShardedFileAccessor.close ->
   ShardedScale.close -> Shard.close with the dirty flag, the deleted data
   buffers of closed minishards, the AttributeError / truncated file when a
   closed shard is stored into again).  [sess_run cfg enc ienc st ops] runs a
   list of  SStore key x y z payload / SClose ;  [sdir st k] is the directory
   of scale k;  [phase_ops k ops] = the stores of ops into scale k, then SClose. *)

(* close is idempotent: in EVERY state reachable from the empty accessor by
   any sequence of stores and closes (valid or not, even after exceptions),
   if close() returns normally then a second close() returns normally and
   changes neither the writer state nor any file *)
Theorem C05_close_idempotent : forall cfg enc ienc ops st1,
  sess_close ienc (fst (sess_run cfg enc ienc sess_init ops)) = (st1, sok) ->
  sess_close ienc st1 = (st1, sok).
Proof. exact close_idempotent_reachable. Qed.
Print Assumptions C05_close_idempotent.

(* a scale written and closed through the accessor gets the files of the
   single-scale model, to which C04_spec_reads_canonical, C04_canonical_wf,
   C05_impl_reads_canonical and C05_never_stored apply *)
Theorem C05_single_scale_session : forall cfg enc ienc k v sp ops cms,
  cbits sp < 2 ^ 64 -> sp_m sp < 60 ->
  cfg k = Some (v, sp) -> Forall2 (resolves v) ops cms -> ops <> [] ->
  ops_valid sp cms -> sizes_ok sp enc ienc cms ->
  exists st1,
    sess_run cfg enc ienc sess_init (phase_ops k ops) = (st1, all_sok (phase_ops k ops)) /\
    (forall name, blookup name (sdir st1 k) = blookup name (session_files sp enc ienc cms)).
Proof. exact single_scale_session. Qed.
Print Assumptions C05_single_scale_session.

(* scale independence (the compute_dyadic_scales pattern): scale k1 is
   written and closed, then scale k2 <> k1 is written and closed through the
   same accessor.  No operation raises; the files of k2 are exactly those of
   the session that writes k2 alone (and of the single-scale model); the
   directory of k1 is left as the first close() wrote it. *)
Theorem C05_scale_independent : forall cfg enc ienc k1 k2 v1 sp1 v2 sp2 ops1 cms1 ops2 cms2,
  k1 <> k2 ->
  cbits sp1 < 2 ^ 64 -> sp_m sp1 < 60 -> cfg k1 = Some (v1, sp1) ->
  Forall2 (resolves v1) ops1 cms1 -> ops1 <> [] -> ops_valid sp1 cms1 -> sizes_ok sp1 enc ienc cms1 ->
  cbits sp2 < 2 ^ 64 -> sp_m sp2 < 60 -> cfg k2 = Some (v2, sp2) ->
  Forall2 (resolves v2) ops2 cms2 -> ops2 <> [] -> ops_valid sp2 cms2 -> sizes_ok sp2 enc ienc cms2 ->
  exists st1 st2 stS,
    sess_run cfg enc ienc sess_init (phase_ops k1 ops1) = (st1, all_sok (phase_ops k1 ops1)) /\
    sess_run cfg enc ienc sess_init (phase_ops k1 ops1 ++ phase_ops k2 ops2) =
      (st2, all_sok (phase_ops k1 ops1 ++ phase_ops k2 ops2)) /\
    sess_run cfg enc ienc sess_init (phase_ops k2 ops2) = (stS, all_sok (phase_ops k2 ops2)) /\
    (forall name, blookup name (sdir st2 k2) = blookup name (sdir stS k2)) /\
    (forall name, blookup name (sdir st2 k2) = blookup name (session_files sp2 enc ienc cms2)) /\
    sdir st2 k1 = sdir st1 k1 /\
    (forall name, blookup name (sdir st2 k1) = blookup name (session_files sp1 enc ienc cms1)).
Proof. exact scale_independent. Qed.
Print Assumptions C05_scale_independent.

Example C05_scale_independent_inhabited :
  exists v, ex_cfg 0 = Some (v, ex_sp) /\ ex_cfg 1 = Some (v, ex_sp) /\ 0 <> 1 /\
    cbits ex_sp < 2 ^ 64 /\ sp_m ex_sp < 60 /\
    Forall2 (resolves v) ex_ops ex_cms /\ ex_ops <> [] /\
    ops_valid ex_sp ex_cms /\ sizes_ok ex_sp ex_id ex_id ex_cms /\
    snd (sess_run ex_cfg ex_id ex_id sess_init (phase_ops 0 ex_ops ++ phase_ops 1 (rev ex_ops)))
      = all_sok (phase_ops 0 ex_ops ++ phase_ops 1 (rev ex_ops)).
Proof. exact scale_independent_example. Qed.

Example C05_close_idempotent_inhabited :
  exists st1, sess_close ex_id (fst (sess_run ex_cfg ex_id ex_id sess_init
                                   (phase_ops 0 ex_ops ++ map (store_sop 1) ex_ops))) = (st1, sok) /\
              sess_close ex_id st1 = (st1, sok) /\ sdir st1 1 <> [] /\ sdir st1 0 = sdir st1 1.
Proof. exact close_idempotent_example. Qed.
