(* C05 — sharded storage returns what was stored, whatever the order of
   writes.  Statements only; proofs live in theories/Shard/*Proofs.v.

   Notation: sp = (minishard, shard, preshift) bit counts; [mk sp mb n] is the
   n-th identifier of the (shard, minishard) class whose class bits are mb;
   [rank], [mbits] the inverse decomposition; [closed_mini] the state of a
   MiniShard object after close() as a function of the SET of stored
   (identifier, payload) pairs. *)
From Coq Require Import NArith ZArith List Bool Lia Permutation.
From NGS Require Import Val Ints Morton ShardBytes MiniShard ShardFile ShardReader ShardSpecReader
  ShardCanon MiniShardProofs ShardFileProofs ShardReaderProofs ShardCloseProofs ShardSpecProofs
  ShardTopProofs ShardImplProofs ShardWitness ShardWitnessProofs.
Import ListNotations.
Open Scope N_scope.

(* (1) the arithmetic core: identifier <-> (class, rank) is a bijection,
   monotone in the rank, for ALL bit counts *)
Theorem C05_class_rank_bij : forall sp,
  (forall id, mk sp (mbits sp id) (rank sp id) = id) /\
  (forall K n, K < 2 ^ (sp_s sp + sp_m sp) ->
     rank sp (mk sp (K * 2 ^ sp_p sp) n) = n /\ mbits sp (mk sp (K * 2 ^ sp_p sp) n) = K * 2 ^ sp_p sp) /\
  (forall K n1 n2, K < 2 ^ (sp_s sp + sp_m sp) -> n1 < n2 ->
     mk sp (K * 2 ^ sp_p sp) n1 < mk sp (K * 2 ^ sp_p sp) n2).
Proof.
  intro sp. split; [exact (mk_rank sp)|]. split.
  - intros K n HK. split; [exact (rank_mk sp K n HK) | exact (mbits_mk sp K n HK)].
  - exact (mk_mono sp).
Qed.
Print Assumptions C05_class_rank_bij.

(* MiniShard.next_cmc, with its uint64 shifts (shift counts >= 64 give 0),
   is the n-th identifier of the class whenever that identifier exists *)
Theorem C05_next_cmc_is_mk : forall sp K n,
  K < 2 ^ (sp_s sp + sp_m sp) -> cbits sp < 2 ^ 64 -> mk sp (K * 2 ^ sp_p sp) n < 2 ^ 64 ->
  next_cmc sp (K * 2 ^ sp_p sp) n = mk sp (K * 2 ^ sp_p sp) n.
Proof. exact next_cmc_is_mk. Qed.
Print Assumptions C05_next_cmc_is_mk.

(* masked_bits computed from the masks is the class-bits field of the identifier *)
Theorem C05_masked_bits_is_class : forall sp id,
  id < 2 ^ 64 -> sp_m sp + sp_s sp < 2 ^ 64 -> masked_of sp id = mbits sp id.
Proof. exact masked_of_is_mbits. Qed.
Print Assumptions C05_masked_bits_is_class.

(* (2) the reorder buffer, over ALL store sequences of distinct identifiers of
   one class: no store raises, close() terminates within its fuel without an
   exception, and the closed object is [closed_mini] of the stored set *)
Theorem C05_mini_close_canonical : forall sp enc K ops,
  K < 2 ^ (sp_s sp + sp_m sp) -> cbits sp < 2 ^ 64 ->
  ops <> [] -> NoDup (map fst ops) ->
  (forall id, In id (map fst ops) -> in_class sp K id) ->
  exists st,
    ms_run sp enc ms_init ops = (st, map (fun _ => Ok tt) ops) /\
    ms_close sp st = (closed_mini sp enc (K * 2 ^ sp_p sp) ops, Ok tt).
Proof. exact mini_close_canonical. Qed.
Print Assumptions C05_mini_close_canonical.

(* two orders of the same chunk set leave byte-identical minishard data and index *)
Theorem C05_mini_order_independent : forall sp enc K ops1 ops2,
  K < 2 ^ (sp_s sp + sp_m sp) -> cbits sp < 2 ^ 64 ->
  ops1 <> [] -> NoDup (map fst ops1) ->
  (forall id, In id (map fst ops1) -> in_class sp K id) ->
  Permutation ops1 ops2 ->
  exists st1 st2 c,
    ms_run sp enc ms_init ops1 = (st1, map (fun _ => Ok tt) ops1) /\
    ms_run sp enc ms_init ops2 = (st2, map (fun _ => Ok tt) ops2) /\
    ms_close sp st1 = (c, Ok tt) /\ ms_close sp st2 = (c, Ok tt).
Proof. exact mini_order_independent. Qed.
Print Assumptions C05_mini_order_independent.

Example C05_mini_hypotheses_inhabited :
  let sp := {| sp_m := 1; sp_s := 1; sp_p := 1 |} in
  let ops := [(13, [1; 2]); (4, []); (21, [3])] in
  1 < 2 ^ (sp_s sp + sp_m sp) /\ cbits sp < 2 ^ 64 /\ ops <> [] /\ NoDup (map fst ops) /\
  (forall id, In id (map fst ops) -> in_class sp 2 id) /\
  snd (ms_close sp (fst (ms_run sp (fun b => b) ms_init ops))) = Ok tt /\
  ms_hdr (fst (ms_close sp (fst (ms_run sp (fun b => b) ms_init ops)))) =
    [4; 0; 0;  1; 0; 0;  7; 0; 0;  1; 0; 2;  7; 0; 0;  1; 0; 1].
Proof. exact mini_hyps_example. Qed.

(* (5) entries written by the gap filling of close() are empty *)
Theorem C05_gap_entries_empty : forall sp enc (sm : store_map) mbv i,
  alookup (mk sp mbv (N.of_nat i)) sm = None ->
  cpay sp enc sm mbv i = [] /\
  (forall off a, (i < a)%nat -> nth (3 * i + 2) (chdr sp enc sm mbv off a) 1 = 0).
Proof. exact gap_entries_empty. Qed.
Print Assumptions C05_gap_entries_empty.

(* (4) impl_reads_canonical: after close, the package's own reader on a
   freshly opened accessor (populate_minishard_dict with its skip of unused
   slots and recognition by first identifier, the flat index walk, the uint64
   offset sums) returns exactly the stored bytes of every stored chunk — for
   every parameter triple (minishard_bits < 59), every set of chunks with
   distinct identifiers, every store order, encoders with left-inverse decoders
   (raw / gzip oracle), shard files below 2^63 bytes (signed file offsets). *)
Theorem C05_impl_reads_canonical : forall sp enc ienc idx_o data_o,
  cbits sp < 2 ^ 64 ->
  (forall b, idx_o (ienc b) = Ok b) -> (forall b, data_o (enc b) = Ok b) ->
  (forall b, b <> [] -> ienc b <> []) -> sp_m sp < 59 ->
  forall ops id b,
  ops_valid sp ops -> sizes_ok63 sp enc ienc ops -> In (id, b) ops ->
  scale_fetch sp idx_o data_o (dir_of (sp_s sp) (session_files sp enc ienc ops)) id = Ok b.
Proof. exact impl_reads_canonical. Qed.
Print Assumptions C05_impl_reads_canonical.

(* (5) never_stored, full: whatever the freshly opened reader returns for an
   identifier that was never stored, it is an exception outcome or the empty
   byte string — never voxel data.  [Hempty]: decoding the empty string gives
   the empty string (raw) or fails (zlib.decompress(b"") raises). *)
Theorem C05_never_stored : forall sp enc ienc idx_o data_o,
  cbits sp < 2 ^ 64 ->
  (forall b, idx_o (ienc b) = Ok b) -> (forall b, b <> [] -> ienc b <> []) -> sp_m sp < 59 ->
  (forall y, data_o [] = Ok y -> y = []) ->
  forall ops id b,
  ops_valid sp ops -> sizes_ok63 sp enc ienc ops -> id < 2 ^ 64 ->
  ~ In id (map fst ops) ->
  scale_fetch sp idx_o data_o (dir_of (sp_s sp) (session_files sp enc ienc ops)) id = Ok b ->
  b = [].
Proof. exact never_stored. Qed.
Print Assumptions C05_never_stored.

Example C05_reader_hypotheses_inhabited :
  let sp := {| sp_m := 2; sp_s := 2; sp_p := 0 |} in
  let ops := [(10, [9; 9; 9]); (8, [2; 2; 2]); (26, []); (40, [7])] in
  let raw := fun b : bytes => b in
  let rawo := fun b : bytes => Ok b in
  cbits sp < 2 ^ 64 /\ sp_m sp < 59 /\ ops_valid sp ops /\ sizes_ok63 sp raw raw ops /\
  (forall y, rawo [] = Ok y -> y = []) /\ ~ In 24 (map fst ops) /\
  scale_fetch sp rawo rawo (dir_of 2 (session_files sp raw raw ops)) 10 = Ok [9; 9; 9] /\
  scale_fetch sp rawo rawo (dir_of 2 (session_files sp raw raw ops)) 24 = Ok [] /\
  scale_fetch sp rawo rawo (dir_of 2 (session_files sp raw raw ops)) 9 = Crash AssertionError.
Proof. exact impl_hyps_example. Qed.

(* reader half valid for EVERY file content (also damaged or foreign files) *)
Theorem C05_never_stored_any_file : forall sp s ws cmc b,
  Nat.modulo (length ws) 3 = 0%nat ->
  (forall i, (i < Nat.div (length ws) 3)%nat -> cum_id ws i = cmc ->
             nth (2 * Nat.div (length ws) 3 + i) ws 0 = 0) ->
  mini_fetch_raw sp s ws cmc = Ok b -> b = [].
Proof. exact fetch_of_empty_entry. Qed.
Print Assumptions C05_never_stored_any_file.

Theorem C05_fetch_reads_listed_entry : forall sp s ws cmc b,
  Nat.modulo (length ws) 3 = 0%nat ->
  mini_fetch_raw sp s ws cmc = Ok b ->
  exists i, (i < Nat.div (length ws) 3)%nat /\ cum_id ws i = cmc /\
            lenN b <= nth (2 * Nat.div (length ws) 3 + i) ws 0.
Proof. exact fetch_reads_listed_entry. Qed.
Print Assumptions C05_fetch_reads_listed_entry.

(* instances evaluated in the kernel (whole pipeline incl. routing from chunk
   origins and the 3x4x2 dataset whose shards use minishards {0,2}) *)
Theorem C05_impl_reads_instances :
  forallb (fun id => outcome_eqb (scale_fetch wit_sp raw_dec raw_dec (dir_of 2 wit_files) id) (wit_payload id))
          wit_ids = true /\
  forallb (fun id => outcome_eqb (scale_fetch ok_sp raw_dec raw_dec (dir_of 1 ok_files) id) (ok_payload id))
          ok_ids = true.
Proof.
  split; [exact (proj2 (proj2 (proj2 (proj2 (proj2 (proj2 (proj2 old_witness_reads)))))))
         | exact (proj1 (proj2 (proj2 (proj2 (proj2 guard_example)))))].
Qed.
Print Assumptions C05_impl_reads_instances.

(* (2) order_independent, file level, for EVERY grid / parameter triple with
   p + s + m < 2^64, every set of distinct identifiers (< 2^64, rank + 1 < 2^64)
   and every pair of store orders: no store raises under either order and
   ShardedScale.close produces the same list of (file name, result of
   Shard.close) — byte-identical files.  The encoders are arbitrary functions
   (raw or the gzip oracle).  ops are (identifier, payload) pairs as seen by
   ShardedScale.store_cmc_chunk. *)
Theorem C05_order_independent : forall sp enc ienc, cbits sp < 2 ^ 64 ->
  forall ops1 ops2, ops_valid sp ops1 -> Permutation ops1 ops2 ->
  snd (run_cmc_stores sp enc [] ops1) = map (fun _ => Ok tt) ops1 /\
  snd (run_cmc_stores sp enc [] ops2) = map (fun _ => Ok tt) ops2 /\
  scale_close sp ienc (fst (run_cmc_stores sp enc [] ops1)) =
  scale_close sp ienc (fst (run_cmc_stores sp enc [] ops2)).
Proof. exact order_independent. Qed.
Print Assumptions C05_order_independent.

(* the same through ShardedFileAccessor.store_chunk (chunk origins resolved by
   get_cmc): a whole writing session *)
Theorem C05_session_order_independent : forall sp enc ienc v ops1 ops2 cms1 cms2,
  cbits sp < 2 ^ 64 ->
  Forall2 (resolves v) ops1 cms1 -> Forall2 (resolves v) ops2 cms2 ->
  ops_valid sp cms1 -> Permutation cms1 cms2 ->
  fst (run_session sp enc ienc v ops1) = map (fun _ => Ok tt) ops1 /\
  fst (run_session sp enc ienc v ops2) = map (fun _ => Ok tt) ops2 /\
  snd (run_session sp enc ienc v ops1) = snd (run_session sp enc ienc v ops2).
Proof. exact session_order_independent. Qed.
Print Assumptions C05_session_order_independent.

(* every reachable minishard object is the result of the stores routed to it,
   whatever happened to the other minishards (valid for ALL store sequences,
   including ones with rejected stores) *)
Theorem C05_routing_decomposition : forall sp enc ops st sk mk,
  get2 (fst (run_cmc_stores sp enc st ops)) sk mk =
  after sp enc (get2 st sk mk) (routed sp sk mk ops).
Proof. intros sp enc ops st sk mk. exact (proj1 (run_step sp enc ops st) sk mk). Qed.
Print Assumptions C05_routing_decomposition.

(* non-vacuity + instance: all 24 chunks of the 3x4x2 dataset stored in
   increasing and in decreasing order give identical files (in-kernel run) *)
Theorem C05_order_instance : snd wit_session = snd wit_session_rev.
Proof. exact wit_order_instance. Qed.
Print Assumptions C05_order_instance.

Example C05_ops_valid_inhabited :
  ops_valid {| sp_m := 2; sp_s := 2; sp_p := 0 |} [(10, [9; 9; 9]); (8, [2; 2; 2]); (26, [])].
Proof.
  split.
  - repeat constructor; simpl; intuition discriminate.
  - intros id [<-|[<-|[<-|[]]]]; vm_compute; split; reflexivity.
Qed.

(* Strategy independence ("in memory" vs "on disk" buffers) is NOT a theorem:
   both strategies are the same abstract map / byte sequence in the model; that
   the real OnDiskBytesDict / OnDiskByteArray behave like dict / bytearray is
   checked by the correspondence run (harness/props/c05.py compares the files
   written under both strategies byte for byte with each other and the model). *)
