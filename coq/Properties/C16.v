(* C16 — generated metadata and transform place the image in space.
   Statements only; proofs live in theories/Pipe/TrProofs.v; the model is
   theories/Pipe/TrAffine.v. *)
From Coq Require Import NArith ZArith QArith List Bool Lia Field.
From NGS Require Import Val Ints MeLinks TrAffine TrProofs.
Import ListNotations.

(* Half-voxel relation, over ANY field: for every affine (rows r1 r2 r3 =
   [A | t], any fourth row), every non-zero voxel-size triple s and every voxel
   index i, the matrix written by --generate-info sends Neuroglancer's
   corner-based coordinate of the centre of voxel i, (i + 1/2) o (k s), to
   k (A i + t), k being the mm -> nm factor.  Rotations, shears and flips are
   all instances (A is arbitrary). *)
Theorem C16_half_voxel :
  forall (F : Type) (f0 f1 : F) (fadd fmul fsub : F -> F -> F) (fopp : F -> F)
         (fdiv : F -> F -> F) (finv : F -> F),
  field_theory f0 f1 fadd fmul fsub fopp fdiv finv eq ->
  forall (k half : F) (a : mat4 F) (s i : vec3 F),
    fst (fst s) <> f0 -> snd (fst s) <> f0 -> snd s <> f0 ->
    let '(r1, r2, r3, r4) := a in
    let '(m1, m2, m3, m4) := info_transform F fadd fmul fsub fdiv f1 k half a s in
    row_at F fadd fmul m1 (centre_nm F fadd fmul k half s i) = fmul k (row_at F fadd fmul r1 i) /\
    row_at F fadd fmul m2 (centre_nm F fadd fmul k half s i) = fmul k (row_at F fadd fmul r2 i) /\
    row_at F fadd fmul m3 (centre_nm F fadd fmul k half s i) = fmul k (row_at F fadd fmul r3 i).
Proof. exact half_voxel_generic. Qed.
Print Assumptions C16_half_voxel.

(* the executable instance: Q, k = 10^6, half = 1/2 *)
Theorem C16_half_voxel_Q : forall (a : qmat) (s i : vec3 Q),
  ~ fst (fst s) == 0 -> ~ snd (fst s) == 0 -> ~ snd s == 0 ->
  let '(r1, r2, r3, r4) := a in
  let '(m1, m2, m3, m4) := q_info_transform a s in
  row_at Q Qplus Qmult m1 (centre_nm Q Qplus Qmult million qhalf s i) == million * row_at Q Qplus Qmult r1 i /\
  row_at Q Qplus Qmult m2 (centre_nm Q Qplus Qmult million qhalf s i) == million * row_at Q Qplus Qmult r2 i /\
  row_at Q Qplus Qmult m3 (centre_nm Q Qplus Qmult million qhalf s i) == million * row_at Q Qplus Qmult r3 i.
Proof. exact half_voxel_Q. Qed.
Print Assumptions C16_half_voxel_Q.

(* non-vacuity: the sheared, flipped, anisotropic example of the harness probe *)
Example C16_half_voxel_example :
  let a : qmat := ((0 # 1, -2 # 1, 0 # 1, 10 # 1), (3 # 2, 0 # 1, 1 # 2, -20 # 1), (0 # 1, 0 # 1, 3 # 1, 11 # 2), (0 # 1, 0 # 1, 0 # 1, 1 # 1)) in
  let s : vec3 Q := (3 # 2, 2 # 1, 3 # 1) in
  ~ fst (fst s) == 0 /\
  qmat_red (q_info_transform a s) =
    ((0 # 1, -1 # 1, 0 # 1, 11000000 # 1), (1 # 1, 0 # 1, 1 # 6, -21000000 # 1), (0 # 1, 0 # 1, 1 # 1, 4000000 # 1), (0 # 1, 0 # 1, 0 # 1, 1 # 1)).
Proof. split; [intro H; discriminate | vm_compute; reflexivity]. Qed.

(* nifti_to_neuroglancer_transform by itself: result at x + v/2 = argument at x *)
Theorem C16_nifti_to_ng_contract :
  forall (F : Type) (f0 f1 : F) (fadd fmul fsub : F -> F -> F) (fopp : F -> F)
         (fdiv : F -> F -> F) (finv : F -> F),
  field_theory f0 f1 fadd fmul fsub fopp fdiv finv eq ->
  forall (half : F) (m : mat4 F) (v x : vec3 F),
    let '(r1, r2, r3, r4) := m in
    let '(n1, n2, n3, n4) := nifti_to_ng F fadd fmul fsub half m v in
    let '(v1, v2, v3) := v in let '(x1, x2, x3) := x in
    let y := (fadd x1 (fmul half v1), fadd x2 (fmul half v2), fadd x3 (fmul half v3)) in
    row_at F fadd fmul n1 y = row_at F fadd fmul r1 x /\ row_at F fadd fmul n2 y = row_at F fadd fmul r2 x /\
    row_at F fadd fmul n3 y = row_at F fadd fmul r3 x /\ n4 = r4.
Proof. exact nifti_to_ng_contract. Qed.
Print Assumptions C16_nifti_to_ng_contract.

(* info fields for 3-D, 4-D and RGB volumes: size, channel count, data type
   from the guess table, resolution = voxel size x 10^6 *)
Theorem C16_info_fields_spec : forall shape is_rgb d vs gz,
  layout_ok shape is_rgb = true -> length vs = 3%nat ->
  exists i, info_assemble shape is_rgb d vs [] gz = Ok i /\
    if_size i = firstn 3 shape /\ length (if_size i) = 3%nat /\
    if_num_channels i = expected_channels shape is_rgb /\
    if_data_type i = fst (guess_dtype d) /\ if_imperfect i = snd (guess_dtype d) /\
    if_sharding i = None /\
    Forall2 (fun r v => r == v * million) (if_resolution i) vs.
Proof. exact info_fields_spec_lemma. Qed.
Print Assumptions C16_info_fields_spec.

Example C16_info_fields_example :
  layout_ok [3; 4; 5; 2]%Z false = true /\ layout_ok [3; 4; 5]%Z true = true /\
  layout_ok [3; 4]%Z false = false /\ layout_ok [3; 4; 5; 2; 2]%Z false = false.
Proof. repeat split. Qed.

(* the guessed type is always one Neuroglancer accepts; when the run is not
   flagged (exit status 0) it is the input type itself; otherwise float32 *)
Theorem C16_dtype_guess_holds : forall d,
  let '(g, imperfect) := guess_dtype d in
  is_ng_type g = true /\
  (imperfect = false -> g = d /\ holds_exactly d g = true) /\
  (imperfect = true -> g = NFloat32 /\ is_ng_type d = false).
Proof. exact dtype_guess_holds_lemma. Qed.
Print Assumptions C16_dtype_guess_holds.

Theorem C16_imperfect_but_exact : forall d, is_ng_type d = false ->
  holds_exactly d NFloat32 = match d with NInt8 | NInt16 | NBool | NFloat16 => true | _ => false end.
Proof. exact imperfect_but_exact. Qed.
Print Assumptions C16_imperfect_but_exact.

(* sharding option string *)
Theorem C16_sharding_spec : forall s gz so,
  parse_sharding s gz = Ok so ->
  exists a b c, split_comma s [] = [a; b; c] /\
    py_int a = Some (so_minishard so) /\ py_int b = Some (so_shard so) /\ py_int c = Some (so_preshift so) /\
    so_gzip so = gz /\
    (0 <= so_minishard so < two64z)%Z /\ (0 <= so_shard so < two64z)%Z /\ (0 <= so_preshift so < two64z)%Z.
Proof. exact sharding_spec_lemma. Qed.
Print Assumptions C16_sharding_spec.

Theorem C16_sharding_failure_class : forall s gz,
  (exists so, parse_sharding s gz = Ok so) \/ parse_sharding s gz = Crash RuntimeError.
Proof. exact sharding_failure_class_lemma. Qed.
Print Assumptions C16_sharding_failure_class.

(* Compact URL form.  Full statement: the text parses back to the same
   matrix of floats.  Proved (relative to the float-repr oracle that supplies
   str(x) and int(x) per entry): the text splits back at '_' / brackets into
   exactly the entry texts, and integer-valued entries are printed as the
   integer.  Missing: that Python's float parser maps str(x) back to x
   (CPython's repr round trip, external) and the decimal round trip
   int(str(z)) = z (tested by the harness, not proved). *)
Theorem C16_compact_json_partial : forall m, forallb row_clean m = true ->
  compact_parse (compact_json m) = Some (map (map entry_text) m).
Proof. exact compact_parse_back_lemma. Qed.
Print Assumptions C16_compact_json_partial.

Theorem C16_integer_entries : forall e z,
  je_int e = Some z -> ends_dot0 (je_repr e) = true -> entry_text e = dec_of_Z z.
Proof. exact integer_entries_lemma. Qed.
Print Assumptions C16_integer_entries.

Example C16_compact_example :
  let m := [[ {| je_repr := [49; 46; 48]%N; je_int := Some 1%Z |};
              {| je_repr := [45; 48; 46; 48]%N; je_int := Some 0%Z |} ];
            [ {| je_repr := [49; 46; 53]%N; je_int := None |};
              {| je_repr := [49; 101; 43; 49; 54]%N; je_int := Some 10000000000000000%Z |} ]] in
  forallb row_clean m = true /\
  compact_json m = [91;91;49;95;48;93;95;91;49;46;53;95;49;101;43;49;54;93;93]%N.
Proof. split; vm_compute; reflexivity. Qed.
