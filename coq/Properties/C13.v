(* C13 — re-encoding a dataset preserves its voxels exactly for lossless
   targets and leaves the source unchanged.  Statements only; proofs in
   theories/Conv/ConvProofs.v.  f is the element-wise data type transformer
   (C11); the destination codec round-trip is C02's; decoders return the
   requested shape (C10). *)
From Coq Require Import NArith ZArith List Lia.
From NGS Require Import Val Ints PioModel VolModel ConvModel ConvProofs.
Import ListNotations.
Open Scope Z_scope.

(* no store is ever issued on the source handle, whatever happens *)
Theorem C13_source_never_written :
  forall V f sbytes dbytes sdecode dencode sscales dscales src dst0 dst tr,
  convert_chunks V f sbytes dbytes sdecode dencode sscales dscales src dst0 = Ok (dst, tr) ->
  Forall (fun e => match e with EStore Src _ _ => False | _ => True end) tr.
Proof. exact source_never_written. Qed.
Print Assumptions C13_source_never_written.

(* if the command succeeds, EVERY chunk of EVERY scale of the destination
   (any number of scales, different chunk sizes per scale) reads back as the
   element-wise conversion of the same chunk of the source *)
Theorem C13_convert_pointwise :
  forall (V : Type) (f : V -> V) (sbytes dbytes : Type)
         (sdecode : list N -> sbytes -> triple -> outcome (cchunk V))
         (dencode : list N -> cchunk V -> outcome dbytes)
         (ddecode : list N -> dbytes -> triple -> outcome (cchunk V)),
  (forall k ch b, dencode k ch = Ok b -> ddecode k b (fst ch) = Ok ch) ->
  (forall k b e ch, sdecode k b e = Ok ch -> fst ch = e) ->
  forall sscales dscales src dst tr,
  NoDup (map sc_key dscales) ->
  convert_chunks V f sbytes dbytes sdecode dencode sscales dscales src [] = Ok (dst, tr) ->
  forall s cs c,
  In s dscales -> In cs (sc_chunk_sizes s) -> In c (cgrid (sc_size s) cs) ->
  exists ch,
    read_chunk (cchunk V) sbytes sdecode sscales src (sc_key s) c = Ok ch /\
    read_chunk (cchunk V) dbytes ddecode dscales dst (sc_key s) c = Ok (tmap V f ch).
Proof. exact convert_pointwise_chunks. Qed.
Print Assumptions C13_convert_pointwise.

(* the destination grid walked by the command is the same set of chunks as
   the grid of the volume writer (another loop order) *)
Theorem C13_grid_same_chunks : forall size cs c,
  In c (cgrid size cs) <-> In c (vgrid size cs).
Proof. exact cgrid_vgrid. Qed.
Print Assumptions C13_grid_same_chunks.
