(* C13 — re-encoding a dataset preserves its voxels exactly for lossless
   targets and leaves the source unchanged.  Statements only; proofs in
   theories/Conv/ConvProofs.v.  f is the element-wise data type transformer
   (C11); the destination codec round-trip is C02's; decoders return the
   requested shape (C10). *)
From Coq Require Import NArith ZArith List Lia.
From NGS Require Import Val Ints PioModel VolModel ConvModel ConvProofs.
Import ListNotations.
Open Scope Z_scope.

(* no store is ever issued on the source handle, whatever happens *)
Theorem C13_source_never_written :
  forall V f sbytes dbytes sdecode dencode sscales dscales src dst0 dst tr,
  convert_chunks V f sbytes dbytes sdecode dencode sscales dscales src dst0 = Ok (dst, tr) ->
  Forall (fun e => match e with EStore Src _ _ => False | _ => True end) tr.
Proof. exact source_never_written. Qed.
Print Assumptions C13_source_never_written.

(* if the command succeeds, EVERY chunk of EVERY scale of the destination
   (any number of scales, different chunk sizes per scale) reads back as the
   element-wise conversion of the same chunk of the source *)
Theorem C13_convert_pointwise :
  forall (V : Type) (f : V -> V) (sbytes dbytes : Type)
         (sdecode : list N -> sbytes -> triple -> outcome (cchunk V))
         (dencode : list N -> cchunk V -> outcome dbytes)
         (ddecode : list N -> dbytes -> triple -> outcome (cchunk V)),
  (forall k ch b, dencode k ch = Ok b -> ddecode k b (fst ch) = Ok ch) ->
  (forall k b e ch, sdecode k b e = Ok ch -> fst ch = e) ->
  forall sscales dscales src dst tr,
  NoDup (map sc_key dscales) ->
  convert_chunks V f sbytes dbytes sdecode dencode sscales dscales src [] = Ok (dst, tr) ->
  forall s cs c,
  In s dscales -> In cs (sc_chunk_sizes s) -> In c (cgrid (sc_size s) cs) ->
  exists ch,
    read_chunk (cchunk V) sbytes sdecode sscales src (sc_key s) c = Ok ch /\
    read_chunk (cchunk V) dbytes ddecode dscales dst (sc_key s) c = Ok (tmap V f ch).
Proof. exact convert_pointwise_chunks. Qed.
Print Assumptions C13_convert_pointwise.

(* a chunk of the destination grid whose source cannot be read (missing,
   truncated, undecodable, a remote failure) makes the command FAIL: it never
   ends normally with something else in that place *)
Theorem C13_convert_fails_on_unreadable_source :
  forall V f sbytes dbytes sdecode dencode sscales dscales src s cs c,
  In s dscales -> In cs (sc_chunk_sizes s) -> In c (cgrid (sc_size s) cs) ->
  ~ is_ok (read_chunk (cchunk V) sbytes sdecode sscales src (sc_key s) c) ->
  ~ is_ok (convert_chunks V f sbytes dbytes sdecode dencode sscales dscales src []).
Proof. exact convert_fails_on_unreadable_source. Qed.
Print Assumptions C13_convert_fails_on_unreadable_source.

(* the same into a destination that is NOT empty: whatever chunks it held
   before (an older generation of the dataset, a conversion with other
   parameters), if the command succeeds every chunk of every scale it was asked
   to produce reads back as the conversion of the source chunk *)
Theorem C13_convert_pointwise_populated :
  forall (V : Type) (f : V -> V) (sbytes dbytes : Type)
         (sdecode : list N -> sbytes -> triple -> outcome (cchunk V))
         (dencode : list N -> cchunk V -> outcome dbytes)
         (ddecode : list N -> dbytes -> triple -> outcome (cchunk V)),
  (forall k ch b, dencode k ch = Ok b -> ddecode k b (fst ch) = Ok ch) ->
  (forall k b e ch, sdecode k b e = Ok ch -> fst ch = e) ->
  forall sscales dscales src (dst0 : store dbytes) dst tr,
  convert_chunks V f sbytes dbytes sdecode dencode sscales dscales src dst0 = Ok (dst, tr) ->
  forall s cs c,
  In s dscales -> In cs (sc_chunk_sizes s) -> In c (cgrid (sc_size s) cs) ->
  exists ch,
    read_chunk (cchunk V) sbytes sdecode sscales src (sc_key s) c = Ok ch /\
    read_chunk (cchunk V) dbytes ddecode dscales dst (sc_key s) c = Ok (tmap V f ch).
Proof. exact convert_pointwise_populated. Qed.
Print Assumptions C13_convert_pointwise_populated.

(* the destination grid walked by the command is the same set of chunks as
   the grid of the volume writer (another loop order) *)
Theorem C13_grid_same_chunks : forall size cs c,
  In c (cgrid size cs) <-> In c (vgrid size cs).
Proof. exact cgrid_vgrid. Qed.
Print Assumptions C13_grid_same_chunks.

(* ---- closed instances: raw source, raw / compressed_segmentation
   destination, unsigned integer data types (proofs in
   theories/Link/LinkVolumeProofs.v) ----
   The abstract parameters of C13_convert_pointwise are instantiated: the
   voxel type is the element type [num] of the data-type transformer, f is
   the transformer [convert_scalar i o] of C11 itself, the source decoder is
   the modelled RawChunkEncoder.decode for type i, the destination codec the
   modelled raw codec for type o (or the compressed_segmentation codec),
   acting on chunks through the glue of LinkVolume.v.  The destination
   round-trip hypothesis is discharged by raw_roundtrip (C10) /
   encode_impl_roundtrip (C02), the source decoder-shape hypothesis by the
   definition of raw_decode; the value map is exact saturation by
   C11_int_to_int_exact.  (NoDup of the keys is not needed.)  The remaining
   hypothesis on the source says that what the source store returns are byte
   strings (every element below 256). *)
From NGS Require Import DType Convert LinkVolume LinkVolumeProofs.

(* if the command succeeds, EVERY chunk of EVERY scale of the destination
   reads back as the element-wise saturation into the range of o of the
   integers of the same source chunk (which all lie in the range of i, and
   are num_channels * X * Y * Z many) *)
Theorem C13_convert_pointwise_raw_to_raw :
  forall (i o : dtype) (nc : N)
         (sscales dscales : list scale) (src dst : store (list N)) (tr : list event),
  uint_dt i = true -> uint_dt o = true ->
  (forall k c b, lookup (list N) src k c = Some b -> Words.bytes_ok b) ->
  let sdec := vraw_dec (dt_isz i) nc in
  let denc := vraw_enc (dt_isz o) nc in
  let ddec := vraw_dec (dt_isz o) nc in
  convert_chunks num (convert_scalar i o) (list N) (list N) sdec denc sscales dscales src []
    = Ok (dst, tr) ->
  forall s cs c,
  In s dscales -> In cs (sc_chunk_sizes s) -> In c (cgrid (sc_size s) cs) ->
  exists zs,
    read_chunk (cchunk num) (list N) sdec sscales src (sc_key s) c = Ok (extents c, map NI zs) /\
    Forall (in_range i) zs /\
    (let '(ex, ey, ez) := extents c in Z.of_nat (length zs) = Z.of_N nc * (ez * ey * ex)) /\
    read_chunk (cchunk num) (list N) ddec dscales dst (sc_key s) c
      = Ok (extents c, map (fun z => NI (clamp o z)) zs).
Proof. exact convert_pointwise_raw_to_raw. Qed.
Print Assumptions C13_convert_pointwise_raw_to_raw.

(* the same with a compressed_segmentation destination of label type dt
   (uint32 / uint64) and any block size g *)
Theorem C13_convert_pointwise_raw_to_cseg :
  forall (i : dtype) (dt : Words.dtype) (nc : N) (g : CSegEncode.geom)
         (sscales dscales : list scale) (src dst : store (list N)) (tr : list event),
  uint_dt i = true ->
  (forall k c b, lookup (list N) src k c = Some b -> Words.bytes_ok b) ->
  let o := label_dt dt in
  let sdec := vraw_dec (dt_isz i) nc in
  let denc := vcseg_enc dt nc g in
  let ddec := vcseg_dec dt nc g in
  convert_chunks num (convert_scalar i o) (list N) (list N) sdec denc sscales dscales src []
    = Ok (dst, tr) ->
  forall s cs c,
  In s dscales -> In cs (sc_chunk_sizes s) -> In c (cgrid (sc_size s) cs) ->
  exists zs,
    read_chunk (cchunk num) (list N) sdec sscales src (sc_key s) c = Ok (extents c, map NI zs) /\
    Forall (in_range i) zs /\
    (let '(ex, ey, ez) := extents c in Z.of_nat (length zs) = Z.of_N nc * (ez * ey * ex)) /\
    read_chunk (cchunk num) (list N) ddec dscales dst (sc_key s) c
      = Ok (extents c, map (fun z => NI (clamp o z)) zs).
Proof. exact convert_pointwise_raw_to_cseg. Qed.
Print Assumptions C13_convert_pointwise_raw_to_cseg.

(* non-vacuity: a uint16 raw source (two chunks, one an edge chunk) holding
   300, 7, 65535 converted to uint8 raw meets the hypotheses, the command
   succeeds and the destination holds 255, 7, 255 *)
Example C13_raw_to_raw_example :
  uint_dt U16 = true /\ uint_dt U8 = true /\
  (forall k c b, lookup (list N) lv_src16 k c = Some b -> Words.bytes_ok b) /\
  exists dst tr,
    convert_chunks num (convert_scalar U16 U8) (list N) (list N)
      (vraw_dec (dt_isz U16) 1) (vraw_enc (dt_isz U8) 1) lv_scales lv_scales lv_src16 []
      = Ok (dst, tr) /\
    read_chunk (cchunk num) (list N) (vraw_dec (dt_isz U16) 1) lv_scales lv_src16 [1%N] (0, 2, 0, 1, 0, 1)
      = Ok ((2, 1, 1), map NI [300; 7]) /\
    read_chunk (cchunk num) (list N) (vraw_dec (dt_isz U8) 1) lv_scales dst [1%N] (0, 2, 0, 1, 0, 1)
      = Ok ((2, 1, 1), map NI [255; 7]) /\
    lookup (list N) dst [1%N] (2, 3, 0, 1, 0, 1) = Some [255%N].
Proof. exact convert_pointwise_raw_to_raw_nonvacuous. Qed.
Print Assumptions C13_raw_to_raw_example.

(* non-vacuity: a uint64 raw source holding 2^40, 7, 2^32-1 converted to
   uint32 compressed_segmentation (8x8x8 blocks): the command succeeds and the
   destination decodes to 2^32-1, 7, 2^32-1 *)
Example C13_raw_to_cseg_example :
  uint_dt U64 = true /\
  (forall k c b, lookup (list N) lv_src64 k c = Some b -> Words.bytes_ok b) /\
  exists dst tr,
    convert_chunks num (convert_scalar U64 (label_dt Words.U32)) (list N) (list N)
      (vraw_dec (dt_isz U64) 1) (vcseg_enc Words.U32 1 lv_geom) lv_scales lv_scales lv_src64 []
      = Ok (dst, tr) /\
    read_chunk (cchunk num) (list N) (vraw_dec (dt_isz U64) 1) lv_scales lv_src64 [1%N] (0, 2, 0, 1, 0, 1)
      = Ok ((2, 1, 1), map NI [1099511627776; 7]) /\
    read_chunk (cchunk num) (list N) (vcseg_dec Words.U32 1 lv_geom) lv_scales dst [1%N] (0, 2, 0, 1, 0, 1)
      = Ok ((2, 1, 1), map NI [4294967295; 7]) /\
    read_chunk (cchunk num) (list N) (vcseg_dec Words.U32 1 lv_geom) lv_scales dst [1%N] (2, 3, 0, 1, 0, 1)
      = Ok ((1, 1, 1), map NI [4294967295]).
Proof. exact convert_pointwise_raw_to_cseg_nonvacuous. Qed.
Print Assumptions C13_raw_to_cseg_example.
