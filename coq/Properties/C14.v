(* C14 — reading over HTTP gives the same bytes as reading the files locally.
   Statements only; proofs live in theories/Store/StHttpProofs.v.

   [serve sc t] is the static server of docs/serving-data.rst over the file
   system t (flat -> deep rewrite block iff [s_rewrite], gzip_static, Range);
   a server in general is any function  request number -> request -> response
   (the transport is an oracle).  [Inv ... t m] says that t is a dataset
   written by the FileAccessor model under configuration c whose abstract
   content is m (C12_reachable_inv: every guarded history reaches such a
   state). *)
From Coq Require Import NArith ZArith List Bool Lia.
From NGS Require Import Val Ints StFS StFSProofs StFileAccessor StFileAccessorProofs
                        StRefineProofs StSharded StHttp StHttpProofs.
Import ListNotations.
Open Scope N_scope.

(* Plain datasets, chunks: for a dataset written by the file accessor in ANY
   configuration (flat/deep, gzip on/off, any level), served as documented
   (rewrite block configured iff the dataset is deep), the chunk fetched by
   HttpAccessor at its flat URL equals what the local FileAccessor returns:
   the stored bytes, or a data-access error when absent.  Guards: the name
   universe of C12; a one-component scale key (as generated); non-negative
   chunk coordinates (the documented rewrite rule matches [0-9]+ only). *)
Theorem C14_http_eq_local_plain :
  forall (B : Type) (plain : list N -> B) (gz : N -> list N -> B) (gunzip : B -> gzres),
  (forall l b, gunzip (gz l b) = GzOk b) ->
  forall (slice : B -> N -> N -> option B) c ex U X,
  cleanb (base c) = true ->
  (forall n, In n U -> n <> [] /\ cleanb n = true /\ gzfree n = true) ->
  (forall n m, In n U -> In m U -> prefix n m -> n = m) ->
  (forall o, In o X -> ~ In o U /\ o <> [] /\ cleanb o = true /\ gzfree o = true) ->
  forall sc dpath,
  base c = s_root sc ++ ne_parts dpath -> s_rewrite sc = negb (flat c) -> s_gzip_static sc = true ->
  forall t m key co,
  Inv B plain gz c ex U t m -> simple_comp key = true ->
  op_ok c ex U X (OFetchChunk key co) -> nonneg co ->
  fst (hrun B (serve B (plain []) slice sc t) 0
            (http_fetch_chunk B plain gunzip (base_url sc dpath) key co))
  = out_data B (fst (run_op B plain gz gunzip c t (OFetchChunk key co))).
Proof. exact http_eq_local_chunk. Qed.
Print Assumptions C14_http_eq_local_plain.

(* ... and files (info, meshes, transform.json): URL-safe relative names
   whose last component does not look like a flat chunk name when the rewrite
   block is configured *)
Theorem C14_http_eq_local_file :
  forall (B : Type) (plain : list N -> B) (gz : N -> list N -> B) (gunzip : B -> gzres),
  (forall l b, gunzip (gz l b) = GzOk b) ->
  forall (slice : B -> N -> N -> option B) c ex U X,
  cleanb (base c) = true ->
  (forall n, In n U -> n <> [] /\ cleanb n = true /\ gzfree n = true) ->
  (forall n m, In n U -> In m U -> prefix n m -> n = m) ->
  (forall o, In o X -> ~ In o U /\ o <> [] /\ cleanb o = true /\ gzfree o = true) ->
  forall sc dpath,
  base c = s_root sc ++ ne_parts dpath -> s_rewrite sc = negb (flat c) -> s_gzip_static sc = true ->
  forall t m name n,
  Inv B plain gz c ex U t m -> is_absolute name = false -> spec_norm name = Some n ->
  ne_parts name = n -> In n U ->
  (s_rewrite sc = false \/ flat_axes (last n []) = None) ->
  fst (hrun B (serve B (plain []) slice sc t) 0
            (http_fetch_file B plain gunzip (base_url sc dpath) name))
  = out_data B (fst (run_op B plain gz gunzip c t (OFetchFile name))).
Proof. exact http_eq_local_file. Qed.
Print Assumptions C14_http_eq_local_file.

(* the rewrite rule recognises every flat chunk name with non-negative
   coordinates (non-vacuity of the deep case) *)
Theorem C14_rewrite_matches : forall c, nonneg c ->
  flat_axes (spec_flat_name c)
  = Some (spec_axis (cx0 c) (cx1 c), spec_axis (cy0 c) (cy1 c), spec_axis (cz0 c) (cz1 c)).
Proof. exact flat_axes_ok. Qed.
Print Assumptions C14_rewrite_matches.

(* Dispatch: an http(s) URL is given to the sharded reader exactly when the
   "sharding" option key is present or the fetched info is a JSON object that
   declares sharding (type neuroglancer_uint64_sharded_v1) for at least one
   and for all scales.  For ANY server. *)
Theorem C14_dispatch_iff :
  forall (B : Type) (plain : list N -> B) (gunzip : B -> gzres) (parse_info : B -> pinfo),
  forall (srv : server B) url o bu s,
  http_init url = Ok bu ->
  fst (hrun B srv 0 (dispatch_http B plain gunzip parse_info url o)) = DOk s ->
  (sel_sharded s = true <->
   o_shard_present o = true \/
   exists d l, info_reply B plain gunzip (srv 0%nat {| r_meth := GET; r_url := bu ++ s_info; r_range := None |}) = Ok d
               /\ parse_info d = PScales l /\ spec_declares l).
Proof. exact dispatch_iff. Qed.
Print Assumptions C14_dispatch_iff.

(* Status handling of HttpAccessor, for ANY server behaviour: a dropped
   connection or a 4xx/5xx status is a data-access error; data is returned
   only for a non-error status; HEAD 404 means "absent". *)
Theorem C14_http_status_to_error :
  forall (B : Type) (plain : list N -> B) (gunzip : B -> gzres),
  forall (srv : server B) n bu rel,
  failing B (srv n {| r_meth := GET; r_url := bu ++ rel; r_range := None |}) ->
  fst (hrun B srv n (http_fetch_file B plain gunzip bu rel)) = AccessErr.
Proof. exact fetch_status_to_error. Qed.
Print Assumptions C14_http_status_to_error.

Theorem C14_http_data_only_on_success :
  forall (B : Type) (plain : list N -> B) (gunzip : B -> gzres),
  forall (srv : server B) n bu rel d,
  fst (hrun B srv n (http_fetch_file B plain gunzip bu rel)) = Ok d ->
  exists st e body, srv n {| r_meth := GET; r_url := bu ++ rel; r_range := None |} = Resp st e body
                    /\ is_error_status st = false /\ content B plain gunzip e body = Some d.
Proof. exact fetch_ok_inv. Qed.
Print Assumptions C14_http_data_only_on_success.

Theorem C14_http_exists_status :
  forall (B : Type) (srv : server B) n bu rel,
  fst (hrun B srv n (http_file_exists B bu rel)) =
  match srv n {| r_meth := HEAD; r_url := bu ++ rel; r_range := None |} with
  | ConnErr => AccessErr
  | Resp st _ _ => if st =? 404 then Ok false else if is_error_status st then AccessErr else Ok true
  end.
Proof. exact exists_status. Qed.
Print Assumptions C14_http_exists_status.

(* Sharded datasets (single .shard files as well as legacy .index/.data
   pairs), for ANY tree: for a scale directory served as documented for
   sharded data (no rewriting, no Content-Encoding: no pre-compressed twin of
   a shard file, Range support), the sharded HTTP reader's result for an
   identifier - HEAD probes, Range reads of the shard index and of the
   minishard indices, the lookup, the Range read of the chunk - equals what the
   shard-reading algorithm that the local and the HTTP reader share returns on
   the local files, reading with the length check.  Which minishard holds an
   identifier and where the chunk lies in it ([locate]), and the index / data
   decoders, are taken as given (cluster B's models). *)
Theorem C14_http_eq_local_sharded :
  forall (B : Type) (plain : list N -> B) (gunzip : B -> gzres) (unplain : B -> option (list N))
         (slice : B -> N -> N -> option B),
  (forall x, unplain (plain x) = Some x) ->
  (forall d x a b, unplain d = Some x ->
     slice d a b = if lenN x <=? a then None
                   else Some (plain (firstn (N.to_nat (b + 1 - a)) (skipn (N.to_nat a) x)))) ->
  forall sc (t : fs B) upath name,
  s_rewrite sc = false -> tree_closed B t -> cleanb (sdir sc upath) = true ->
  no_slash name /\ name <> [] ->
  (forall suffix, In suffix [s_shard; s_index; s_data] ->
     file_at B t (with_gz (shard_file (sdir sc upath) name suffix)) = None) ->
  (forall suffix d, In suffix [s_shard; s_index; s_data] ->
     lookup B t (shard_file (sdir sc upath) name suffix) = Some (File d) -> exists x, unplain d = Some x) ->
  forall idx_decode locate data_decode hl cmc n,
  fst (hrun B (serve B (plain []) slice sc t) n
         (hs_fetch B plain gunzip unplain idx_decode locate data_decode (scale_url sc upath) name hl cmc))
  = omap B plain
      (shard_fetch_pure idx_decode locate data_decode
         (local_ex B t (sdir sc upath) name) (local_rd B unplain true t (sdir sc upath) name hl) IOErr hl cmc).
Proof. exact http_eq_local_sharded. Qed.
Print Assumptions C14_http_eq_local_sharded.

(* the length check only turns data into an error: whenever that checked
   reader returns bytes, the local reader as coded (plain seek + read; a
   missing shard fails its assertion) returns the same bytes; so data fetched
   over HTTP is always the local reader's data *)
Theorem C14_sharded_checked_is_local :
  forall (B : Type) (unplain : B -> option (list N)) idx_decode locate data_decode
         (t : fs B) dir name hl cmc d,
  shard_fetch_pure idx_decode locate data_decode
    (local_ex B t dir name) (local_rd B unplain true t dir name hl) IOErr hl cmc = Ok d ->
  shard_fetch_pure idx_decode locate data_decode
    (local_ex B t dir name) (local_rd B unplain false t dir name hl) (Crash AssertionError) hl cmc = Ok d.
Proof. exact sharded_checked_is_local. Qed.
Print Assumptions C14_sharded_checked_is_local.

(* reads that lie within the file are not affected by the check (so on
   well-formed shards the two readers coincide) *)
Theorem C14_local_read_in_bounds :
  forall (B : Type) (unplain : B -> option (list N)) (t : fs B) dir name hl lg off len f y,
  lookup B t (shard_file dir name (fst (pick lg hl off))) = Some (File f) -> unplain f = Some y ->
  snd (pick lg hl off) + len <= lenN y ->
  local_rd B unplain true t dir name hl lg off len = local_rd B unplain false t dir name hl lg off len.
Proof. exact local_rd_in_bounds. Qed.
Print Assumptions C14_local_read_in_bounds.

(* for any stateless server at all, the sharded HTTP fetch is that algorithm
   over the server's answers (used for the fault statements of C18) *)
Theorem C14_hs_fetch_is_algo :
  forall (B : Type) (plain : list N -> B) (gunzip : B -> gzres) (unplain : B -> option (list N))
         idx_decode locate data_decode (srv : server B),
  (forall n m r, srv n r = srv m r) ->
  forall scale_url shard_name hl cmc n,
  fst (hrun B srv n (hs_fetch B plain gunzip unplain idx_decode locate data_decode scale_url shard_name hl cmc))
  = omap B plain (shard_fetch_pure idx_decode locate data_decode
            (fun suffix => http_ex B srv ((scale_url ++ shard_name) ++ suffix))
            (http_rd B plain gunzip unplain srv (scale_url ++ shard_name) hl) IOErr hl cmc).
Proof. exact hs_fetch_is_algo. Qed.
Print Assumptions C14_hs_fetch_is_algo.

(* non-vacuity: a well-formed one-chunk shard, served: HTTP, checked and
   unchecked local readers all return the chunk's byte; a server answering
   404 to everything gives an I/O error *)
Theorem C14_http_sharded_example :
  w_fetch = Ok (BPlain [65]) /\ w_local true = Ok [65] /\ w_local false = Ok [65].
Proof. exact http_sharded_witness. Qed.
Print Assumptions C14_http_sharded_example.

Theorem C14_missing_shard_is_io_error :
  fst (hrun blob w_all_404 0
         (hs_fetch blob BPlain (blob_gunzip []) w_unplain (fun b => Some b) w_locate (fun b => Ok b)
                   [104;47;107;47] [48] 16 0)) = IOErr.
Proof. exact missing_shard_io_error. Qed.
Print Assumptions C14_missing_shard_is_io_error.

(* base URL normalisation never fails; an empty path becomes "/" *)
Theorem C14_http_init_total : forall url, exists bu, http_init url = Ok bu.
Proof. exact http_init_total. Qed.
Print Assumptions C14_http_init_total.

Theorem C14_http_init_empty_path_example :
  u_path (urlsplit [104;116;116;112;58;47;47;104;58;56;48]) = [] /\
  http_init [104;116;116;112;58;47;47;104;58;56;48]
  = Ok [104;116;116;112;58;47;47;104;58;56;48;47].
Proof. exact http_init_empty_path_example. Qed.
Print Assumptions C14_http_init_empty_path_example.
